import numpy as np, piquasso as pq, warnings
warnings.filterwarnings("ignore")
def prog(meas_modes=None):
    with pq.Program() as p:
        pq.Q() | pq.Vacuum()
        pq.Q(0) | pq.Squeezing(r=0.5, phi=0.3)
        pq.Q(1) | pq.Displacement(r=0.4, phi=1.0)
        pq.Q(0,1) | pq.Beamsplitter(theta=0.7, phi=0.4)
        if meas_modes: pq.Q(*meas_modes) | pq.HomodyneMeasurement(phi=0.0)
    return p
st=pq.GaussianSimulator(d=2).execute(prog()).state
print("exact mean xpxp", st.xpxp_mean_vector.round(3), "cov diag", np.diag(st.xpxp_covariance_matrix).round(3), "cov x0x1", st.xpxp_covariance_matrix[0,2].round(3))
for mm in ((0,1),(1,0),(0,),(1,)):
    f=pq.PureFockSimulator(d=2, config=pq.Config(cutoff=14, seed_sequence=3)).execute(prog(mm), shots=8000)
    F=np.array(f.samples)
    g=pq.GaussianSimulator(d=2, config=pq.Config(seed_sequence=3)).execute(prog(mm), shots=8000)
    G=np.array(g.samples)[:, ::2]
    print(mm, "Fock mean", F.mean(0).round(3), "var", F.var(0).round(3), "| Gauss mean", G.mean(0).round(3), "var", G.var(0).round(3))
