"""E6 — algebraic value numbering of closed-form matrices.

A syntax-directed translation of straight-line, branch-free function bodies that build small matrices
(`_get_passive_block`, `_get_active_block`, the dual-rail builders …) into sympy terms over
Q(i)[cos, sin, exp, cosh, sinh, sqrt] with one real symbol per constructor parameter, and a normaliser that
decides polynomial identities modulo cos^2+sin^2=1, cosh^2-sinh^2=1, e^{i x} e^{-i x}=1 by rewriting to
exponentials and expanding.  Nothing from the repository is executed; a body outside the translatable
fragment raises Untranslatable (the caller reports UNDECIDED, exit 2).
"""

from __future__ import annotations

import ast
from typing import Any, Callable, Dict, List, Optional

import sympy as sp

from .index import FuncInfo, dotted, norm
from .report import AnalysisError


# `config.hbar` of the repository: a positive real symbol
HBAR = sp.Symbol("hbar", positive=True)

class Untranslatable(AnalysisError):
    pass


NP_FUNCS: Dict[str, Callable] = {
    "cos": sp.cos, "sin": sp.sin, "exp": sp.exp, "cosh": sp.cosh, "sinh": sp.sinh, "tanh": sp.tanh, "sqrt": sp.sqrt,
    "conj": sp.conjugate, "conjugate": sp.conjugate, "abs": sp.Abs, "tan": sp.tan, "log": sp.log, "arctanh": sp.atanh,
    "real": sp.re, "imag": sp.im, "arctan": sp.atan, "arcsin": sp.asin, "arccos": sp.acos, "angle": sp.arg,
}


def _map(f: Callable, x: Any) -> Any:
    if isinstance(x, sp.MatrixBase):
        return x.applyfunc(f)
    if isinstance(x, (list, tuple)):
        return type(x)(_map(f, e) for e in x)
    return f(x)


def to_matrix(x: Any) -> sp.Matrix:
    if isinstance(x, sp.MatrixBase):
        return sp.Matrix(x)
    if isinstance(x, (list, tuple)):
        if x and isinstance(x[0], (list, tuple)):
            return sp.Matrix([[sp.sympify(e) for e in row] for row in x])
        return sp.Matrix([sp.sympify(e) for e in x])
    return sp.Matrix([[sp.sympify(x)]])


class SymEval:
    """Evaluates a function body symbolically.  `params` maps parameter-dict keys to symbols; `env` seeds locals."""

    def __init__(self, fn: FuncInfo, params: Dict[str, Any], env: Optional[Dict[str, Any]] = None,
                 call_hook: Optional[Callable[["SymEval", ast.Call], Any]] = None):
        self.fn = fn
        self.params = params
        self.env: Dict[str, Any] = dict(env or {})
        self.np_names = {"np", "numpy", "fallback_np"}
        # locals bound to a numpy namespace (`xp = connector.np`) denote numpy whatever they are called
        for n_ in ast.walk(fn.node):
            if isinstance(n_, ast.Assign) and len(n_.targets) == 1 and isinstance(n_.targets[0], ast.Name) \
                    and isinstance(n_.value, ast.Attribute) and n_.value.attr in ("np", "fallback_np", "_np", "forward_pass_np"):
                self.np_names.add(n_.targets[0].id)
        self.call_hook = call_hook
        self.result: Any = None

    # ---- driver ----------------------------------------------------------------------------------------
    def run(self) -> Any:
        for s in self.fn.node.body:
            if isinstance(s, ast.Expr) and isinstance(s.value, ast.Constant) and isinstance(s.value.value, str):
                continue
            r = self.stmt(s)
            if r is not None:
                return r[0]
        return None

    def stmt(self, s: ast.stmt):
        if isinstance(s, ast.Assign):
            v = self.ev(s.value)
            for t in s.targets:
                self.bind(t, v)
            return None
        if isinstance(s, ast.AnnAssign) and s.value is not None:
            self.bind(s.target, self.ev(s.value))
            return None
        if isinstance(s, ast.Return):
            return (self.ev(s.value),)
        if isinstance(s, ast.Expr):
            return None
        if isinstance(s, ast.Pass):
            return None
        raise Untranslatable(f"E6: statement `{norm(s)[:60]}` in {self.fn.qualname} is outside the straight-line fragment")

    def bind(self, t: ast.AST, v: Any) -> None:
        if isinstance(t, ast.Name):
            self.env[t.id] = v
            return
        if isinstance(t, (ast.Tuple, ast.List)):
            seq = list(v) if not isinstance(v, sp.MatrixBase) else list(v)
            if len(seq) != len(t.elts):
                raise Untranslatable(f"E6: cannot unpack {len(seq)} values into {len(t.elts)} targets in {self.fn.qualname}")
            for a, b in zip(t.elts, seq):
                self.bind(a, b)
            return
        raise Untranslatable(f"E6: assignment target `{norm(t)}` in {self.fn.qualname}")

    # ---- expressions ----------------------------------------------------------------------------------------
    def is_np(self, e: ast.AST) -> bool:
        d = dotted(e) or ""
        if d in self.np_names:
            return True
        if d.endswith(".np") or d.endswith(".fallback_np") or d.endswith("._np"):
            return True
        if isinstance(e, ast.Name) and self.env.get(e.id) == "<np>":
            return True
        return False

    def ev(self, e: ast.AST) -> Any:
        if isinstance(e, ast.Constant):
            if isinstance(e.value, bool):
                return sp.Integer(int(e.value))
            if isinstance(e.value, int):
                return sp.Integer(e.value)
            if isinstance(e.value, float):
                return sp.nsimplify(e.value, rational=True)
            if isinstance(e.value, complex):
                return sp.nsimplify(e.value.real, rational=True) + sp.I * sp.nsimplify(e.value.imag, rational=True)
            if isinstance(e.value, str):
                return e.value
            raise Untranslatable(f"E6: constant {e.value!r}")
        if isinstance(e, ast.Name):
            if e.id in self.env:
                return self.env[e.id]
            if e.id in self.np_names:
                return "<np>"
            raise Untranslatable(f"E6: free name `{e.id}` in {self.fn.qualname}")
        if isinstance(e, ast.Attribute):
            if e.attr in ("np", "fallback_np", "_np", "forward_pass_np"):
                return "<np>"
            if self.is_np(e.value):
                if e.attr == "pi":
                    return sp.pi
                if e.attr == "e":
                    return sp.E
                return ("<npfunc>", e.attr)
            if e.attr in ("complex_dtype", "dtype"):
                return "<dtype>"
            if e.attr == "hbar" and isinstance(e.value, ast.Name) and e.value.id in ("config", "_config"):
                return HBAR
            if e.attr == "T":
                return to_matrix(self.ev(e.value)).T
            if e.attr in ("params", "_params") and isinstance(e.value, ast.Name) and e.value.id == "self":
                return "<params>"
            raise Untranslatable(f"E6: attribute `{norm(e)}` in {self.fn.qualname}")
        if isinstance(e, ast.Subscript):
            base = self.ev(e.value)
            if base == "<params>":
                k = e.slice.value if isinstance(e.slice, ast.Constant) else None
                if k in self.params:
                    return self.params[k]
                raise Untranslatable(f"E6: parameter `{k}` has no symbol in {self.fn.qualname}")
            idx = self.ev(e.slice) if not isinstance(e.slice, ast.Tuple) else tuple(self.ev(x) for x in e.slice.elts)
            if isinstance(base, sp.MatrixBase):
                return base[idx]
            if isinstance(base, (list, tuple)):
                return base[int(idx)]
            raise Untranslatable(f"E6: subscript `{norm(e)}`")
        if isinstance(e, ast.UnaryOp):
            v = self.ev(e.operand)
            if isinstance(e.op, ast.USub):
                return -v if not isinstance(v, (list, tuple)) else -to_matrix(v)
            if isinstance(e.op, ast.UAdd):
                return v
            raise Untranslatable(f"E6: unary operator in `{norm(e)}`")
        if isinstance(e, ast.BinOp):
            a, b = self.ev(e.left), self.ev(e.right)
            return self.binop(e.op, a, b, e)
        if isinstance(e, (ast.List, ast.Tuple)):
            return [self.ev(x) for x in e.elts]
        if isinstance(e, ast.Call):
            return self.call(e)
        raise Untranslatable(f"E6: expression `{norm(e)[:60]}` in {self.fn.qualname}")

    def binop(self, op: ast.operator, a: Any, b: Any, node: ast.AST) -> Any:
        def lift(x):
            return to_matrix(x) if isinstance(x, (list, tuple)) else x
        a, b = lift(a), lift(b)
        am, bm = isinstance(a, sp.MatrixBase), isinstance(b, sp.MatrixBase)
        if isinstance(op, ast.Add):
            return a + b if am == bm else (a + b * sp.ones(*a.shape) if am else b + a * sp.ones(*b.shape))
        if isinstance(op, ast.Sub):
            return a - b if am == bm else (a - b * sp.ones(*a.shape) if am else a * sp.ones(*b.shape) - b)
        if isinstance(op, ast.Mult):
            if am and bm:
                if a.shape != b.shape:
                    raise Untranslatable(f"E6: elementwise product of different shapes in `{norm(node)[:50]}`")
                return a.multiply_elementwise(b)
            return a * b
        if isinstance(op, ast.Div):
            if bm:
                raise Untranslatable("E6: division by a matrix")
            return a / b
        if isinstance(op, ast.MatMult):
            return to_matrix(a) * to_matrix(b)
        if isinstance(op, ast.Pow):
            if am or bm:
                return a.applyfunc(lambda x: x ** b) if am else b.applyfunc(lambda x: a ** x)
            return a ** b
        raise Untranslatable(f"E6: operator in `{norm(node)[:50]}`")

    def call(self, c: ast.Call) -> Any:
        if self.call_hook is not None:
            r = self.call_hook(self, c)
            if r is not NotImplemented:
                return r
        f = c.func
        # a helper method of the same class (`self._get_shear(config)`) is evaluated in place: its parameters are bound to the values of
        # the arguments, everything else (params, self, config) means what it means in the calling method
        if isinstance(f, ast.Attribute) and isinstance(f.value, ast.Name) and f.value.id in ("self", "cls") and self.fn.cls is not None \
                and getattr(self, "_depth", 0) < 3:
            callee = next((k_.methods[f.attr] for k_ in [self.fn.cls] + list(self.fn.cls.mro()) if f.attr in k_.methods), None)
            if callee is not None and not callee.name.startswith("__"):
                ps_ = [p_ for p_ in callee.params() if p_ not in ("self", "cls")]
                sub = SymEval(callee, self.params, env={k_: v_ for k_, v_ in self.env.items()}, call_hook=self.call_hook)
                sub._depth = getattr(self, "_depth", 0) + 1
                for p_, a_ in zip(ps_, c.args):
                    sub.env[p_] = self.ev(a_) if not (isinstance(a_, ast.Name) and a_.id not in self.env) else sub.env.get(p_, a_.id)
                for k_ in c.keywords:
                    if k_.arg:
                        sub.env[k_.arg] = self.ev(k_.value)
                return sub.run()
        if isinstance(f, ast.Attribute) and self.is_np(f.value):
            name = f.attr
            args = [self.ev(a) for a in c.args]
            if name == "array":
                return to_matrix(args[0]) if isinstance(args[0], (list, tuple)) and args[0] and isinstance(args[0][0], (list, tuple)) \
                    else (sp.Matrix([sp.sympify(x) for x in args[0]]) if isinstance(args[0], (list, tuple)) else args[0])
            if name in ("identity", "eye"):
                return sp.eye(int(args[0]))
            if name == "zeros":
                shp = args[0]
                return sp.zeros(*(int(x) for x in shp)) if isinstance(shp, (list, tuple)) else sp.zeros(int(shp), 1)
            if name == "diag":
                return sp.diag(*list(args[0]))
            if name == "block":
                return sp.BlockMatrix([[to_matrix(x) for x in row] for row in args[0]]).as_explicit()
            if name in ("transpose",):
                return to_matrix(args[0]).T
            if name == "kron":
                return sp.kronecker_product(to_matrix(args[0]), to_matrix(args[1]))
            if name in NP_FUNCS:
                return _map(NP_FUNCS[name], to_matrix(args[0]) if isinstance(args[0], (list, tuple)) else args[0])
            raise Untranslatable(f"E6: np.{name} is not in the translation table ({self.fn.qualname})")
        if isinstance(f, ast.Attribute):
            recv = self.ev(f.value)
            if isinstance(recv, sp.MatrixBase) or isinstance(recv, sp.Basic):
                if f.attr in ("conj", "conjugate"):
                    return _map(sp.conjugate, recv)
                if f.attr == "transpose":
                    return to_matrix(recv).T
                if f.attr == "astype":
                    return recv
        if isinstance(f, ast.Name) and f.id in ("float", "complex", "int"):
            return self.ev(c.args[0])
        if isinstance(f, ast.Name) and f.id == "abs" and len(c.args) == 1:
            return _map(sp.Abs, self.ev(c.args[0]))
        raise Untranslatable(f"E6: call `{norm(c)[:60]}` in {self.fn.qualname} is not in the translation table")


# ---- normaliser ---------------------------------------------------------------------------------------------


def normal_form(x: Any) -> Any:
    if isinstance(x, sp.MatrixBase):
        return x.applyfunc(normal_form)
    x = sp.sympify(x)
    y = sp.expand(x.rewrite(sp.exp))
    y = sp.expand(sp.powsimp(sp.expand(y), force=True))
    y = sp.simplify(y)
    return sp.expand(y)


def is_zero(x: Any) -> bool:
    nf = normal_form(x)
    if isinstance(nf, sp.MatrixBase):
        return all(e == 0 for e in nf)
    return nf == 0


def dagger(m: sp.Matrix) -> sp.Matrix:
    return m.applyfunc(sp.conjugate).T


def residual_text(x: Any) -> str:
    nf = normal_form(x)
    return str(nf)[:160]


def local_param_env(fn_node: ast.AST, symbols: Dict[str, Any]) -> Dict[str, Any]:
    """Environment for a simulation step, independent of what its locals are called: a local bound to
    `<instruction>.params[KEY]` / `._params[KEY]` / `._get_all_params(...)[KEY]` denotes symbols[KEY]; a local bound to a connector's
    (or state's) numpy namespace denotes numpy."""
    env: Dict[str, Any] = {}
    for n in ast.walk(fn_node):
        if not (isinstance(n, ast.Assign) and len(n.targets) == 1 and isinstance(n.targets[0], ast.Name)):
            continue
        v = n.value
        if isinstance(v, ast.Subscript) and isinstance(v.slice, ast.Constant) and isinstance(v.slice.value, str):
            base = norm(v.value)
            if base.endswith(".params") or base.endswith("._params") or "_get_all_params(" in base:
                if v.slice.value in symbols:
                    env[n.targets[0].id] = symbols[v.slice.value]
        elif isinstance(v, ast.Attribute) and v.attr in ("np", "_np", "fallback_np", "forward_pass_np"):
            env[n.targets[0].id] = "<np>"
    return env
