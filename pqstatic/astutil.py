"""Small structural helpers shared by the rules."""

from __future__ import annotations

import ast
from typing import Iterator, List, Optional, Sequence, Tuple

Guard = Tuple[ast.expr, bool]  # (test expression, polarity under which we are)


def flatten_guard(test: ast.expr, pol: bool) -> List[Guard]:
    """Split `a and b` (pol True) / `a or b` (pol False) / `not a` into atomic guards."""
    if isinstance(test, ast.UnaryOp) and isinstance(test.op, ast.Not):
        return flatten_guard(test.operand, not pol)
    if isinstance(test, ast.BoolOp):
        if (isinstance(test.op, ast.And) and pol) or (isinstance(test.op, ast.Or) and not pol):
            out: List[Guard] = []
            for v in test.values:
                out.extend(flatten_guard(v, pol))
            return out
    return [(test, pol)]


def guarded_statements(
    stmts: Sequence[ast.stmt], guards: Optional[List[Guard]] = None, into_loops: bool = True
) -> Iterator[Tuple[ast.stmt, List[Guard]]]:
    """Yield every simple statement with the conjunction of `if` guards it is nested under.

    Sequential early exits (`if c: return` … rest) are *not* turned into guards here; callers that
    need that use the CFG.  Loops contribute no guard (their body may run)."""
    guards = guards or []
    for s in stmts:
        if isinstance(s, ast.If):
            yield s, guards
            yield from guarded_statements(s.body, guards + flatten_guard(s.test, True), into_loops)
            yield from guarded_statements(s.orelse, guards + flatten_guard(s.test, False), into_loops)
        elif isinstance(s, (ast.For, ast.AsyncFor, ast.While)):
            yield s, guards
            if into_loops:
                yield from guarded_statements(s.body, guards, into_loops)
                yield from guarded_statements(s.orelse, guards, into_loops)
        elif isinstance(s, (ast.With, ast.AsyncWith)):
            yield s, guards
            yield from guarded_statements(s.body, guards, into_loops)
        elif isinstance(s, ast.Try):
            yield s, guards
            yield from guarded_statements(s.body, guards, into_loops)
            for h in s.handlers:
                yield from guarded_statements(h.body, guards, into_loops)
            yield from guarded_statements(s.orelse, guards, into_loops)
            yield from guarded_statements(s.finalbody, guards, into_loops)
        else:
            yield s, guards


def is_isinstance(test: ast.expr, var: Optional[str] = None) -> Optional[Tuple[ast.expr, ast.expr]]:
    """isinstance(a, T) → (a, T)."""
    if (
        isinstance(test, ast.Call)
        and isinstance(test.func, ast.Name)
        and test.func.id == "isinstance"
        and len(test.args) == 2
    ):
        if var is None or (isinstance(test.args[0], ast.Name) and test.args[0].id == var):
            return test.args[0], test.args[1]
    return None


def unparse(node: ast.AST) -> str:
    return ast.unparse(node)


def names_in(node: ast.AST) -> set:
    return {n.id for n in ast.walk(node) if isinstance(n, ast.Name)}


def docstring_free_body(fn: ast.AST) -> List[ast.stmt]:
    body = list(getattr(fn, "body", []))
    if body and isinstance(body[0], ast.Expr) and isinstance(body[0].value, ast.Constant) and isinstance(
        body[0].value.value, str
    ):
        body = body[1:]
    return body


def self_attr(node: ast.AST, names=("self",)) -> Optional[str]:
    """self.x → 'x'."""
    if isinstance(node, ast.Attribute) and isinstance(node.value, ast.Name) and node.value.id in names:
        return node.attr
    return None
