"""Ordering tags (xpxp / xxpp) for quadrature vectors and matrices of the Gaussian simulator: a small forward typing.

The library keeps quadrature quantities in two orderings, (x1, p1, ..., xd, pd) = "xpxp" and (x1..xd, p1..pd) = "xxpp",
and converts with the index arrays `xxpp_to_xpxp_indices(d)` / `xpxp_to_xxpp_indices(d)`.  A quantity is tagged where
its ordering is known from the source:

    X.xpxp_mean_vector / X.xpxp_covariance_matrix / X.xpxp_correlation_matrix      -> xpxp      (same for xxpp_*)
    symplectic_form(d) -> xpxp          xp_symplectic_form(d) -> xxpp
    the value parameter of an `xpxp_*` / `xxpp_*` setter                           -> that ordering
    E[I] / E[np.ix_(I, I)] with I = xxpp_to_xpxp_indices(..)                        : E must be xxpp, result xpxp
    E[I] / E[np.ix_(I, I)] with I = xpxp_to_xxpp_indices(..)                        : E must be xpxp, result xxpp
    scalar * E, E / scalar, -E, E.T, E.conj(), E.copy(), inv(E), real/imag(E), diag(E) -> tag of E
    doubling of an (untagged) per-mode vector v:  v.repeat(2) / np.repeat(v, 2)     -> pairwise layout (v1, v1, v2, v2, ..) = xpxp
                                                  np.concatenate([v, v]) / np.tile(v, 2) -> block layout (v1..vd, v1..vd) = xxpp
    X.complex_covariance / X.complex_displacement (xi = a_1..a_d, a_1^dagger..a_d^dagger)   -> block layout = xxpp
    E1 + E2, E1 - E2, E1 @ E2                                                       : both tags, if known, must agree

Everything else is untagged; only *definite* disagreements (two known tags that differ, a conversion applied to a
quantity already in the target ordering, a getter/setter named for one ordering returning/receiving the other) are
reported, so untagged code cannot cause a report.
"""

from __future__ import annotations

import ast
from typing import Dict, List, Optional, Tuple

from .index import FuncInfo, dotted, norm

XPXP, XXPP = "xpxp", "xxpp"
CONV = {"xxpp_to_xpxp_indices": (XXPP, XPXP), "xpxp_to_xxpp_indices": (XPXP, XXPP)}
FORMS = {"symplectic_form": XPXP, "xp_symplectic_form": XXPP}
QUANTITIES = ("mean_vector", "covariance_matrix", "correlation_matrix")
PROPAGATING_CALLS = {"inv", "real", "imag", "conj", "conjugate", "copy", "array", "asarray", "transpose", "pinv", "abs", "diag"}
BLOCK_ATTRS = {"complex_covariance", "complex_displacement"}
PROPAGATING_ATTRS = {"T", "real", "imag"}


class Issue:
    def __init__(self, fn: FuncInfo, node: ast.AST, kind: str, message: str):
        self.fn, self.node, self.kind, self.message = fn, node, kind, message


def _attr_tag(e: ast.Attribute) -> Optional[str]:
    for t in (XPXP, XXPP):
        if e.attr.startswith(t + "_") and e.attr[len(t) + 1:] in QUANTITIES:
            return t
    return None


_SUMMARY_CACHE: Dict[int, Dict[int, List[int]]] = {}


def _index_summary(fn: FuncInfo) -> Dict[int, List[int]]:
    """{position of a parameter whose elements are used as indices: [positions of the parameters they index]} (self/cls not counted)."""
    key = id(fn.node)
    if key in _SUMMARY_CACHE:
        return _SUMMARY_CACHE[key]
    params = [a.arg for a in fn.node.args.args if a.arg not in ("self", "cls")]
    out: Dict[int, List[int]] = {}
    nested = [f for f in ast.walk(fn.node) if isinstance(f, ast.FunctionDef) and f is not fn.node]
    for ip, pname in enumerate(params):
        derived = {pname}
        changed = True
        while changed:
            changed = False
            for a in ast.walk(fn.node):
                if isinstance(a, ast.Assign) and len(a.targets) == 1 and isinstance(a.targets[0], ast.Name) and a.targets[0].id not in derived:
                    names = {x.id for x in ast.walk(a.value) if isinstance(x, ast.Name)}
                    calls = {(dotted(c.func) or "").split(".")[-1] for c in ast.walk(a.value) if isinstance(c, ast.Call)}
                    if names & derived and calls <= {"list", "tuple", "sorted"}:
                        derived.add(a.targets[0].id)
                        changed = True
                if isinstance(a, (ast.For, ast.comprehension)):
                    it = a.iter
                    tg = a.target
                    if isinstance(it, ast.Call) and (dotted(it.func) or "") == "enumerate" and it.args and isinstance(tg, ast.Tuple) and len(tg.elts) == 2:
                        it, tg = it.args[0], tg.elts[1]
                    if isinstance(it, ast.Name) and it.id in derived and isinstance(tg, ast.Name) and tg.id not in derived:
                        derived.add(tg.id)
                        changed = True
                if isinstance(a, ast.Call) and isinstance(a.func, ast.Name):
                    for f in nested:
                        if f.name == a.func.id:
                            for q, arg in zip([x.arg for x in f.args.args], a.args):
                                if q not in derived and {x.id for x in ast.walk(arg) if isinstance(x, ast.Name)} & derived:
                                    derived.add(q)
                                    changed = True
        hit = []
        for sub in ast.walk(fn.node):
            if isinstance(sub, ast.Subscript) and isinstance(sub.value, ast.Name) and sub.value.id in params and sub.value.id != pname \
                    and sub.value.id not in derived:
                if {x.id for x in ast.walk(sub.slice) if isinstance(x, ast.Name)} & derived:
                    tp_ = params.index(sub.value.id)
                    if tp_ not in hit:
                        hit.append(tp_)
        if hit:
            out[ip] = hit
    _SUMMARY_CACHE[key] = out
    return out


class BasisTyping:
    def __init__(self, fn: FuncInfo):
        self.fn = fn
        self.env: Dict[str, object] = {}
        self.issues: List[Issue] = []
        self.n_conversions = 0
        self.n_combinations = 0
        self.n_endpoints = 0
        self._depth = 0
        # setters: the value parameter carries the ordering of the property's name
        is_setter = any(d.endswith(".setter") for d in fn.decorators)
        own = None
        for t in (XPXP, XXPP):
            if fn.name.startswith(t + "_") and fn.name[len(t) + 1:] in QUANTITIES:
                own = t
        self.own = own
        self.is_setter = is_setter
        if own and is_setter:
            ps = [p for p in fn.params() if p != "self"]
            if ps:
                self.env[ps[0]] = own

    # ---- expressions
    def conv_of(self, e: ast.AST) -> Optional[Tuple[str, str]]:
        if isinstance(e, ast.Name):
            v = self.env.get(e.id)
            return v if isinstance(v, tuple) else None
        if isinstance(e, ast.Call):
            nm = (dotted(e.func) or "").split(".")[-1]
            return CONV.get(nm)
        return None

    def tag(self, e: ast.AST) -> Optional[str]:
        if isinstance(e, ast.Name):
            v = self.env.get(e.id)
            return v if isinstance(v, str) else None
        if isinstance(e, ast.Attribute):
            if e.attr in PROPAGATING_ATTRS:
                return self.tag(e.value)
            if e.attr in BLOCK_ATTRS:
                return XXPP
            return _attr_tag(e)
        if isinstance(e, ast.Call):
            nm = (dotted(e.func) or "").split(".")[-1]
            if not nm and isinstance(e.func, ast.Attribute):
                nm = e.func.attr  # method of a computed value: (np.tan(x)).repeat(2)
            if nm in FORMS:
                return FORMS[nm]
            two = lambda x: isinstance(x, ast.Constant) and x.value == 2  # noqa: E731
            # doubling a per-mode vector fixes the layout of the doubled vector
            if nm == "repeat" and not e.keywords:
                if isinstance(e.func, ast.Attribute) and len(e.args) == 1 and two(e.args[0]) and (dotted(e.func.value) or "") not in ("np", "numpy", "fallback_np"):
                    return XPXP if self.tag(e.func.value) is None else self.tag(e.func.value)
                if len(e.args) == 2 and two(e.args[1]):
                    return XPXP if self.tag(e.args[0]) is None else self.tag(e.args[0])
            # kron(M, identity(n)): the single-mode matrix M is spread over blocks (x1..xn, p1..pn) = xxpp;
            # kron(identity(n), M) and block_diag(M, M, ...) / block_diag(*[M] * n) repeat it per mode = xpxp
            if nm == "kron" and len(e.args) == 2:
                a0, a1 = e.args
                is_id = lambda x: isinstance(x, ast.Call) and (dotted(x.func) or "").split(".")[-1] in ("identity", "eye")  # noqa: E731
                if is_id(a1) and not is_id(a0) and self.tag(a0) is None:
                    return XXPP
                if is_id(a0) and not is_id(a1) and self.tag(a1) is None:
                    return XPXP
            if nm == "block_diag" and e.args:
                if len(e.args) == 1 and isinstance(e.args[0], ast.Starred):
                    inner = e.args[0].value
                    if isinstance(inner, ast.BinOp) and isinstance(inner.op, ast.Mult) and isinstance(inner.left, ast.List) and len(inner.left.elts) == 1 \
                            and self.tag(inner.left.elts[0]) is None:
                        return XPXP
                elif len(e.args) >= 2 and len({norm(a) for a in e.args}) == 1 and self.tag(e.args[0]) is None:
                    return XPXP
            # a callee (method of the same class / function of the same module) that uses the elements of one parameter as indices into
            # other parameters: positions and indexed quantities must be of one ordering
            callee_idx = None
            if isinstance(e.func, ast.Attribute) and isinstance(e.func.value, ast.Name) and e.func.value.id in ("self", "cls") and self.fn.cls is not None:
                callee_idx = next((c_.methods[e.func.attr] for c_ in [self.fn.cls] + list(self.fn.cls.mro()) if e.func.attr in c_.methods), None)
            elif isinstance(e.func, ast.Name) and e.func.id in self.fn.module.functions:
                callee_idx = self.fn.module.functions[e.func.id]
            if callee_idx is not None:
                for ip, targets in _index_summary(callee_idx).items():
                    if ip < len(e.args):
                        pt = self.tag(e.args[ip])
                        if isinstance(pt, str) and pt.startswith("pos:"):
                            for tp_ in targets:
                                if tp_ < len(e.args):
                                    at = self.tag(e.args[tp_])
                                    if isinstance(at, str) and not at.startswith("pos:") and at != pt[4:]:
                                        self.issues.append(Issue(self.fn, e, "positions-of-other-ordering",
                                                                 f"`{norm(e.args[ip])[:40]}` holds positions in the {pt[4:]} ordering (elements of the "
                                                                 f"{pt[4:]}->... index map) and {callee_idx.name} uses them to index `{norm(e.args[tp_])[:40]}`, "
                                                                 f"which is {at}-ordered"))
            # a helper of the same module: the ordering of what it returns
            if isinstance(e.func, ast.Name) and e.func.id in self.fn.module.functions and self._depth < 2:
                callee = self.fn.module.functions[e.func.id]
                sub = BasisTyping(callee)
                sub._depth = self._depth + 1
                sub.run()
                rt = {sub.tag(r.value) for r in ast.walk(callee.node) if isinstance(r, ast.Return) and r.value is not None}
                for a in list(e.args) + [k.value for k in e.keywords]:
                    self.tag(a)
                if len(rt) == 1 and None not in rt:
                    return next(iter(rt))
                return None
            if nm == "tile" and len(e.args) == 2 and two(e.args[1]) and not e.keywords:
                return XXPP if self.tag(e.args[0]) is None else self.tag(e.args[0])
            if nm == "concatenate" and len(e.args) == 1 and isinstance(e.args[0], (ast.List, ast.Tuple)) and len(e.args[0].elts) == 2 \
                    and norm(e.args[0].elts[0]) == norm(e.args[0].elts[1]) and not e.keywords:
                inner = self.tag(e.args[0].elts[0])
                return XXPP if inner is None else inner
            if nm in PROPAGATING_CALLS:
                if isinstance(e.func, ast.Attribute) and not e.args:
                    return self.tag(e.func.value)
                if e.args:
                    return self.tag(e.args[0])
            # unknown function: untagged result, but conversions inside its arguments are still checked
            for a in list(e.args) + [k.value for k in e.keywords]:
                self.tag(a)
            return None
        if isinstance(e, ast.UnaryOp):
            return self.tag(e.operand)
        if isinstance(e, (ast.ListComp, ast.GeneratorExp)):
            # [P[i] for i in S]: a list of elements of the index map P - positions in P's source ordering
            t = self.tag(e.elt)
            return t if isinstance(t, str) and t.startswith("pos:") else None
        if isinstance(e, ast.Subscript) and self.conv_of(e.value) is not None and self.conv_of(e.slice) is None \
                and not (isinstance(e.slice, ast.Call) and (dotted(e.slice.func) or "").split(".")[-1] == "ix_"):
            # P[i] with P = xxpp_to_xpxp_indices(d): v_xpxp = v_xxpp[P], so the *values* of P are positions in the xxpp ordering
            return "pos:" + self.conv_of(e.value)[0]
        if isinstance(e, ast.Subscript):
            sl = e.slice
            conv = None
            full = False
            if isinstance(sl, ast.Call) and (dotted(sl.func) or "").split(".")[-1] == "ix_" and len(sl.args) == 2:
                c1, c2 = self.conv_of(sl.args[0]), self.conv_of(sl.args[1])
                if c1 is not None and c1 == c2:
                    conv, full = c1, True
            else:
                c = self.conv_of(sl)
                if c is not None:
                    conv, full = c, True
            if conv is None:
                # a selection of rows / columns (E[I], E[np.ix_(I, I)] with I not one of the two index maps) keeps the layout of E
                return self.tag(e.value)
            self.n_conversions += 1
            src = self.tag(e.value)
            if src is not None and src != conv[0]:
                self.issues.append(Issue(self.fn, e, "conversion-from-wrong-ordering",
                                         f"`{norm(e)[:70]}` applies the {conv[0]}->{conv[1]} index map to `{norm(e.value)[:40]}`, which is already "
                                         f"{src}-ordered: the result is a scrambled matrix, neither xpxp nor xxpp"))
                return None
            return conv[1] if full else None
        if isinstance(e, ast.BinOp):
            l, r = self.tag(e.left), self.tag(e.right)
            if isinstance(e.op, (ast.Add, ast.Sub, ast.MatMult)):
                if l is not None and r is not None:
                    self.n_combinations += 1
                    if l != r:
                        self.issues.append(Issue(self.fn, e, "mixed-orderings",
                                                 f"`{norm(e)[:80]}` combines a {l}-ordered with a {r}-ordered quantity"))
                        return None
                return l or r if isinstance(e.op, (ast.Add, ast.Sub)) else (l if l == r else None)
            if isinstance(e.op, (ast.Mult, ast.Div)):
                if l is not None and r is not None:
                    return l if l == r else None
                return l or r
            return None
        for c in ast.iter_child_nodes(e):
            if isinstance(c, ast.expr):
                self.tag(c)
        return None

    # ---- statements
    def run(self) -> None:
        self.block(self.fn.node.body)

    def block(self, stmts) -> None:
        for s in stmts:
            if isinstance(s, (ast.FunctionDef, ast.AsyncFunctionDef, ast.ClassDef)):
                continue
            if isinstance(s, ast.Assign) and len(s.targets) == 1:
                t = s.targets[0]
                if isinstance(t, ast.Name):
                    c = self.conv_of(s.value) if isinstance(s.value, ast.Call) else None
                    if c is not None:
                        self.env[t.id] = c
                    else:
                        tg = self.tag(s.value)
                        if tg is not None:
                            self.env[t.id] = tg
                        else:
                            self.env.pop(t.id, None)
                elif isinstance(t, ast.Attribute):
                    want = _attr_tag(t)
                    got = self.tag(s.value)
                    if want is not None:
                        self.n_endpoints += 1
                        if got is not None and got != want:
                            self.issues.append(Issue(self.fn, s, "setter-receives-other-ordering",
                                                     f"`{norm(s)[:80]}` hands a {got}-ordered quantity to the {want} setter"))
                else:
                    self.tag(s.value)
                continue
            if isinstance(s, ast.Return) and s.value is not None:
                got = self.tag(s.value)
                if self.own and not self.is_setter:
                    self.n_endpoints += 1
                    if got is not None and got != self.own:
                        self.issues.append(Issue(self.fn, s, "getter-returns-other-ordering",
                                                 f"{self.fn.name} returns `{norm(s.value)[:60]}`, which is {got}-ordered"))
                continue
            for field in ("body", "orelse", "finalbody"):
                sub = getattr(s, field, None)
                if isinstance(sub, list) and sub and isinstance(sub[0], ast.stmt):
                    self.block(sub)
            if isinstance(s, (ast.Expr, ast.AugAssign, ast.AnnAssign)):
                v = getattr(s, "value", None)
                if v is not None:
                    self.tag(v)
                if isinstance(s, ast.AugAssign) and isinstance(s.target, ast.Name):
                    l, r = self.env.get(s.target.id), self.tag(s.value)
                    if isinstance(l, str) and r is not None and isinstance(s.op, (ast.Add, ast.Sub)):
                        self.n_combinations += 1
                        if l != r:
                            self.issues.append(Issue(self.fn, s, "mixed-orderings", f"`{norm(s)[:80]}` combines a {l}-ordered with a {r}-ordered quantity"))
            if isinstance(s, ast.If):
                self.tag(s.test)
