"""Call resolution over the module index: module functions, methods by receiver class, connector
methods (polymorphic over the connector classes), wrappers (partial, lru_cache, instancemethod,
dask.delayed, connector.decorator)."""

from __future__ import annotations

import ast
from typing import Dict, Iterable, List, Optional, Set, Tuple

from .index import ClassInfo, FuncInfo, Index, ModuleInfo, dotted, norm

CONNECTOR_NAMES = {"connector", "_connector"}
WRAPPERS_RETURNING_ARG0 = {
    "partial", "functools.partial", "dask.delayed", "delayed", "instancemethod", "staticmethod", "classmethod",
}


# id() of the Name nodes that refer to a *local alias* of a connector (`c = state._connector` ... `c.np`): filled once per index by
# register_connector_aliases, so that the recognition of connector expressions does not depend on what a local is called
_ALIAS_NAME_NODES: Set[int] = set()


def register_connector_aliases(idx: Index) -> None:
    for fn in idx.all_functions(include_nested=True):
        aliases: Set[str] = set()
        changed = True
        while changed:
            changed = False
            for n in ast.walk(fn.node):
                if isinstance(n, ast.Assign) and len(n.targets) == 1 and isinstance(n.targets[0], ast.Name) and n.targets[0].id not in aliases:
                    v = n.value
                    if (isinstance(v, ast.Attribute) and v.attr in CONNECTOR_NAMES) or (isinstance(v, ast.Name) and (v.id in CONNECTOR_NAMES or v.id in aliases)):
                        aliases.add(n.targets[0].id)
                        changed = True
        if aliases:
            for n in ast.walk(fn.node):
                if isinstance(n, ast.Name) and n.id in aliases:
                    _ALIAS_NAME_NODES.add(id(n))


def is_connector_expr(node: ast.AST) -> bool:
    """`connector`, `self._connector`, `state._connector`, `self.connector`, `x._connector`, or a local bound to one of these"""
    if isinstance(node, ast.Name):
        return node.id in CONNECTOR_NAMES or id(node) in _ALIAS_NAME_NODES
    if isinstance(node, ast.Attribute):
        return node.attr in CONNECTOR_NAMES
    return False


def is_njit(fn: FuncInfo) -> bool:
    for d in fn.node.decorator_list:
        name = dotted(d.func if isinstance(d, ast.Call) else d) or ""
        if name.split(".")[-1] in ("njit", "jit", "vectorize", "guvectorize"):
            return True
    return False


class Resolver:
    def __init__(self, idx: Index):
        self.idx = idx
        register_connector_aliases(idx)
        self.connector_base = idx.find_class("piquasso.api.connector", "BaseConnector")
        self.connector_classes = [c for c in idx.subclasses(self.connector_base, strict=False)]
        self._local_defs: Dict[int, Dict[str, FuncInfo]] = {}

    # ---- wrappers ----------------------------------------------------------------------------
    def unwrap_callable(self, m: ModuleInfo, node: ast.AST, fn: Optional[FuncInfo] = None, depth: int = 0):
        """Resolve an expression that denotes a callable to FuncInfo, looking through wrappers."""
        if depth > 8:
            return None
        if isinstance(node, ast.Call):
            name = dotted(node.func) or ""
            # lru_cache(maxsize=None)(f)
            if isinstance(node.func, ast.Call):
                inner = dotted(node.func.func) or ""
                if inner.split(".")[-1] in ("lru_cache", "cache") and node.args:
                    return self.unwrap_callable(m, node.args[0], fn, depth + 1)
            if name in WRAPPERS_RETURNING_ARG0 or name.split(".")[-1] in ("partial", "delayed", "instancemethod", "decorator", "custom_gradient"):
                if node.args:
                    return self.unwrap_callable(m, node.args[0], fn, depth + 1)
            return None
        if isinstance(node, ast.Name) and fn is not None:
            loc = self.local_defs(fn).get(node.id)
            if loc is not None:
                return loc
            # local alias: x = partial(f, ...) / x = connector.decorator(f)
            for v_ in self._call_assigns(fn).get(node.id, ()):
                r = self.unwrap_callable(m, v_, fn, depth + 1)
                if r is not None:
                    return r
        r = self.idx.resolve_expr(m, node) if isinstance(node, (ast.Name, ast.Attribute)) else None
        if isinstance(r, FuncInfo):
            return r
        if isinstance(r, tuple) and r[0] == "expr":
            return self.unwrap_callable(r[1], r[2], None, depth + 1)
        return None

    def _call_assigns(self, fn: FuncInfo) -> Dict[str, List[ast.Call]]:
        """name -> the call expressions it is bound to in the function (computed once per function)."""
        key = id(fn.node)
        cache = self.__dict__.setdefault("_call_assign_cache", {})
        if key not in cache:
            d: Dict[str, List[ast.Call]] = {}
            for a in ast.walk(fn.node):
                if isinstance(a, ast.Assign) and len(a.targets) == 1 and isinstance(a.targets[0], ast.Name) and isinstance(a.value, ast.Call):
                    d.setdefault(a.targets[0].id, []).append(a.value)
            cache[key] = d
        return cache[key]

    def local_defs(self, fn: FuncInfo) -> Dict[str, FuncInfo]:
        key = id(fn.node)
        if key not in self._local_defs:
            d = {}
            for n in ast.walk(fn.node):
                if n is not fn.node and isinstance(n, (ast.FunctionDef, ast.AsyncFunctionDef)):
                    d[n.name] = FuncInfo(n.name, f"{fn.qualname}.<locals>.{n.name}", fn.module, n, fn.cls)
            self._local_defs[key] = d
        return self._local_defs[key]

    # ---- connector methods ---------------------------------------------------------------------
    def connector_method(self, cls: ClassInfo, name: str):
        """→ ('func', FuncInfo) | ('wrapped', FuncInfo|None, expr) | ('attr', expr) | None"""
        m = cls.find_method(name)
        a = cls.find_attr(name)
        # the most derived definition wins
        for c in cls.mro():
            if name in c.methods:
                return ("func", c.methods[name])
            if name in c.attrs:
                expr = c.attrs[name]
                target = self.unwrap_callable(c.module, expr)
                if isinstance(expr, ast.Call) and (dotted(expr.func) or "").split(".")[-1] == "instancemethod":
                    return ("wrapped", target, expr.args[0] if expr.args else expr, c)
                if target is not None:
                    return ("plainfunc", target, expr, c)
                return ("attr", expr, c)
        return None

    # ---- calls -----------------------------------------------------------------------------------
    def resolve_call(self, fn: FuncInfo, call: ast.Call, param_classes: Optional[Dict[str, List[ClassInfo]]] = None) -> List[FuncInfo]:
        m = fn.module
        f = call.func
        out: List[FuncInfo] = []
        if isinstance(f, ast.Name):
            r = self.unwrap_callable(m, f, fn)
            if r is not None:
                out.append(r)
            else:
                rr = self.idx.resolve_name(m, f.id)
                if isinstance(rr, ClassInfo):
                    init = rr.find_method("__init__")
                    if init is not None:
                        out.append(init)
            return out
        if isinstance(f, ast.Attribute):
            recv = f.value
            # self.method
            if isinstance(recv, ast.Name) and recv.id in ("self", "cls") and fn.cls is not None:
                meth = fn.cls.find_method(f.attr)
                if meth is not None:
                    out.append(meth)
                # overrides in subclasses
                for sub in self.idx.subclasses(fn.cls):
                    if f.attr in sub.methods and sub.methods[f.attr] not in out:
                        out.append(sub.methods[f.attr])
                return out
            # super().method
            if isinstance(recv, ast.Call) and dotted(recv.func) == "super" and fn.cls is not None:
                for c in fn.cls.mro()[1:]:
                    if f.attr in c.methods:
                        return [c.methods[f.attr]]
                return []
            if is_connector_expr(recv):
                for c in self.connector_classes:
                    cm = self.connector_method(c, f.attr)
                    if cm and cm[0] in ("func", "wrapped", "plainfunc") and isinstance(cm[1], FuncInfo) and cm[1] not in out:
                        out.append(cm[1])
                return out
            # annotated / known parameter classes
            if isinstance(recv, ast.Name) and param_classes and recv.id in param_classes:
                for c in param_classes[recv.id]:
                    meth = c.find_method(f.attr)
                    if meth is not None and meth not in out:
                        out.append(meth)
                    for sub in self.idx.subclasses(c):
                        if f.attr in sub.methods and sub.methods[f.attr] not in out:
                            out.append(sub.methods[f.attr])
                return out
            if isinstance(recv, ast.Name):
                ann = self.param_annotation_class(fn, recv.id)
                if ann is not None:
                    meth = ann.find_method(f.attr)
                    if meth is not None:
                        out.append(meth)
                    for sub in self.idx.subclasses(ann):
                        if f.attr in sub.methods and sub.methods[f.attr] not in out:
                            out.append(sub.methods[f.attr])
                    return out
            r = self.idx.resolve_expr(m, f)
            if isinstance(r, FuncInfo):
                return [r]
            if isinstance(r, ClassInfo):
                init = r.find_method("__init__")
                return [init] if init else []
            if isinstance(r, tuple) and r[0] == "expr":
                t = self.unwrap_callable(r[1], r[2])
                if t is not None:
                    return [t]
        return out

    def param_annotation_class(self, fn: FuncInfo, name: str) -> Optional[ClassInfo]:
        a = fn.node.args
        for p in a.posonlyargs + a.args + a.kwonlyargs:
            if p.arg == name and p.annotation is not None:
                ann = p.annotation
                if isinstance(ann, ast.Constant) and isinstance(ann.value, str):
                    try:
                        ann = ast.parse(ann.value, mode="eval").body
                    except SyntaxError:
                        return None
                if isinstance(ann, ast.Subscript):  # Optional[X]
                    ann = ann.slice
                r = self.idx.resolve_expr(fn.module, ann)
                if isinstance(r, ClassInfo):
                    return r
        return None

    # ---- reachability --------------------------------------------------------------------------------
    def reachable(self, roots: Iterable[FuncInfo], param_classes=None, limit: int = 5000, stop=None) -> List[FuncInfo]:
        seen: Dict[int, FuncInfo] = {}
        stack = list(roots)
        while stack and len(seen) < limit:
            fn = stack.pop()
            if id(fn.node) in seen:
                continue
            if stop is not None and stop(fn):
                continue
            seen[id(fn.node)] = fn
            for loc in self.local_defs(fn).values():
                stack.append(loc)
            for n in ast.walk(fn.node):
                if isinstance(n, ast.Call):
                    for t in self.resolve_call(fn, n, param_classes):
                        if id(t.node) not in seen:
                            stack.append(t)
                    # callables passed as values
                    for a in list(n.args) + [k.value for k in n.keywords]:
                        if isinstance(a, (ast.Name, ast.Attribute)):
                            t = self.unwrap_callable(fn.module, a, fn)
                            if t is not None and id(t.node) not in seen:
                                stack.append(t)
                elif isinstance(n, ast.Attribute) and isinstance(n.ctx, ast.Load) and isinstance(n.value, ast.Name) \
                        and n.value.id == "self" and fn.cls is not None:
                    # property access on self
                    meth = fn.cls.find_method(n.attr)
                    if meth is not None and any(d in ("property", "functools.cached_property", "cached_property") for d in meth.decorators):
                        if id(meth.node) not in seen:
                            stack.append(meth)
        return list(seen.values())


_CACHE: Dict[int, Resolver] = {}


def get_resolver(idx: Index) -> Resolver:
    if id(idx) not in _CACHE:
        _CACHE[id(idx)] = Resolver(idx)
    return _CACHE[id(idx)]
