"""Statement-level control-flow graph with exception edges, for path rules.

Nodes are statements (or the headers of compound statements).  Every node for which the
`may_raise` predicate holds gets an `exc` edge to the innermost handler dispatch, the
exceptional copy of the enclosing `finally`, or the RAISE exit.  `finally` bodies are
duplicated per way of leaving the `try` (normal, exception, return, break, continue) so that
path queries are exact about what runs on which exit.

Queries are reachability questions, optionally with *same-guard correlation*: a test that is
a plain name (or `not name`) whose name is bound exactly once in the function keeps its truth
value along the path, which removes the infeasible paths of the repository's
`if flag: acquire ... if flag: release` idiom.
"""

from __future__ import annotations

import ast
from dataclasses import dataclass, field
from typing import Callable, Dict, FrozenSet, Iterable, List, Optional, Set, Tuple

ENTRY, EXIT, RAISE = 0, 1, 2


@dataclass
class Node:
    id: int
    kind: str  # entry|exit|raise|stmt|test|loop|with|with_exit|dispatch|handler|return|raise_stmt
    stmt: Optional[ast.AST] = None
    in_finally: bool = False
    via: str = ""  # for finally copies: normal|exc|return|break|continue

    @property
    def line(self) -> int:
        return getattr(self.stmt, "lineno", 0)

    def label(self) -> str:
        if self.stmt is None:
            return self.kind
        try:
            txt = ast.unparse(self.stmt).split("\n")[0]
        except Exception:
            txt = type(self.stmt).__name__
        if self.kind in ("test", "loop", "with"):
            txt = txt.rstrip(":")
        return f"L{self.line}:{txt[:70]}"


@dataclass
class Ctx:
    exc: int
    ret: int
    brk: Optional[int] = None
    cnt: Optional[int] = None


def default_may_raise(node: ast.AST) -> bool:
    """A statement (header) may raise if it contains a call, a subscript load, an attribute store
    (setters), an `assert`, an arithmetic operator or is a `raise`.  Plain name/constant moves do not."""
    if isinstance(node, (ast.Raise, ast.Assert)):
        return True
    for n in _walk_own(node):
        if isinstance(n, (ast.Call, ast.Subscript, ast.BinOp, ast.Await, ast.Yield, ast.YieldFrom)):
            return True
        if isinstance(n, ast.Attribute) and isinstance(n.ctx, (ast.Store, ast.Del)):
            return True
    return False


def calls_only_may_raise(node: ast.AST) -> bool:
    if isinstance(node, (ast.Raise, ast.Assert)):
        return True
    for n in _walk_own(node):
        if isinstance(n, (ast.Call, ast.Await)):
            return True
        if isinstance(n, ast.Attribute) and isinstance(n.ctx, ast.Store):
            return True
    return False


def _walk_own(node: ast.AST) -> Iterable[ast.AST]:
    """Walk the expression parts of a statement header, not nested statement bodies or nested defs."""
    if isinstance(node, (ast.If, ast.While)):
        roots: List[ast.AST] = [node.test]
    elif isinstance(node, (ast.For, ast.AsyncFor)):
        roots = [node.target, node.iter]
    elif isinstance(node, (ast.With, ast.AsyncWith)):
        roots = [i for it in node.items for i in ([it.context_expr] + ([it.optional_vars] if it.optional_vars else []))]
    elif isinstance(node, ast.Try):
        roots = []
    elif isinstance(node, (ast.FunctionDef, ast.AsyncFunctionDef, ast.ClassDef)):
        roots = list(node.decorator_list)
    elif isinstance(node, ast.ExceptHandler):
        roots = [node.type] if node.type else []
    else:
        roots = [node]
    stack = list(roots)
    while stack:
        n = stack.pop()
        yield n
        if isinstance(n, (ast.Lambda, ast.FunctionDef, ast.AsyncFunctionDef, ast.ClassDef)) and n not in roots:
            continue
        stack.extend(ast.iter_child_nodes(n))


def own_nodes(node: Node) -> Iterable[ast.AST]:
    if node.stmt is None:
        return []
    return _walk_own(node.stmt)


class CFG:
    def __init__(self, func: ast.AST, may_raise: Callable[[ast.AST], bool] = default_may_raise):
        self.func = func
        self.may_raise = may_raise
        self.nodes: List[Node] = [Node(ENTRY, "entry"), Node(EXIT, "exit"), Node(RAISE, "raise")]
        self.succ: Dict[int, List[Tuple[int, str]]] = {ENTRY: [], EXIT: [], RAISE: []}
        self._stable_cache: Optional[Set[str]] = None
        body = func.body if hasattr(func, "body") else []
        first = self._seq(body, EXIT, Ctx(exc=RAISE, ret=EXIT))
        self._edge(ENTRY, first, "normal")

    # ---- construction ----------------------------------------------------------------------
    def _new(self, kind: str, stmt: Optional[ast.AST], in_finally: bool = False, via: str = "") -> int:
        n = Node(len(self.nodes), kind, stmt, in_finally, via)
        self.nodes.append(n)
        self.succ[n.id] = []
        return n.id

    def _edge(self, a: int, b: int, label: str) -> None:
        if (b, label) not in self.succ[a]:
            self.succ[a].append((b, label))

    def _seq(self, stmts: List[ast.stmt], cont: int, ctx: Ctx, fin: bool = False, via: str = "") -> int:
        nxt = cont
        for s in reversed(stmts):
            nxt = self._stmt(s, nxt, ctx, fin, via)
        return nxt

    def _stmt(self, s: ast.stmt, cont: int, ctx: Ctx, fin: bool, via: str) -> int:
        if isinstance(s, ast.If):
            n = self._new("test", s, fin, via)
            self._edge(n, self._seq(s.body, cont, ctx, fin, via), "true")
            self._edge(n, self._seq(s.orelse, cont, ctx, fin, via), "false")
            if self.may_raise(s):
                self._edge(n, ctx.exc, "exc")
            return n
        if isinstance(s, (ast.For, ast.AsyncFor, ast.While)):
            n = self._new("loop", s, fin, via)
            inner = Ctx(exc=ctx.exc, ret=ctx.ret, brk=cont, cnt=n)
            after = self._seq(s.orelse, cont, ctx, fin, via)
            self._edge(n, self._seq(s.body, n, inner, fin, via), "true")
            self._edge(n, after, "false")
            if self.may_raise(s):
                self._edge(n, ctx.exc, "exc")
            return n
        if isinstance(s, (ast.With, ast.AsyncWith)):
            n = self._new("with", s, fin, via)
            x_norm = self._new("with_exit", s, fin, via)
            self._edge(x_norm, cont, "normal")
            x_exc = self._new("with_exit", s, fin, "exc")
            self._edge(x_exc, ctx.exc, "exc")
            x_ret = self._new("with_exit", s, fin, "return")
            self._edge(x_ret, ctx.ret, "normal")
            inner = Ctx(exc=x_exc, ret=x_ret, brk=ctx.brk, cnt=ctx.cnt)
            if ctx.brk is not None:
                xb = self._new("with_exit", s, fin, "break")
                self._edge(xb, ctx.brk, "normal")
                inner.brk = xb
            if ctx.cnt is not None:
                xc = self._new("with_exit", s, fin, "continue")
                self._edge(xc, ctx.cnt, "normal")
                inner.cnt = xc
            self._edge(n, self._seq(s.body, x_norm, inner, fin, via), "normal")
            if self.may_raise(s):
                self._edge(n, ctx.exc, "exc")
            return n
        if isinstance(s, ast.Try) or type(s).__name__ == "TryStar":
            return self._try(s, cont, ctx, fin, via)
        if isinstance(s, ast.Return):
            n = self._new("return", s, fin, via)
            self._edge(n, ctx.ret, "normal")
            if s.value is not None and self.may_raise(s):
                self._edge(n, ctx.exc, "exc")
            return n
        if isinstance(s, ast.Raise):
            n = self._new("raise_stmt", s, fin, via)
            self._edge(n, ctx.exc, "exc")
            return n
        if isinstance(s, ast.Break):
            n = self._new("stmt", s, fin, via)
            self._edge(n, ctx.brk if ctx.brk is not None else cont, "normal")
            return n
        if isinstance(s, ast.Continue):
            n = self._new("stmt", s, fin, via)
            self._edge(n, ctx.cnt if ctx.cnt is not None else cont, "normal")
            return n
        if hasattr(ast, "Match") and isinstance(s, ast.Match):
            n = self._new("test", s, fin, via)
            for case in s.cases:
                self._edge(n, self._seq(case.body, cont, ctx, fin, via), "case")
            self._edge(n, cont, "nomatch")
            self._edge(n, ctx.exc, "exc")
            return n
        # simple statement (incl. nested def/class: binding only)
        n = self._new("stmt", s, fin, via)
        self._edge(n, cont, "normal")
        if self.may_raise(s):
            self._edge(n, ctx.exc, "exc")
        return n

    def _try(self, s: ast.Try, cont: int, ctx: Ctx, fin: bool, via: str) -> int:
        if s.finalbody:
            f_norm = self._seq(s.finalbody, cont, ctx, True, "normal")
            f_exc = self._seq(s.finalbody, ctx.exc, ctx, True, "exc")
            f_ret = self._seq(s.finalbody, ctx.ret, ctx, True, "return")
            outer = Ctx(exc=f_exc, ret=f_ret, brk=ctx.brk, cnt=ctx.cnt)
            if ctx.brk is not None:
                outer.brk = self._seq(s.finalbody, ctx.brk, ctx, True, "break")
            if ctx.cnt is not None:
                outer.cnt = self._seq(s.finalbody, ctx.cnt, ctx, True, "continue")
            after = f_norm
        else:
            outer = ctx
            after = cont
        if s.handlers:
            disp = self._new("dispatch", s, fin, via)
            catches_all = False
            for h in s.handlers:
                hn = self._new("handler", h, fin, via)
                self._edge(disp, hn, "caught")
                self._edge(hn, self._seq(h.body, after, outer, fin, via), "normal")
                if h.type is None:
                    catches_all = True
                else:
                    names = [h.type] if not isinstance(h.type, ast.Tuple) else list(h.type.elts)
                    for t in names:
                        if isinstance(t, ast.Name) and t.id == "BaseException":
                            catches_all = True
            if not catches_all:
                self._edge(disp, outer.exc, "exc")
            body_ctx = Ctx(exc=disp, ret=outer.ret, brk=outer.brk, cnt=outer.cnt)
        else:
            body_ctx = outer
        else_entry = self._seq(s.orelse, after, outer, fin, via)
        return self._seq(s.body, else_entry, body_ctx, fin, via)

    # ---- queries -----------------------------------------------------------------------------
    def stmt_nodes(self, pred: Callable[[Node], bool]) -> List[Node]:
        return [n for n in self.nodes if pred(n)]

    def stable_names(self) -> Set[str]:
        """Names bound exactly once in the function (parameters count as one binding)."""
        if self._stable_cache is None:
            counts: Dict[str, int] = {}
            f = self.func
            if isinstance(f, (ast.FunctionDef, ast.AsyncFunctionDef)):
                a = f.args
                for p in a.posonlyargs + a.args + a.kwonlyargs + ([a.vararg] if a.vararg else []) + (
                    [a.kwarg] if a.kwarg else []
                ):
                    counts[p.arg] = counts.get(p.arg, 0) + 1
            for n in ast.walk(f):
                if isinstance(n, ast.Name) and isinstance(n.ctx, (ast.Store, ast.Del)):
                    counts[n.id] = counts.get(n.id, 0) + 1
            # a name bound inside a loop body is rebound per iteration but its value within one
            # iteration is what the idiom relies on; we only accept names bound outside loops
            in_loop: Set[str] = set()
            for n in ast.walk(f):
                if isinstance(n, (ast.For, ast.AsyncFor, ast.While)):
                    for b in n.body + n.orelse:
                        for m in ast.walk(b):
                            if isinstance(m, ast.Name) and isinstance(m.ctx, ast.Store):
                                in_loop.add(m.id)
                    if isinstance(n, (ast.For, ast.AsyncFor)):
                        for m in ast.walk(n.target):
                            if isinstance(m, ast.Name):
                                in_loop.add(m.id)
            self._stable_cache = {k for k, v in counts.items() if v == 1 and k not in in_loop}
        return self._stable_cache

    def _guard_of(self, node: Node) -> Optional[Tuple[str, bool]]:
        """(name, polarity) when the node is an `if name:` / `if not name:` on a stable name."""
        if node.kind != "test" or not isinstance(node.stmt, ast.If):
            return None
        t = node.stmt.test
        pol = True
        while isinstance(t, ast.UnaryOp) and isinstance(t.op, ast.Not):
            pol = not pol
            t = t.operand
        if isinstance(t, ast.Name) and t.id in self.stable_names():
            return t.id, pol
        return None

    def reach(
        self,
        starts: Iterable[int],
        blocked: Callable[[Node], bool] = lambda n: False,
        correlate: bool = True,
        follow: Callable[[str], bool] = lambda label: True,
        initial_facts: Iterable[Tuple[str, bool]] = (),
    ) -> Dict[int, Tuple]:
        """Nodes reachable from `starts` without passing through a blocked node (starts themselves are
        never blocked).  Returns {node id: predecessor state} for path reconstruction."""
        State = Tuple[int, FrozenSet[Tuple[str, bool]]]
        seen: Dict[State, Optional[State]] = {}
        stack: List[State] = []
        for s in starts:
            st: State = (s, frozenset(initial_facts))
            seen[st] = None
            stack.append(st)
        while stack:
            cur = stack.pop()
            nid, facts = cur
            node = self.nodes[nid]
            guard = self._guard_of(node) if correlate else None
            for (m, label) in self.succ[nid]:
                if not follow(label):
                    continue
                nf = facts
                if guard and label in ("true", "false"):
                    name, pol = guard
                    val = pol if label == "true" else not pol
                    known = dict(facts)
                    if name in known and known[name] != val:
                        continue
                    if name not in known:
                        nf = frozenset(facts | {(name, val)})
                if m not in (EXIT, RAISE) and blocked(self.nodes[m]):
                    continue
                nst: State = (m, nf)
                if nst not in seen:
                    seen[nst] = cur
                    stack.append(nst)
        self._last_seen = seen
        out: Dict[int, Tuple] = {}
        for (nid, facts), pred in seen.items():
            out.setdefault(nid, ((nid, facts), pred))
        return out

    def path_to(self, target: int) -> List[str]:
        """Reconstruct one path (labels) to `target` from the last reach() call."""
        seen = self._last_seen
        cur = None
        for st in seen:
            if st[0] == target:
                cur = st
                break
        path: List[str] = []
        while cur is not None:
            path.append(self.nodes[cur[0]].label())
            cur = seen[cur]
        return list(reversed(path))

    def dominates(self, pred: Callable[[Node], bool], target: int, correlate: bool = True) -> bool:
        """Every path ENTRY → target passes through a node satisfying pred."""
        r = self.reach([ENTRY], blocked=pred, correlate=correlate)
        return target not in r

    def must_pass_before_exit(self, start: int, pred: Callable[[Node], bool], exits=(EXIT, RAISE)):
        """Exits reachable from `start` without passing a `pred` node → list of (exit id, path)."""
        r = self.reach([start], blocked=pred)
        out = []
        for e in exits:
            if e in r:
                out.append((e, self.path_to(e)))
        return out


def enclosing_guard_facts(g: "CFG", stmt: ast.AST) -> List[Tuple[str, bool]]:
    """Truth values of stable-name guards under which `stmt` is nested (for seeding reach())."""
    facts: List[Tuple[str, bool]] = []
    for n in ast.walk(g.func):
        if isinstance(n, ast.If):
            for branch, val in ((n.body, True), (n.orelse, False)):
                if any(x is stmt for b in branch for x in ast.walk(b)):
                    t = n.test
                    pol = True
                    while isinstance(t, ast.UnaryOp) and isinstance(t.op, ast.Not):
                        pol = not pol
                        t = t.operand
                    if isinstance(t, ast.Name) and t.id in g.stable_names():
                        facts.append((t.id, pol if val else not pol))
    return facts


def build(func: ast.AST, may_raise: Callable[[ast.AST], bool] = default_may_raise) -> CFG:
    return CFG(func, may_raise)
