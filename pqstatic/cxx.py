"""E8 — analyses of the C++ kernels on clang's JSON AST (no compilation products, no execution).

  (a) buffer write-through: which kernel parameters (Matrix<T>/Vector<T>) may be written through; combined
      with the pybind/FFI bindings (token-level parse) that wrap numpy buffers without copying
  (b) integer width of the variables that carry binomial weights
  (c) discipline of `#pragma omp parallel for` bodies and the remainder branch of the job partition
"""

from __future__ import annotations

import json
import math
import os
import re
import shutil
import subprocess
from concurrent.futures import ThreadPoolExecutor
from typing import Any, Dict, Iterable, List, Optional, Set, Tuple

from .report import AnalysisError, Context

CLANG = shutil.which("clang++") or "/usr/bin/clang++"
STUBS = os.path.join(os.path.dirname(os.path.dirname(os.path.abspath(__file__))), "stubs")

ASSIGN_OPS = {"=", "+=", "-=", "*=", "/=", "%=", "&=", "|=", "^=", "<<=", ">>="}
BUFFER_TYPES = ("Matrix<", "Vector<")
COPY_DEST = {"memcpy": 0, "memmove": 0, "memset": 0, "uninitialized_copy_n": 2, "copy_n": 2, "fill_n": 0, "copy": 2,
             "uninitialized_copy": 2, "fill": 0}


# ---------------------------------------------------------------------------------------------- loading


def _decode_stream(s: str) -> List[dict]:
    dec = json.JSONDecoder()
    i, out = 0, []
    n = len(s)
    while i < n:
        while i < n and s[i].isspace():
            i += 1
        if i >= n:
            break
        o, i = dec.raw_decode(s, i)
        out.append(o)
    return out


def dump(file: str, name: str, include: str, openmp: bool = False) -> List[dict]:
    if not os.path.exists(CLANG):
        raise AnalysisError("clang++ is not available: the C++ rules cannot be decided")
    cmd = [CLANG, "-std=c++17", "-fsyntax-only", "-Xclang", "-ast-dump=json", "-Xclang", f"-ast-dump-filter={name}",
           f"-I{include}"]
    if openmp:
        cmd += ["-fopenmp", f"-I{STUBS}"]
    cmd.append(file)
    p = subprocess.run(cmd, capture_output=True, text=True, timeout=300)
    if p.returncode != 0 and not p.stdout.strip():
        raise AnalysisError(f"clang failed on {file} (filter {name}): {p.stderr.strip()[:300]}")
    objs = _decode_stream(p.stdout)
    for o in objs:
        annotate_lines(o)
    return objs


def function_names(path: str) -> List[str]:
    """Names of functions *defined* in a C++ file (token level; only used to choose AST filters)."""
    src = open(path).read()
    src = re.sub(r"/\*.*?\*/", "", src, flags=re.S)
    src = re.sub(r"//[^\n]*", "", src)
    names = []
    for m in re.finditer(r"(?m)^[A-Za-z_][\w:<>,\s\*&]*?[\s\*&]([A-Za-z_]\w*)\s*\([^;{]*\)\s*(?:const\s*)?\{", src):
        nm = m.group(1)
        if nm not in ("if", "for", "while", "switch", "return", "catch") and nm not in names:
            names.append(nm)
    return names


def walk(node: Any) -> Iterable[dict]:
    stack = [node]
    while stack:
        n = stack.pop()
        if isinstance(n, dict):
            yield n
            stack.extend(reversed(n.get("inner", []) or []))


def strip(e: Optional[dict]) -> Optional[dict]:
    """Look through implicit casts, parentheses, temporaries, cleanups."""
    while isinstance(e, dict) and e.get("kind") in (
        "ImplicitCastExpr", "ParenExpr", "MaterializeTemporaryExpr", "ExprWithCleanups", "CXXBindTemporaryExpr",
        "CXXStaticCastExpr", "CStyleCastExpr", "CXXFunctionalCastExpr", "CXXReinterpretCastExpr", "CXXConstCastExpr",
    ) and e.get("inner"):
        e = e["inner"][-1]
    return e


def qual(n: dict) -> str:
    t = n.get("type", {})
    return t.get("desugaredQualType") or t.get("qualType") or ""


def is_buffer_type(t: str) -> bool:
    return any(b in t for b in BUFFER_TYPES)


def annotate_lines(root: Any) -> None:
    """clang's JSON prints `file`/`line` only when they change from the previously printed location; replay the
    print order (loc, range.begin, range.end, then children) to give every node an absolute `_line`/`_file`."""
    state = {"file": None, "line": 0}

    def see(loc: Any) -> Optional[Tuple[Optional[str], int]]:
        if not isinstance(loc, dict) or not loc:
            return None
        if "spellingLoc" in loc or "expansionLoc" in loc:
            r = None
            for k in ("spellingLoc", "expansionLoc"):
                if k in loc:
                    r = see(loc[k]) or r
            return r
        if "file" in loc:
            state["file"] = loc["file"]
        if "line" in loc:
            state["line"] = loc["line"]
        if "offset" in loc or "line" in loc or "col" in loc:
            return state["file"], state["line"]
        return None

    def rec(n: Any) -> None:
        if isinstance(n, dict):
            at = see(n.get("loc"))
            rng = n.get("range", {})
            b = see(rng.get("begin")) if isinstance(rng, dict) else None
            if isinstance(rng, dict):
                see(rng.get("end"))
            pos = b or at
            if pos:
                n["_file"], n["_line"] = pos
            for c in n.get("inner", []) or []:
                rec(c)
        elif isinstance(n, list):
            for c in n:
                rec(c)

    rec(root)


def line_of(n: dict, default: int = 0) -> int:
    if "_line" in n:
        return n["_line"]
    for k in ("loc", "range"):
        v = n.get(k, {})
        if k == "range":
            v = v.get("begin", {})
        if "line" in v:
            return v["line"]
        if "expansionLoc" in v and "line" in v["expansionLoc"]:
            return v["expansionLoc"]["line"]
    return default


class FunctionDecl:
    def __init__(self, node: dict, file: str):
        self.node = node
        self.file = file
        self.name = node.get("name", "?")
        self.type = node.get("type", {}).get("qualType", "")
        self.params = [c for c in node.get("inner", []) if c.get("kind") == "ParmVarDecl"]
        self.body = next((c for c in node.get("inner", []) if c.get("kind") == "CompoundStmt"), None)
        self.line = line_of(node)

    @property
    def key(self) -> str:
        return f"{self.name} :: {self.type}"

    def dependent(self) -> bool:
        return bool(re.search(r"\bT(Scalar|Int|Complex)?\b|int_type|type-parameter", self.type))


def load_kernels(repo: str) -> Tuple[List[FunctionDecl], Dict[str, str]]:
    src = os.path.join(repo, "src")
    if not os.path.isdir(src):
        raise AnalysisError(f"anchor vanished: {src}")
    files = sorted(f for f in os.listdir(src) if f.endswith(".cpp"))
    jobs = []
    for f in files:
        path = os.path.join(src, f)
        for nm in function_names(path):
            jobs.append((path, nm))
    # header-defined helpers are instantiated in the TU that uses them: dump them from every .cpp that includes them
    hdr_names: Dict[str, List[str]] = {}
    for h in sorted(x for x in os.listdir(src) if x.endswith(".hpp")):
        for nm in function_names(os.path.join(src, h)):
            hdr_names.setdefault(h, []).append(nm)
    for f in files:
        path = os.path.join(src, f)
        text = open(path).read()
        for h, names in hdr_names.items():
            if f'#include "{h}"' in text or h.replace(".hpp", ".cpp") == f:
                for nm in names:
                    if nm[0].isupper() or nm in ("Vector", "Matrix", "operator"):
                        continue
                    if (path, nm) not in jobs:
                        jobs.append((path, nm))
    results: List[FunctionDecl] = []
    seen: Set[Tuple[str, str, int]] = set()

    def work(job):
        path, nm = job
        return job, dump(path, nm, src)

    with ThreadPoolExecutor(max_workers=min(16, len(jobs) or 1)) as ex:
        for (path, nm), objs in ex.map(work, jobs):
            for o in objs:
                for n in walk(o):
                    if n.get("kind") in ("FunctionDecl", "CXXMethodDecl") and n.get("name") == nm:
                        fd = FunctionDecl(n, path)
                        if fd.body is None or fd.dependent():
                            continue
                        k = (fd.name, fd.type, fd.line)
                        if k in seen:
                            continue
                        seen.add(k)
                        results.append(fd)
    return results, {}


# ---------------------------------------------------------------------------------------------- (a) write-through


class BufferEffects:
    """Which parameters (by index) of each kernel may be written through their data buffer."""

    def __init__(self, funcs: List[FunctionDecl]):
        self.funcs = funcs
        self.by_name: Dict[str, List[FunctionDecl]] = {}
        for f in funcs:
            self.by_name.setdefault(f.name, []).append(f)
        self.writes: Dict[str, Dict[int, Tuple[int, str]]] = {f.key: {} for f in funcs}  # key → {param: (line, how)}
        self.returns_alias: Dict[str, Set[int]] = {f.key: set() for f in funcs}
        for _ in range(6):
            changed = False
            for f in funcs:
                before = (dict(self.writes[f.key]), set(self.returns_alias[f.key]))
                self._analyse(f)
                if before != (self.writes[f.key], self.returns_alias[f.key]):
                    changed = True
            if not changed:
                break

    def _callee_summaries(self, name: str, nargs: int) -> List[FunctionDecl]:
        return [f for f in self.by_name.get(name, []) if len(f.params) == nargs] or self.by_name.get(name, [])

    def _analyse(self, f: FunctionDecl) -> None:
        env: Dict[str, Set[int]] = {}  # decl id → set of param indices whose buffer it may share
        elemref: Dict[str, Set[int]] = {}  # reference variables bound to an element of such a buffer
        for i, p in enumerate(f.params):
            if is_buffer_type(qual(p)) or "*" in qual(p):
                env[p["id"]] = {i}
        W = self.writes[f.key]

        def origins(e: Optional[dict]) -> Set[int]:
            e = strip(e)
            if not isinstance(e, dict):
                return set()
            k = e.get("kind")
            if k == "DeclRefExpr":
                return set(env.get(e.get("referencedDecl", {}).get("id"), set()))
            if k == "MemberExpr" and e.get("name") == "data":
                return origins(e["inner"][0]) if e.get("inner") else set()
            if k == "CXXConstructExpr":
                args = e.get("inner", []) or []
                if len(args) == 1 and is_buffer_type(qual(e)):
                    return origins(args[0])  # copy constructor shares the buffer
                if len(args) == 3:
                    return origins(args[2])  # (rows, cols, data*) wraps an existing buffer
                if len(args) == 2 and "Vector<" in qual(e):
                    return origins(args[1])
                return set()
            if k == "CXXMemberCallExpr":
                callee = strip(e["inner"][0]) if e.get("inner") else None
                if isinstance(callee, dict) and callee.get("kind") == "MemberExpr" and callee.get("name") == "copy":
                    return set()
                return set()
            if k == "CallExpr":
                callee = strip(e["inner"][0]) if e.get("inner") else None
                nm = (callee or {}).get("referencedDecl", {}).get("name") if isinstance(callee, dict) else None
                out: Set[int] = set()
                if nm:
                    args = e["inner"][1:]
                    for g in self._callee_summaries(nm, len(args)):
                        for j in self.returns_alias[g.key]:
                            if j < len(args):
                                out |= origins(args[j])
                return out
            if k in ("ConditionalOperator",):
                out = set()
                for c in e.get("inner", [])[1:]:
                    out |= origins(c)
                return out
            if k == "UnaryOperator" and e.get("opcode") in ("&", "*"):
                return origins(e["inner"][0])
            if k == "BinaryOperator" and e.get("opcode") in ("+", "-") and "*" in qual(e):
                return origins(e["inner"][0])
            return set()

        def element_target(e: Optional[dict]) -> Set[int]:
            """Origins of the buffer an lvalue expression designates an element of."""
            e = strip(e)
            if not isinstance(e, dict):
                return set()
            k = e.get("kind")
            if k == "CXXOperatorCallExpr":
                inner = e.get("inner", [])
                callee = strip(inner[0]) if inner else None
                opname = (callee or {}).get("referencedDecl", {}).get("name", "")
                if opname in ("operator[]", "operator()") and len(inner) >= 2:
                    return origins(inner[1])
            if k == "ArraySubscriptExpr":
                return origins(e["inner"][0])
            if k == "UnaryOperator" and e.get("opcode") == "*":
                return origins(e["inner"][0])
            if k == "DeclRefExpr":
                return set(elemref.get(e.get("referencedDecl", {}).get("id"), set()))
            return set()

        def record(idxs: Set[int], node: dict, how: str) -> None:
            for i in idxs:
                W.setdefault(i, (line_of(node, f.line), how))

        def merge(a: Dict[str, Set[int]], b: Dict[str, Set[int]]) -> Dict[str, Set[int]]:
            out = {k: set(v) for k, v in a.items()}
            for k, v in b.items():
                out[k] = out.get(k, set()) | v
            return out

        def visit(n: Any) -> None:
            nonlocal env
            if not isinstance(n, dict):
                return
            k = n.get("kind")
            if k == "IfStmt":
                parts = n.get("inner", [])
                if parts:
                    visit(parts[0])
                before = {kk: set(v) for kk, v in env.items()}
                if len(parts) > 1:
                    visit(parts[1])
                after_then = env
                env = {kk: set(v) for kk, v in before.items()}
                for c in parts[2:]:
                    visit(c)
                env = merge(after_then, env)
                return
            if k in ("ForStmt", "WhileStmt", "DoStmt", "CXXForRangeStmt"):
                before = {kk: set(v) for kk, v in env.items()}
                for c in n.get("inner", []) or []:
                    visit(c)
                env = merge(before, env)
                return
            if k == "VarDecl":
                init = next((c for c in n.get("inner", []) if isinstance(c, dict) and not c.get("kind", "").endswith(("Attr", "Comment"))), None)
                t = qual(n)
                if init is not None:
                    visit(init)
                    if is_buffer_type(t) and not t.rstrip().endswith("&") or ("*" in t and not is_buffer_type(t)):
                        o = origins(init)
                        if o:
                            env[n["id"]] = o
                    elif is_buffer_type(t):  # reference to a Matrix/Vector
                        o = origins(init)
                        if o:
                            env[n["id"]] = o
                    if t.rstrip().endswith("&") and not is_buffer_type(t):
                        o = element_target(init)
                        if o:
                            elemref[n["id"]] = o
                return
            if k in ("BinaryOperator", "CompoundAssignOperator") and n.get("opcode") in ASSIGN_OPS:
                lhs, rhs = n["inner"][0], n["inner"][1]
                visit(rhs)
                visit(lhs)
                tgt = element_target(lhs)
                if tgt:
                    record(tgt, n, f"element store `{n.get('opcode')}`")
                # pointer rebinding: p = A.data
                l = strip(lhs)
                if isinstance(l, dict) and l.get("kind") == "DeclRefExpr" and "*" in qual(l):
                    env[l["referencedDecl"]["id"]] = origins(rhs)
                return
            if k == "UnaryOperator" and n.get("opcode") in ("++", "--"):
                tgt = element_target(n["inner"][0])
                if tgt:
                    record(tgt, n, f"element `{n.get('opcode')}`")
            if k == "CXXOperatorCallExpr":
                inner = n.get("inner", [])
                callee = strip(inner[0]) if inner else None
                opname = (callee or {}).get("referencedDecl", {}).get("name", "")
                if opname == "operator=" and len(inner) >= 3:
                    l = strip(inner[1])
                    if isinstance(l, dict) and l.get("kind") == "DeclRefExpr" and is_buffer_type(qual(l)):
                        # Matrix::operator= rebinds the handle to the right-hand buffer (no element is written)
                        env[l["referencedDecl"]["id"]] = origins(inner[2])
                        for c in inner[2:]:
                            visit(c)
                        return
                    tgt = element_target(inner[1])  # class-type elements (std::complex): element = value
                    if tgt:
                        record(tgt, n, "element store `=`")
                if opname in ("operator+=", "operator-=", "operator*=", "operator/=") and len(inner) >= 2:
                    tgt = element_target(inner[1])
                    if tgt:
                        record(tgt, n, f"element `{opname}`")
            if k == "CallExpr":
                inner = n.get("inner", [])
                callee = strip(inner[0]) if inner else None
                nm = (callee or {}).get("referencedDecl", {}).get("name") if isinstance(callee, dict) else None
                args = inner[1:]
                if nm in COPY_DEST and COPY_DEST[nm] < len(args):
                    o = origins(args[COPY_DEST[nm]])
                    if o:
                        record(o, n, f"{nm}() destination")
                elif nm:
                    for g in self._callee_summaries(nm, len(args)):
                        for j, (ln, how) in self.writes[g.key].items():
                            if j < len(args):
                                o = origins(args[j])
                                if o:
                                    record(o, n, f"passed to {g.name}(), which writes its parameter {j} ({how} at line {ln})")
            if k == "ReturnStmt":
                for c in n.get("inner", []):
                    o = origins(c)
                    self.returns_alias[f.key] |= o
            for c in n.get("inner", []) or []:
                visit(c)

        # two passes so that aliases created late in loops are seen by earlier statements of the loop body
        visit(f.body)
        visit(f.body)


def parse_bindings(repo: str) -> List[dict]:
    """Token-level reading of the pybind / FFI binding files: which kernel argument wraps which caller buffer."""
    out = []
    files = []
    mdir = os.path.join(repo, "piquasso", "_math")
    for f in sorted(os.listdir(mdir)):
        if f.endswith(".cpp"):
            files.append(os.path.join(mdir, f))
    jp = os.path.join(repo, "src", "jax_perm", "jax_perm_core.cpp")
    if os.path.exists(jp):
        files.append(jp)
    for path in files:
        src = open(path).read()
        src_nc = re.sub(r"/\*.*?\*/", "", src, flags=re.S)
        src_nc = re.sub(r"//[^\n]*", "", src_nc)
        exported = set(re.findall(r'm\.def\(\s*"[^"]+"\s*,\s*&(\w+)', src_nc)) | set(
            re.findall(r"XLA_FFI_DEFINE_HANDLER_SYMBOL\(\s*\w+\s*,\s*(\w+)", src_nc))
        # function bodies
        for m in re.finditer(r"(?m)^(?:template\s*<[^>]*>\s*)?[\w:<>]+\s+(\w+)\s*\(([^)]*)\)\s*\{", src_nc):
            name = m.group(1)
            start = m.end()
            depth, i = 1, start
            while i < len(src_nc) and depth:
                depth += {"{": 1, "}": -1}.get(src_nc[i], 0)
                i += 1
            body = src_nc[start:i]
            shared: Dict[str, str] = {}
            for w in re.finditer(r"(?:Matrix|Vector)<[^;=]*>\s+(\w+)\s*=\s*numpy_to_(?:matrix|vector)\(\s*(\w+)\s*\)", body):
                shared[w.group(1)] = w.group(2)
            for w in re.finditer(r"(?:Matrix|Vector)<[^;=(]*>\s+(\w+)\s*\(([^;]*?(\w+)\.typed_data\(\)[^;]*)\)\s*;", body, flags=re.S):
                shared[w.group(1)] = w.group(3)
            calls = []
            for c in re.finditer(r"\b(\w+_cpp|grad_perm)\s*(?:<[^>]*>)?\s*\(([^;]*?)\)\s*;", body, flags=re.S):
                args = [a.strip() for a in c.group(2).split(",")]
                calls.append((c.group(1), args, src_nc[:start + c.start()].count("\n") + 1))
            if shared or calls:
                out.append({"file": path, "function": name, "exported": name in exported, "shared": shared, "calls": calls})
    return out


def numpy_wrappers_share(repo: str) -> Dict[str, bool]:
    path = os.path.join(repo, "src", "numpy_utils.hpp")
    if not os.path.exists(path):
        raise AnalysisError(f"anchor vanished: {path}")
    src = open(path).read()
    out = {}
    for fn in ("numpy_to_matrix", "numpy_to_vector"):
        m = re.search(r"%s\s*\([^)]*\)\s*\{(.*?)\n\}" % fn, src, flags=re.S)
        if not m:
            raise AnalysisError(f"anchor vanished: {fn} in numpy_utils.hpp")
        body = m.group(1)
        copies = ".copy()" in body or "memcpy" in body or "new " in body
        wraps = re.search(r"(Matrix|Vector)<TScalar>\s+\w+\(([^;]*)\bdata\b\s*\)", body) is not None
        out[fn] = wraps and not copies
    return out


class _Stub:
    """A function summary restored from the cache (same attributes the report needs)."""

    def __init__(self, d: dict):
        self.name, self.type, self.file, self.line = d["name"], d["type"], d["file"], d["line"]
        self.params = [{"name": p} for p in d["params"]]

    @property
    def key(self) -> str:
        return f"{self.name} :: {self.type}"


class _EffStub:
    def __init__(self, writes):
        self.writes = writes


def sources_digest(repo: str) -> str:
    import hashlib
    h = hashlib.sha256()
    for d in ("src", os.path.join("piquasso", "_math"), os.path.join("src", "jax_perm")):
        p = os.path.join(repo, d)
        if not os.path.isdir(p):
            continue
        for f in sorted(os.listdir(p)):
            if f.endswith((".cpp", ".hpp", ".h")):
                h.update(f.encode())
                with open(os.path.join(p, f), "rb") as fh:
                    h.update(fh.read())
    with open(os.path.abspath(__file__), "rb") as fh:
        h.update(fh.read())
    return h.hexdigest()[:24]


CACHE_DIR = os.path.join(os.path.dirname(os.path.dirname(os.path.abspath(__file__))), ".cache")


def kernel_effects(repo: str):
    """(functions, effects) — recomputed from the sources unless a result for the same source digest is cached."""
    dg = sources_digest(repo)
    path = os.path.join(CACHE_DIR, f"cxx-effects-{dg}.json")
    if os.path.exists(path) and not os.environ.get("PQSTATIC_NO_CACHE"):
        try:
            with open(path) as fh:
                data = json.load(fh)
            funcs = [_Stub(d) for d in data["funcs"]]
            writes = {k: {int(i): tuple(v) for i, v in w.items()} for k, w in data["writes"].items()}
            st = _EffStub(writes)
            st.thresholds = [tuple(x) for x in data["thresholds"]]
            return funcs, st, True
        except Exception:  # noqa: BLE001 - a broken cache entry is ignored
            pass
    funcs, _ = load_kernels(repo)
    eff = BufferEffects(funcs)
    eff.thresholds = threshold_comparisons(funcs)
    try:
        os.makedirs(CACHE_DIR, exist_ok=True)
        tmp = path + f".{os.getpid()}.tmp"
        with open(tmp, "w") as fh:
            json.dump({"funcs": [{"name": f.name, "type": f.type, "file": f.file, "line": f.line,
                                  "params": [p.get("name", "") for p in f.params]} for f in funcs],
                       "writes": {k: {str(i): list(v) for i, v in w.items()} for k, w in eff.writes.items()},
                       "thresholds": [list(x) for x in eff.thresholds]}, fh)
        os.replace(tmp, path)
    except OSError:
        pass
    return funcs, eff, False


def check_buffer_write_through(ctx: Context, rule: str) -> None:
    funcs, eff, cached = kernel_effects(ctx.repo)
    ctx.count("C++ analysis served from digest cache", cached)
    ctx.require_floor("C++ kernel function instantiations analysed", len(funcs), 25)
    share = numpy_wrappers_share(ctx.repo)
    bindings = parse_bindings(ctx.repo)
    exported = [b for b in bindings if b["calls"]]
    ctx.require_floor("binding functions calling a kernel", len(exported), 8)
    ctx.count("numpy wrappers share the caller's buffer", share)
    summary = {}
    for f in funcs:
        if eff.writes[f.key]:
            summary[f.key] = {str(i): f"{f.params[i].get('name', i)}: {how} (line {ln})" for i, (ln, how) in eff.writes[f.key].items()}
    ctx.count("kernels that write through a parameter", summary)
    for b in bindings:
        for (kernel, args, line) in b["calls"]:
            cands = [f for f in funcs if f.name == kernel]
            if not cands:
                raise AnalysisError(f"{rule}: kernel {kernel} called from {os.path.basename(b['file'])}:{b['function']} has no analysed definition")
            for j, a in enumerate(args):
                a = a.strip()
                if a not in b["shared"]:
                    continue
                wrapper_shares = all(share.values()) if "typed_data" not in a else True
                written = [(f, f.params[j].get("name", str(j)), eff.writes[f.key][j]) for f in cands if j in eff.writes[f.key]]
                key = f"{os.path.relpath(b['file'], ctx.repo)}:{b['function']}|{kernel}|arg{j}:{b['shared'][a]}"
                verdict = "ok" if not written or not wrapper_shares else "VIOLATION"
                ctx.instance(rule, key, verdict, f"{os.path.relpath(b['file'], ctx.repo)}:{line}")
                if written and wrapper_shares:
                    f, pname, (ln, how) = written[0]
                    ctx.violation(rule, key, b["file"], line,
                                  f"{b['function']} wraps the caller's numpy array `{b['shared'][a]}` without copying and passes it to "
                                  f"{kernel}, which writes through parameter `{pname}` ({how}, {os.path.basename(f.file)}:{ln}): the "
                                  f"caller's array is modified", f"{kernel}({', '.join(args)})")


# ---------------------------------------------------------------------------------------------- (b) widths

WIDTH = {"int": 32, "unsigned int": 32, "long": 64, "unsigned long": 64, "long long": 64, "unsigned long long": 64,
         "short": 16, "unsigned short": 16, "char": 8, "signed char": 8, "unsigned char": 8, "__int128": 128,
         "unsigned __int128": 128, "float": 24, "double": 53, "long double": 64, "bool": 1}
SIGNED = {"int", "long", "long long", "short", "char", "signed char", "__int128"}


def type_bits(t: str) -> Optional[Tuple[int, bool]]:
    t = t.replace("const ", "").replace("volatile ", "").replace("&", "").strip()
    if t in WIDTH:
        return WIDTH[t], t in SIGNED
    return None


def needed_bits(total: int) -> Tuple[int, int]:
    """Bits needed for the largest intermediate binomial weight when multiplicities sum to <= total."""
    best = 0
    for r in range(1, total + 1):
        best = max(best, math.comb(r, r // 2) * r)  # weight * one more factor before the exact division
    # a product over several modes is bounded by the single-mode central coefficient of the sum
    return best, best.bit_length() + 1  # +1 sign bit


def check_widths(ctx: Context, rule: str, total: int = 40) -> None:
    src = os.path.join(ctx.repo, "src")
    bound, bits = needed_bits(total)
    ctx.count("largest intermediate binomial weight for sum of multiplicities <= %d" % total, bound)
    ctx.count("bits needed (signed)", bits)
    n_sites = 0
    for fname, kernel in (("permanent.cpp", "permanent_cpp"), ("permanent_laplace.cpp", "permanent_laplace_cpp")):
        path = os.path.join(src, fname)
        if not os.path.exists(path):
            raise AnalysisError(f"anchor vanished: {path}")
        objs = dump(path, kernel, src)
        fds = []
        for o in objs:
            for n in walk(o):
                if n.get("kind") == "FunctionDecl" and n.get("name") == kernel:
                    fd = FunctionDecl(n, path)
                    if fd.body is not None and not fd.dependent():
                        fds.append(fd)
        if not fds:
            raise AnalysisError(f"{rule}: no instantiated definition of {kernel} in the AST")
        seen_keys = set()
        for fd in fds:
            decls: Dict[str, dict] = {}
            for n in walk(fd.body):
                if n.get("kind") == "VarDecl":
                    decls[n["id"]] = n
            carriers: Dict[str, dict] = {}
            for n in walk(fd.body):
                if n.get("kind") in ("BinaryOperator", "CompoundAssignOperator") and n.get("opcode") in ASSIGN_OPS:
                    lhs = strip(n["inner"][0])
                    rhs = n["inner"][1]
                    if isinstance(lhs, dict) and lhs.get("kind") == "DeclRefExpr":
                        did = lhs["referencedDecl"]["id"]
                        has_binom = any(
                            x.get("kind") == "DeclRefExpr" and x.get("referencedDecl", {}).get("name", "").startswith("binomialCoeff")
                            for x in walk(rhs))
                        if has_binom and did in decls:
                            carriers[did] = decls[did]
                # instantiations of binomialCoeff<T>
                if n.get("kind") == "DeclRefExpr" and n.get("referencedDecl", {}).get("name", "").startswith("binomialCoeff"):
                    ft = n.get("type", {}).get("qualType", "")  # e.g. "int (int, int)"
                    ret = ft.split("(")[0].strip()
                    tb = type_bits(ret)
                    key = f"src/{fname}:{kernel}|binomialCoeff<{ret}>"
                    if key in seen_keys:
                        continue
                    seen_keys.add(key)
                    n_sites += 1
                    ok = tb is not None and tb[0] >= bits
                    ctx.instance(rule, key, "ok" if ok else "VIOLATION", f"src/{fname}:{line_of(n, fd.line)}", bits=tb[0] if tb else None)
                    if not ok:
                        ctx.violation(rule, key, path, line_of(n, fd.line),
                                      f"binomialCoeff is instantiated with `{ret}` ({tb[0] if tb else '?'} bits) but binomial weights reach "
                                      f"{bound} (needs {bits} bits) for multiplicities summing to {total}: signed overflow is undefined "
                                      f"behaviour and gives a wrong permanent", f"binomialCoeff<{ret}>")
            for did, d in carriers.items():
                t = qual(d)
                tb = type_bits(t)
                key = f"src/{fname}:{kernel}|{d.get('name')}:{t}"
                if key in seen_keys:
                    continue
                seen_keys.add(key)
                n_sites += 1
                ok = tb is not None and tb[0] >= bits
                ctx.instance(rule, key, "ok" if ok else "VIOLATION", f"src/{fname}:{line_of(d, fd.line)}", bits=tb[0] if tb else None)
                if not ok:
                    ctx.violation(rule, key, path, line_of(d, fd.line),
                                  f"`{t} {d.get('name')}` accumulates binomial weights up to {bound} (needs {bits} bits; C(18,9)^2 already "
                                  f"exceeds 2^31) but has {tb[0] if tb else '?'} bits", f"{t} {d.get('name')}")
    ctx.require_floor("binomial-weight carriers and instantiations", n_sites, 4)
    # powers of two computed with `<<`: the exponents here (sum of multiplicities, number of terms) reach `total`,
    # so a shift whose promoted left operand has fewer than total+2 bits overflows (undefined behaviour)
    def _tname(n):
        ty = n.get("type", {})
        return ty.get("desugaredQualType") or ty.get("qualType", "?")

    def shifts(body, default_line):
        for n in walk(body):
            if n.get("kind") in ("BinaryOperator", "CompoundAssignOperator") and n.get("opcode") in ("<<", "<<="):
                cnt = strip(n["inner"][1])
                if isinstance(cnt, dict) and cnt.get("kind") == "IntegerLiteral":
                    tb_ = type_bits(_tname(n))
                    if tb_ is not None and int(cnt.get("value", "0")) < tb_[0] - 1:
                        continue
                yield n, type_bits(_tname(n)), _tname(n)

    fixture = os.path.join(STUBS, "shift_fixture.cpp")
    fired = {"narrow_shift": 0, "wide_shift": 0}
    for nm in fired:
        for o in dump(fixture, nm, STUBS):
            for f_ in walk(o):
                if f_.get("kind") == "FunctionDecl" and f_.get("name") == nm:
                    for n, tb, t in shifts(f_, 0):
                        if tb is None or tb[0] < total + 2:
                            fired[nm] += 1
    if fired != {"narrow_shift": 1, "wide_shift": 0}:
        raise AnalysisError(f"{rule}: the shift rule does not behave on its fixture ({fired}); the C++ width rules are not decided")
    n_shift = 0
    for fname in sorted(os.listdir(src)):
        if not fname.endswith((".cpp", ".hpp")) or fname.startswith("main"):
            continue
        path = os.path.join(src, fname)
        text = open(path).read()
        if "<<" not in re.sub(r"(std::)?(cout|cerr|ostream|stringstream)[^;]*;", "", text):
            continue
        for fn_name in function_names(path):
            for o in dump(path, fn_name, src):
                for f_ in walk(o):
                    if f_.get("kind") in ("FunctionDecl", "CXXMethodDecl") and f_.get("name") == fn_name:
                        fd = FunctionDecl(f_, path)
                        if fd.body is None or fd.dependent():
                            continue
                        for n, tb, t in shifts(fd.body, fd.line):
                            n_shift += 1
                            ok = tb is not None and tb[0] >= total + 2
                            key = f"src/{fname}:{fn_name}|shift:{t}"
                            ctx.instance(rule, key, "ok" if ok else "VIOLATION", f"src/{fname}:{line_of(n, fd.line)}")
                            if not ok:
                                ctx.violation(rule, key, path, line_of(n, fd.line),
                                              f"`<<` is evaluated in `{t}` ({tb[0] if tb else '?'} bits) with a run-time shift count: the exponents of the "
                                              f"kernels (sums of multiplicities) reach {total}, and shifting a {tb[0] if tb else '?'}-bit integer by that much "
                                              f"overflows (undefined behaviour; in practice a wrong or zero denominator)", f"<< in {t}")
    ctx.count("run-time shifts in the native kernels", n_shift)


# ---------------------------------------------------------------------------------------------- (b') thresholds


def _float_literals(e, decls, depth=0):
    """Non-zero floating literals an expression depends on (through local const variables)."""
    out = []
    for x in walk(e):
        if x.get("kind") == "FloatingLiteral":
            try:
                if float(x.get("value", "0")) != 0.0:
                    out.append(x.get("value"))
            except ValueError:
                out.append(x.get("value"))
        if x.get("kind") == "DeclRefExpr" and depth < 3:
            d = decls.get(x.get("referencedDecl", {}).get("id"))
            if d is not None and "const" in qual(d):
                out += _float_literals(d, decls, depth + 1)
    return out


def threshold_comparisons(funcs) -> List[Tuple[str, str, int, str]]:
    """Relational comparisons of a floating value with a non-zero floating constant inside the kernels."""
    found = []
    for fd in funcs:
        decls = {n["id"]: n for n in walk(fd.body) if n.get("kind") == "VarDecl"}
        for n in walk(fd.body):
            if n.get("kind") == "BinaryOperator" and n.get("opcode") in ("<", ">", "<=", ">="):
                l, r = n["inner"][0], n["inner"][1]
                for a, b in ((l, r), (r, l)):
                    lits = _float_literals(a, decls)
                    tb = (b.get("type", {}).get("desugaredQualType") or b.get("type", {}).get("qualType", ""))
                    if lits and any(t in tb for t in ("float", "double")) and not _float_literals(b, decls):
                        found.append((os.path.basename(fd.file), fd.name, line_of(n, fd.line), f"{n.get('opcode')} {lits[0]}"))
                        break
    return sorted(set(found))


def check_thresholds(ctx: Context, rule: str) -> None:
    """The kernels equal their defining sums for *every* matrix only if their control flow depends on matrix entries
    through exact tests alone: a comparison of a computed floating value with a non-zero constant (|pivot| > 1e-8)
    sends all matrices below the threshold down the degenerate path, whatever their scale."""
    fixture = os.path.join(STUBS, "threshold_fixture.cpp")
    fx = []
    for nm in ("with_threshold", "exact_zero"):
        for o in dump(fixture, nm, STUBS):
            for f_ in walk(o):
                if f_.get("kind") == "FunctionDecl" and f_.get("name") == nm:
                    fx.append(FunctionDecl(f_, fixture))
    got = {f.name: len(threshold_comparisons([f])) for f in fx}
    if got != {"with_threshold": 1, "exact_zero": 0}:
        raise AnalysisError(f"{rule}: the threshold rule does not behave on its fixture ({got})")
    funcs, eff, cached = kernel_effects(ctx.repo)
    ctx.count("C++ analysis served from digest cache", cached)
    found, n_funcs = list(eff.thresholds), len(funcs)
    ctx.require_floor("C++ kernel function instantiations scanned for floating thresholds", n_funcs, 25)
    ctx.obligation(rule, "src|no-floating-threshold-in-kernels", not found, functions=n_funcs)
    for (fname, fn_name, ln, what) in found:
        ctx.violation(rule, f"src/{fname}:{fn_name}|floating-threshold", os.path.join(ctx.repo, "src", fname), ln,
                      f"{fn_name} compares a computed floating value with the constant `{what}`: every input below that absolute threshold takes the "
                      f"degenerate path, so the kernel differs from its defining sum for small-scaled (but perfectly regular) matrices", what)


# ---------------------------------------------------------------------------------------------- (c) OpenMP loops


def check_omp_loops(ctx: Context, rule: str) -> None:
    src = os.path.join(ctx.repo, "src")
    if not os.path.exists(os.path.join(STUBS, "omp.h")):
        raise AnalysisError("stub omp.h missing in /verif/stubs")
    n_loops = 0
    for fname, kernel in (("permanent.cpp", "permanent_cpp"), ("permanent_laplace.cpp", "permanent_laplace_cpp")):
        path = os.path.join(src, fname)
        objs = dump(path, kernel, src, openmp=True)
        fds = []
        for o in objs:
            for n in walk(o):
                if n.get("kind") == "FunctionDecl" and n.get("name") == kernel:
                    fd = FunctionDecl(n, path)
                    if fd.body is not None and not fd.dependent():
                        fds.append(fd)
        done = False
        for fd in fds:
            for n in walk(fd.body):
                if n.get("kind") != "OMPParallelForDirective" or done:
                    continue
                done = True
                n_loops += 1
                _check_one_omp_loop(ctx, rule, path, fname, kernel, n)
        if not done:
            raise AnalysisError(f"{rule}: no `#pragma omp parallel for` found in {kernel} (parsed with -fopenmp)")
    ctx.require_floor("omp parallel for loops", n_loops, 2)


def _check_one_omp_loop(ctx, rule, path, fname, kernel, directive) -> None:
    loop = None
    for n in walk(directive):
        if n.get("kind") == "ForStmt":
            loop = n
            break
    if loop is None:
        raise AnalysisError(f"{rule}: cannot find the loop of the parallel region in {kernel}")
    clauses = [c.get("kind") for c in directive.get("inner", []) if c.get("kind", "").startswith("OMP") and c.get("kind", "").endswith("Clause")]
    inner = loop.get("inner", [])
    init = inner[0] if inner else None
    ind_ids = {n["id"] for n in walk(init) if n.get("kind") == "VarDecl"} if init else set()
    body = inner[-1]
    local_ids = {n["id"] for n in walk(body) if n.get("kind") == "VarDecl"}
    # variables derived from the induction variable
    derived = set(ind_ids)
    changed = True
    decls = {n["id"]: n for n in walk(body) if n.get("kind") == "VarDecl"}
    while changed:
        changed = False
        for did, d in decls.items():
            if did in derived:
                continue
            if any(x.get("kind") == "DeclRefExpr" and x.get("referencedDecl", {}).get("id") in derived for x in walk(d)):
                derived.add(did)
                changed = True
    key_base = f"src/{fname}:{kernel}|omp-parallel-for"
    problems = []

    def base_decl(e):
        e = strip(e)
        if not isinstance(e, dict):
            return None, None
        k = e.get("kind")
        if k == "DeclRefExpr":
            return e["referencedDecl"].get("id"), None
        if k == "CXXOperatorCallExpr":
            innr = e.get("inner", [])
            callee = strip(innr[0]) if innr else None
            opname = (callee or {}).get("referencedDecl", {}).get("name", "")
            if opname in ("operator[]", "operator()") and len(innr) >= 2:
                b, _ = base_decl(innr[1])
                return b, innr[2:]
        if k == "ArraySubscriptExpr":
            b, _ = base_decl(e["inner"][0])
            return b, e["inner"][1:]
        if k == "MemberExpr":
            return base_decl(e["inner"][0]) if e.get("inner") else (None, None)
        return None, None

    refs: Dict[str, Tuple[Optional[str], Any]] = {}
    for did, d in decls.items():
        if qual(d).rstrip().endswith("&"):
            initn = next((c for c in d.get("inner", []) if isinstance(c, dict)), None)
            refs[did] = base_decl(initn)
    n_writes = 0
    for n in walk(body):
        tgt = None
        if n.get("kind") in ("BinaryOperator", "CompoundAssignOperator") and n.get("opcode") in ASSIGN_OPS:
            tgt = n["inner"][0]
        elif n.get("kind") == "UnaryOperator" and n.get("opcode") in ("++", "--"):
            tgt = n["inner"][0]
        elif n.get("kind") == "CXXOperatorCallExpr":
            innr = n.get("inner", [])
            callee = strip(innr[0]) if innr else None
            opname = (callee or {}).get("referencedDecl", {}).get("name", "")
            if opname in ("operator=", "operator+=", "operator-=", "operator*=", "operator/=") and len(innr) >= 2:
                tgt = innr[1]
        if tgt is None:
            continue
        n_writes += 1
        b, idx = base_decl(tgt)
        if b in refs and b in local_ids:
            b, idx = refs[b]
        if b is None or b in local_ids:
            continue
        # shared variable: must be an element indexed by (something derived from) the induction variable
        indexed = idx is not None and any(
            x.get("kind") == "DeclRefExpr" and x.get("referencedDecl", {}).get("id") in derived for i in idx for x in walk(i))
        if not indexed:
            problems.append((line_of(n), f"write to shared `{_decl_name(directive, b)}` inside the parallel loop is not indexed by the loop's induction variable"))
    ctx.obligation(rule, key_base + "|writes", not problems, f"src/{fname}:{line_of(loop)}", writes=n_writes, clauses=clauses)
    for ln, msg in problems[:3]:
        ctx.violation(rule, key_base + f"|shared-write|{msg[:60]}", path, ln, msg + " (data race: the result depends on the schedule)", "")
    _check_partition(ctx, rule, key_base, path, fname, loop, body, ind_ids)


# ---------------------------------------------------------------------------------------------- job partition


def _check_partition(ctx, rule, key_base, path, fname, loop, body, ind_ids) -> None:
    """The jobs of the parallel loop tile the Gray-code range exactly, for every job count K and range M >= K.

    From the loop body the start S(j) (the offset the Gray-code counter is constructed with) and the inclusive end E(j)
    (the argument of set_offset_max) are read as integer expressions in the job index j, the job count K and the range
    M (C++ `/` and `%` on M and K become q and r with M = q*K + r, q >= 1, 0 <= r < K).  Decided:
        S(0) = 0        E(K-1) = M - 1        S(j+1) = E(j) + 1  (0 <= j < K-1)        inner loop runs S+1 .. E
    by splitting on the (finitely many) truth assignments of the comparisons that occur, and proving the polynomial
    identity in each.  A violation is only reported together with a concrete (M, K, j) at which the extracted formulas
    leave a gap or an overlap."""
    import itertools
    import sympy as sp

    cond = strip(loop["inner"][2]) if len(loop.get("inner", [])) > 2 else None
    if not (isinstance(cond, dict) and cond.get("kind") == "BinaryOperator" and cond.get("opcode") == "<"):
        raise AnalysisError(f"{rule}: the condition of the parallel loop in {fname} is not `job < count` (partition undecided)")
    kref = strip(cond["inner"][1])
    if not (isinstance(kref, dict) and kref.get("kind") == "DeclRefExpr"):
        raise AnalysisError(f"{rule}: the job count of the parallel loop in {fname} is not a variable (partition undecided)")
    K_id = kref["referencedDecl"]["id"]
    j, K, q, r = sp.symbols("j K q r", integer=True)
    idiv, imod = sp.Function("idiv"), sp.Function("imod")
    outer: Dict[str, sp.Symbol] = {}
    env: Dict[str, Any] = {}

    def tr(e):
        e = strip(e)
        if not isinstance(e, dict):
            raise AnalysisError(f"{rule}: empty expression in the partition of {fname}")
        k = e.get("kind")
        if k == "IntegerLiteral":
            return sp.Integer(int(e["value"]))
        if k == "DeclRefExpr":
            did = e["referencedDecl"]["id"]
            if did in ind_ids:
                return j
            if did == K_id:
                return K
            if did in env:
                return env[did]
            nm = e["referencedDecl"].get("name", did)
            return outer.setdefault(did, sp.Symbol(nm, integer=True))
        if k == "UnaryOperator" and e.get("opcode") == "-":
            return -tr(e["inner"][0])
        if k == "UnaryOperator" and e.get("opcode") == "!":
            return sp.Not(tr(e["inner"][0]))
        if k == "BinaryOperator":
            a, b = tr(e["inner"][0]), tr(e["inner"][1])
            o = e.get("opcode")
            if o == "+":
                return a + b
            if o == "-":
                return a - b
            if o == "*":
                return a * b
            if o == "/":
                return idiv(a, b)
            if o == "%":
                return imod(a, b)
            rel = {"==": sp.Eq, "!=": sp.Ne, "<": sp.Lt, "<=": sp.Le, ">": sp.Gt, ">=": sp.Ge}.get(o)
            if rel is not None:
                return rel(a, b, evaluate=False) if o in ("==", "!=") else rel(a, b)
            if o == "&&":
                return sp.And(a, b)
            if o == "||":
                return sp.Or(a, b)
        if k == "ConditionalOperator":
            c, a, b = (tr(x) for x in e["inner"][:3])
            return sp.Piecewise((a, c), (b, True))
        raise AnalysisError(f"{rule}: `{k}` is outside the integer fragment read for the job partition of {fname} (undecided)")

    def assign_block(stmt, guard):
        for a in ([stmt] if stmt.get("kind") != "CompoundStmt" else stmt.get("inner", [])):
            a_ = strip(a)
            if a_.get("kind") == "BinaryOperator" and a_.get("opcode") == "=":
                l = strip(a_["inner"][0])
                if l.get("kind") == "DeclRefExpr" and l["referencedDecl"]["id"] in env:
                    did = l["referencedDecl"]["id"]
                    env[did] = sp.Piecewise((tr(a_["inner"][1]), guard), (env[did], True))
                    continue
            raise AnalysisError(f"{rule}: statement under `if` in the job partition of {fname} is not an assignment to a partition variable (undecided)")

    S = E = None
    inner_loop = None
    for st in body.get("inner", []):
        k = st.get("kind")
        if k == "DeclStmt":
            for d in st.get("inner", []):
                if d.get("kind") != "VarDecl":
                    continue
                initn = next((c for c in d.get("inner", []) if isinstance(c, dict)), None)
                ctor = strip(initn) if initn else None
                if isinstance(ctor, dict) and ctor.get("kind") == "CXXConstructExpr" and "GrayCodeCounter" in ctor.get("type", {}).get("qualType", ""):
                    args = ctor.get("inner", [])
                    if len(args) >= 3 and S is None:
                        S = tr(args[-1])
                    continue
                tb = type_bits((d.get("type", {}).get("desugaredQualType") or d.get("type", {}).get("qualType", "")))
                if initn is not None and tb is not None and S is None:
                    try:
                        env[d["id"]] = tr(initn)
                    except AnalysisError:
                        pass  # not an integer expression of the fragment: it cannot be referenced by S or E (tr would raise there)
        elif k == "IfStmt" and (S is None or E is None):
            parts = st.get("inner", [])
            try:
                g = tr(parts[0])
            except AnalysisError:
                continue
            touches = any(x.get("kind") == "BinaryOperator" and x.get("opcode") == "=" and strip(x["inner"][0]).get("kind") == "DeclRefExpr"
                          and strip(x["inner"][0])["referencedDecl"]["id"] in env for x in walk(parts[1]))
            if not touches:
                continue
            assign_block(parts[1], g)
            if len(parts) > 2:
                assign_block(parts[2], sp.Not(g))
        elif k == "BinaryOperator" and st.get("opcode") == "=" and (S is None or E is None):
            l = strip(st["inner"][0])
            if l.get("kind") == "DeclRefExpr" and l["referencedDecl"]["id"] in env:
                env[l["referencedDecl"]["id"]] = tr(st["inner"][1])
        elif k == "CXXMemberCallExpr":
            me = st["inner"][0]
            if me.get("kind") == "MemberExpr" and me.get("name") == "set_offset_max" and len(st["inner"]) > 1:
                E = tr(st["inner"][1])
        elif k == "ForStmt" and S is not None and E is not None and inner_loop is None:
            iv = [n for n in walk(st["inner"][0]) if n.get("kind") == "VarDecl"] if st.get("inner") and st["inner"][0] else []
            if iv:
                init_e = next((c for c in iv[0].get("inner", []) if isinstance(c, dict)), None)
                try:
                    lo = tr(init_e) if init_e else None
                except AnalysisError:
                    lo = None
                if lo is not None and (lo.free_symbols & (S.free_symbols | {j})) and lo != 0:
                    c2 = strip(st["inner"][2])
                    if c2.get("kind") == "BinaryOperator" and c2.get("opcode") in ("<", "<="):
                        hi = tr(c2["inner"][1]) + (1 if c2["opcode"] == "<=" else 0)  # exclusive
                        inner_loop = (lo, hi, line_of(st))
    if S is None or E is None:
        raise AnalysisError(f"{rule}: anchor vanished: the Gray-code counter construction / set_offset_max call in the parallel loop of {fname}")
    M_syms = [v for v in outer.values() if v in (S.free_symbols | E.free_symbols)]
    if len(M_syms) != 1:
        raise AnalysisError(f"{rule}: the job partition of {fname} depends on {sorted(map(str, M_syms))}; expected exactly the range length (undecided)")
    M = M_syms[0]

    def norm_(e):
        e = e.replace(lambda x: isinstance(x, sp.Function) and x.func == idiv and x.args == (M, K), lambda x: q)
        e = e.replace(lambda x: isinstance(x, sp.Function) and x.func == imod and x.args == (M, K), lambda x: r)
        e = e.subs(M, q * K + r)
        if e.atoms(sp.Function) - e.atoms(sp.Piecewise):
            left = [a for a in e.atoms(sp.Function) if a.func in (idiv, imod)]
            if left:
                raise AnalysisError(f"{rule}: the job partition of {fname} divides something other than range/count: {left[0]} (undecided)")
        return e

    S, E = norm_(S), norm_(E)
    Mq = q * K + r
    obligations = [
        ("first job starts at 0", S.subs(j, 0), sp.Integer(0), "j0"),
        ("last job ends at the last index", E.subs(j, K - 1), Mq - 1, "jlast"),
        ("job j+1 starts right after job j ends", S.subs(j, j + 1), E + 1, "jmid"),
    ]
    if inner_loop is not None:
        lo, hi, _ln = inner_loop
        obligations.append(("the job's own loop starts at S+1", norm_(lo), S + 1, "any"))
        obligations.append(("the job's own loop ends at E (inclusive)", norm_(hi), E + 1, "any"))
    else:
        raise AnalysisError(f"{rule}: anchor vanished: the loop over the job's own index range in {fname}")

    def points(dom):
        for Kv in range(1, 10):
            for rv in range(0, Kv):
                for qv in (1, 2, 3):
                    if dom == "j0":
                        js = [0]
                    elif dom == "jlast":
                        js = [Kv - 1]
                    elif dom == "jmid":
                        js = list(range(0, Kv - 1))
                    else:
                        js = list(range(0, Kv))
                    for jv in js:
                        yield {K: Kv, r: rv, q: qv, j: jv}

    def atoms_of(e):
        out = []
        for pw in e.atoms(sp.Piecewise):
            for (_v, c) in pw.args:
                for a in c.atoms(sp.core.relational.Relational):
                    if a not in out:
                        out.append(a)
        return out

    for text, lhs, rhs, dom in obligations:
        resid = lhs - rhs
        ats = atoms_of(resid)
        for a in ats:
            d_ = sp.expand(a.lhs - a.rhs)
            poly = sp.Poly(d_, j, r, K, q) if d_.free_symbols else None
            if poly is not None and (poly.total_degree() > 1 or any(abs(c) > 2 for c in poly.coeffs()) or q in d_.free_symbols):
                raise AnalysisError(f"{rule}: comparison `{a}` in the job partition of {fname} is not a small difference constraint (undecided)")
        cases: Dict[Tuple[bool, ...], List[dict]] = {}
        for pt in points(dom):
            tv = tuple(bool(a.subs(pt)) for a in ats)
            cases.setdefault(tv, []).append(pt)
        ok = True
        witness = None
        undec = None
        for tv, pts in cases.items():
            sub = {a: (sp.true if v else sp.false) for a, v in zip(ats, tv)}
            e = sp.piecewise_fold(resid).subs(sub) if ats else resid
            e = sp.expand(sp.simplify(e)) if e.has(sp.Piecewise) else sp.expand(e)
            # equalities implied by the case: Eq atoms that hold, and pairs of opposite integer inequalities
            ineqs = []
            eqs = []
            for a, v in zip(ats, tv):
                d_ = sp.expand(a.lhs - a.rhs)
                if isinstance(a, sp.Eq):
                    if v:
                        eqs.append(d_)
                    continue
                if isinstance(a, sp.Ne):
                    if not v:
                        eqs.append(d_)
                    continue
                # normalise to g >= 0 over the integers
                if isinstance(a, sp.Lt):
                    g = (-d_ - 1) if v else d_
                elif isinstance(a, sp.Le):
                    g = (-d_) if v else (d_ - 1)
                elif isinstance(a, sp.Gt):
                    g = (d_ - 1) if v else (-d_)
                else:  # Ge
                    g = d_ if v else (-d_ - 1)
                ineqs.append(sp.expand(g))
            # the domain: 0 <= r <= K-1, and the range of j of this obligation
            ineqs += [r, K - 1 - r]
            if dom == "jmid":
                ineqs += [j, K - 2 - j]
            elif dom == "any":
                ineqs += [j, K - 1 - j]
            for g1, g2 in itertools.combinations(ineqs, 2):
                if sp.expand(g1 + g2) == 0:
                    eqs.append(g1)
            for eqn in eqs:
                fs = [v_ for v_ in (j, r, K) if v_ in eqn.free_symbols]
                if fs and e != 0:
                    sol = sp.solve(eqn, fs[0], dict=True)
                    if sol:
                        e = sp.expand(e.subs(sol[0]))
            if e == 0:
                continue
            bad_pt = next((pt for pt in pts if sp.expand(resid.subs(pt)) != 0), None)
            if bad_pt is not None:
                ok = False
                witness = (bad_pt, sp.expand(lhs.subs(bad_pt)), sp.expand(rhs.subs(bad_pt)))
                break
            undec = (tv, e)
        key = key_base + "|partition|" + text
        if ok and undec is not None:
            raise AnalysisError(f"{rule}: `{text}` of the job partition in {fname} is neither proved nor refuted (residual {undec[1]} in case {undec[0]})")
        ctx.obligation(rule, key, ok, f"src/{fname}:{line_of(loop)}", cases=len(cases), S=str(S), E=str(E))
        if not ok:
            pt, lv, rv_ = witness
            Mv = pt[q] * pt[K] + pt[r]
            ctx.violation(rule, key, path, line_of(loop),
                          f"the jobs of the parallel loop do not tile the Gray-code range: `{text}` fails, e.g. for range {Mv} split into "
                          f"{pt[K]} jobs at job {pt[j]}: got {lv}, needed {rv_} (S(j) = {S}, E(j) = {E}); indices are dropped or counted twice, so the "
                          f"permanent depends on the number of hardware threads", f"S={S}; E={E}"[:160])


def _decl_name(root, did) -> str:
    for n in walk(root):
        if n.get("kind") == "DeclRefExpr" and n.get("referencedDecl", {}).get("id") == did:
            return n["referencedDecl"].get("name", "?")
    return "?"
