"""E3 — forward may-alias / effect analysis: who may mutate what.

Abstract value of an expression = a set of *origins* of the storage it may alias:
    ("user", what)     a user-owned parameter object (instruction.params[...], _get_all_params(...)[...])
    ("memo", name)     the cached result object of a memoised function (every caller shares it)
    ("param", i)       the function's own i-th parameter (for summaries)
    ("cnp", what)      an array created through a connector's `np` in connector-generic code (C09b)
A value also carries `elem`: origins of the *elements* of a container (list/dict/tuple) it denotes.

Per function the analysis interprets the statements in order (branches are merged by union, loop
bodies are interpreted twice) and records
  - in-place writes whose target aliases a non-empty origin set,
  - a summary: which parameters the function may write, and what its return value may alias.
Summaries are iterated to a fixpoint over the package.

Alias rules (DESIGN E3): numpy subscript *store* copies data; list/dict stores keep the reference;
row iteration, basic indexing/slicing, .T/.real/.reshape/np.asarray are views; np.copy/.copy()/
deepcopy/np.array/.astype/arithmetic/fancy indexing are fresh.
"""

from __future__ import annotations

import ast
from dataclasses import dataclass, field
from typing import Dict, FrozenSet, Iterable, List, Optional, Set, Tuple

from .callgraph import Resolver, is_connector_expr, is_njit
from .index import ClassInfo, FuncInfo, Index, dotted, norm

Origin = Tuple[str, object]

FRESH_FUNCS = {
    "copy", "deepcopy", "array", "zeros", "ones", "empty", "zeros_like", "ones_like", "empty_like", "full", "full_like",
    "identity", "eye", "arange", "linspace", "concatenate", "stack", "vstack", "hstack", "block", "column_stack", "outer",
    "kron", "dot", "matmul", "einsum", "tensordot", "sum", "prod", "cumsum", "cumprod", "abs", "sqrt", "exp", "log",
    "sin", "cos", "tan", "sinh", "cosh", "tanh", "power", "add", "subtract", "multiply", "divide", "mod", "rint",
    "round", "floor", "ceil", "sort", "argsort", "unique", "where", "delete", "insert", "append", "repeat", "tile",
    "pad", "roll", "flip", "fliplr", "flipud", "triu", "tril", "diag", "trace", "linalg", "inv", "det", "eig", "eigh",
    "eigvals", "eigvalsh", "svd", "qr", "cholesky", "solve", "norm", "isclose", "allclose", "all", "any", "max",
    "min", "argmax", "argmin", "mean", "var", "std", "float", "int", "complex", "len", "tuple_of_fresh", "astype",
    "tolist", "list_copy", "fromiter", "meshgrid", "ix_", "nonzero", "flatnonzero", "count_nonzero", "conjugate_copy",
    "angle", "sign", "clip", "maximum", "minimum", "isscalar", "shape", "size", "ndim", "isreal", "iscomplex",
    "real_if_close", "nan_to_num", "broadcast_arrays_copy", "take", "choose", "compress", "searchsorted", "bincount",
    "histogram", "cov", "corrcoef", "cross", "vdot", "inner", "sqrtm", "expm", "logm", "polar", "schur", "block_diag",
    "factorial", "comb", "binom", "deepcopy",
}
VIEW_FUNCS = {"asarray", "asanyarray", "ascontiguousarray", "reshape", "transpose", "ravel", "squeeze", "atleast_1d",
              "atleast_2d", "swapaxes", "moveaxis", "expand_dims", "real", "imag", "conj", "conjugate", "broadcast_to",
              "diagonal", "split", "array_split", "hsplit", "vsplit", "flatiter", "nditer", "iter", "reversed", "enumerate", "zip"}
VIEW_METHODS = {"reshape", "transpose", "ravel", "squeeze", "view", "swapaxes", "conj", "conjugate", "diagonal",
                "values", "items", "keys", "get", "setdefault_read", "__iter__", "flat"}
VIEW_ATTRS = {"T", "real", "imag", "flat", "mT", "H"}
FRESH_METHODS = {"copy", "astype", "flatten", "tolist", "sum", "prod", "mean", "dot", "round", "clip", "cumsum",
                 "nonzero", "argsort", "max", "min", "all", "any", "trace", "repeat", "take", "numpy", "item", "tobytes",
                 "__deepcopy__", "__copy__", "index", "count", "join", "format", "split_str", "strip", "lower", "upper"}
MUTATING_METHODS = {"sort", "fill", "resize", "itemset", "put", "partition", "byteswap_inplace", "setflags", "setfield",
                    "append", "extend", "insert", "remove", "clear", "reverse", "update", "pop", "popitem", "setdefault",
                    "add", "discard", "difference_update", "intersection_update", "symmetric_difference_update", "appendleft",
                    "popleft", "extendleft", "rotate"}
NP_INPLACE_FUNCS = {"fill_diagonal": 0, "put": 0, "copyto": 0, "place": 0, "putmask": 0, "put_along_axis": 0, "shuffle": 0}


@dataclass(frozen=True)
class Val:
    own: FrozenSet[Origin] = frozenset()
    elem: FrozenSet[Origin] = frozenset()

    def join(self, o: "Val") -> "Val":
        return Val(self.own | o.own, self.elem | o.elem)

    def all(self) -> FrozenSet[Origin]:
        return self.own | self.elem

    def __bool__(self) -> bool:
        return bool(self.own or self.elem)


EMPTY = Val()


@dataclass
class Write:
    fn: FuncInfo
    node: ast.AST
    line: int
    how: str  # subscript-store | aug-assign | method:<name> | call:<callee> writes its parameter | np.<f>
    target: str
    origins: FrozenSet[Origin]


@dataclass
class Summary:
    writes: Set[int] = field(default_factory=set)  # parameter indices the function may write in place
    returns: Val = field(default_factory=Val)  # what the return value may alias (param origins are relative)
    write_how: Dict[int, str] = field(default_factory=dict)


class Analysis:
    def __init__(self, idx: Index, res: Resolver, options: Optional[dict] = None):
        self.idx = idx
        self.res = res
        self.opt = {"track_cnp": False, "connector_assign_writes": True, "user_params": {}, "user_attrs": ()}
        self.opt.update(options or {})
        self.memo_funcs: Dict[int, str] = {}  # id(FuncInfo.node) → name (decorated)
        self.memo_names: Dict[Tuple[str, str], str] = {}  # (module, name) → label (wrapper assignment)
        self._find_memoised()
        self.summaries: Dict[int, Summary] = {}
        self.writes: List[Write] = []
        self.class_attr_origins: Dict[Tuple[str, str], Val] = {}
        self.functions: List[FuncInfo] = []
        self._instr_base = idx.find_class("piquasso.api.instruction", "Instruction")

    # ---- memoised callables ------------------------------------------------------------------
    def _find_memoised(self) -> None:
        for m in self.idx.modules.values():
            for f in list(m.functions.values()) + [x for c in m.classes.values() for x in c.methods.values()]:
                if any(d.split(".")[-1] in ("lru_cache", "cache", "cached_property") for d in f.decorators):
                    self.memo_funcs[id(f.node)] = f.qualname
            for name, expr in m.assigns.items():
                if isinstance(expr, ast.Call) and isinstance(expr.func, ast.Call):
                    inner = dotted(expr.func.func) or ""
                    if inner.split(".")[-1] in ("lru_cache", "cache"):
                        self.memo_names[(m.name, name)] = f"{m.name}:{name}"

    def memo_label_of_call(self, fn: FuncInfo, call: ast.Call) -> Optional[str]:
        f = call.func
        # wrapper assignment: name resolves (through imports) to a module-level `x = lru_cache(...)(f)`
        if isinstance(f, (ast.Name, ast.Attribute)):
            r = self._resolve_binding(fn.module, f)
            if r is not None and r in self.memo_names:
                return self.memo_names[r]
        for t in self.res.resolve_call(fn, call):
            if id(t.node) in self.memo_funcs:
                # a decorated *nested* function closing over per-call state is also shared within that call only
                if ".<locals>." in t.qualname:
                    return None
                return self.memo_funcs[id(t.node)]
        if isinstance(f, ast.Name):
            loc = self.res.local_defs(fn).get(f.id)
            if loc is not None and any(d.split(".")[-1] in ("lru_cache", "cache") for d in loc.decorators):
                return None
        return None

    def _resolve_binding(self, m, node, depth=0) -> Optional[Tuple[str, str]]:
        """Follow imports to the (module, name) of a module-level binding."""
        if depth > 10:
            return None
        if isinstance(node, ast.Name):
            name = node.id
            if name in m.assigns and (m.name, name) in self.memo_names:
                return (m.name, name)
            if name in m.imports:
                mod, attr = m.imports[name]
                if attr is not None and mod in self.idx.modules:
                    return self._resolve_binding(self.idx.modules[mod], ast.Name(id=attr), depth + 1)
            return None
        if isinstance(node, ast.Attribute):
            base = self.idx.resolve_expr(m, node.value)
            from .index import ModuleInfo
            if isinstance(base, ModuleInfo):
                return self._resolve_binding(base, ast.Name(id=node.attr), depth + 1)
        return None

    # ---- driver ------------------------------------------------------------------------------------
    def run(self, functions: Iterable[FuncInfo], rounds: int = 6) -> None:
        self.functions = list(functions)
        # include nested functions as their own units (closures see outer env conservatively: not modelled)
        units: List[FuncInfo] = []
        for f in self.functions:
            units.append(f)
            units.extend(self.res.local_defs(f).values())
        seen = set()
        self.units = [u for u in units if not (id(u.node) in seen or seen.add(id(u.node)))]
        for u in self.units:
            self.summaries[id(u.node)] = Summary()
        for _ in range(rounds):
            changed = False
            self.writes = []
            for u in self.units:
                before = (set(self.summaries[id(u.node)].writes), self.summaries[id(u.node)].returns)
                guards = repeated_guards(u.node)[:3]
                if guards:
                    import itertools
                    for combo in itertools.product((True, False), repeat=len(guards)):
                        FuncInterp(self, u, dict(zip(guards, combo))).run()
                else:
                    FuncInterp(self, u).run()
                after = (self.summaries[id(u.node)].writes, self.summaries[id(u.node)].returns)
                if before[0] != after[0] or before[1] != after[1]:
                    changed = True
            if not changed:
                break

    def summary(self, fn: FuncInfo) -> Summary:
        return self.summaries.get(id(fn.node), Summary())


def _guard_name(test: ast.AST) -> Optional[Tuple[str, bool]]:
    pol = True
    while isinstance(test, ast.UnaryOp) and isinstance(test.op, ast.Not):
        pol = not pol
        test = test.operand
    if isinstance(test, ast.Name):
        return test.id, pol
    return None


def repeated_guards(fn_node: ast.AST) -> List[str]:
    """Names used as the whole test of >= 2 `if` statements and bound exactly once (same-guard correlation)."""
    counts: Dict[str, int] = {}
    for n in ast.walk(fn_node):
        if isinstance(n, ast.If):
            g = _guard_name(n.test)
            if g:
                counts[g[0]] = counts.get(g[0], 0) + 1
    binds: Dict[str, int] = {}
    for n in ast.walk(fn_node):
        if isinstance(n, ast.Name) and isinstance(n.ctx, ast.Store):
            binds[n.id] = binds.get(n.id, 0) + 1
    return sorted(k for k, v in counts.items() if v >= 2 and binds.get(k, 0) == 1)


class FuncInterp:
    def __init__(self, an: Analysis, fn: FuncInfo, assume: Optional[Dict[str, bool]] = None):
        self.an = an
        self.fn = fn
        self.assume = assume or {}
        self.env: Dict[str, Val] = {}
        self.sum = an.summaries[id(fn.node)]
        a = fn.node.args
        self.params = [x.arg for x in a.posonlyargs + a.args + a.kwonlyargs]
        if a.vararg:
            self.params.append(a.vararg.arg)
        if a.kwarg:
            self.params.append(a.kwarg.arg)
        for i, p in enumerate(self.params):
            self.env[p] = Val(frozenset({("param", i)}))
        for pname in an.opt.get("user_params", {}).get(fn.qualname, ()):
            if pname in self.env:
                self.env[pname] = self.env[pname].join(Val(frozenset({("user", f"argument `{pname}` of {fn.name}")}),
                                                           frozenset({("user", f"elements of argument `{pname}` of {fn.name}")})))
        self.np_aliases_cnp: Set[str] = set()  # local names bound to connector.np (C09b)
        self.np_aliases_host: Set[str] = set()  # local names bound to fallback_np / numpy module
        self.static_guard_np: Set[str] = set()
        self.is_instr_method = fn.cls is not None and fn.cls.is_subclass_of(an._instr_base)
        outer = None

    # ---- entry ---------------------------------------------------------------------------------------
    def run(self) -> None:
        self.block(self.fn.node.body)

    def block(self, stmts: List[ast.stmt]) -> None:
        for s in stmts:
            self.stmt(s)

    def merge_env(self, a: Dict[str, Val], b: Dict[str, Val]) -> Dict[str, Val]:
        out = dict(a)
        for k, v in b.items():
            out[k] = out[k].join(v) if k in out else v
        return out

    def stmt(self, s: ast.stmt) -> None:
        if isinstance(s, ast.Assign):
            v = self.val(s.value)
            for t in s.targets:
                self.assign(t, v, s.value, s)
        elif isinstance(s, ast.AnnAssign):
            if s.value is not None:
                self.assign(s.target, self.val(s.value), s.value, s)
        elif isinstance(s, ast.AugAssign):
            rhs = self.val(s.value)
            t = s.target
            if isinstance(t, ast.Name):
                cur = self.env.get(t.id, EMPTY)
                if cur.own and not self._scalar_like(t.id):
                    self.write(s, "aug-assign", norm(t), cur.own)
            elif isinstance(t, ast.Subscript):
                base = self.val(t.value)
                if base.own:
                    self.write(s, "aug-assign", norm(t), base.own)
            elif isinstance(t, ast.Attribute):
                pass
        elif isinstance(s, ast.Expr):
            self.val(s.value)
        elif isinstance(s, ast.Return):
            if s.value is not None:
                v = self.val(s.value)
                self.sum.returns = self.sum.returns.join(v)
        elif isinstance(s, ast.If):
            self.val(s.test)
            g = _guard_name(s.test)
            if g is not None and g[0] in self.assume:
                self.block(s.body if self.assume[g[0]] == g[1] else s.orelse)
                return
            saved = dict(self.env)
            saved_np = (set(self.np_aliases_cnp), set(self.np_aliases_host))
            self.block(s.body)
            e1 = self.env
            np1 = (set(self.np_aliases_cnp), set(self.np_aliases_host))
            self.env = dict(saved)
            self.np_aliases_cnp, self.np_aliases_host = set(saved_np[0]), set(saved_np[1])
            self.block(s.orelse)
            self.env = self.merge_env(e1, self.env)
            self.np_aliases_cnp |= np1[0]
            self.np_aliases_host |= np1[1]
        elif isinstance(s, (ast.For, ast.AsyncFor)):
            it = self.val(s.iter)
            elemv = Val(it.own | it.elem, it.elem)
            for _ in range(2):
                self.assign(s.target, elemv, s.iter, s, iteration=True)
                self.block(s.body)
            self.block(s.orelse)
        elif isinstance(s, ast.While):
            self.val(s.test)
            for _ in range(2):
                self.block(s.body)
            self.block(s.orelse)
        elif isinstance(s, (ast.With, ast.AsyncWith)):
            for item in s.items:
                v = self.val(item.context_expr)
                if item.optional_vars is not None:
                    self.assign(item.optional_vars, v, item.context_expr, s)
            self.block(s.body)
        elif isinstance(s, ast.Try):
            self.block(s.body)
            for h in s.handlers:
                self.block(h.body)
            self.block(s.orelse)
            self.block(s.finalbody)
        elif isinstance(s, (ast.FunctionDef, ast.AsyncFunctionDef, ast.ClassDef)):
            pass
        elif isinstance(s, ast.Delete):
            pass
        elif isinstance(s, (ast.Raise, ast.Assert)):
            for c in ast.iter_child_nodes(s):
                if isinstance(c, ast.expr):
                    self.val(c)

    def _scalar_like(self, name: str) -> bool:
        return False

    # ---- assignment ---------------------------------------------------------------------------------------
    def assign(self, target: ast.AST, v: Val, src: ast.AST, stmt: ast.AST, iteration: bool = False) -> None:
        if isinstance(target, ast.Name):
            self.env[target.id] = v
            # np aliases
            if isinstance(src, ast.Attribute) and src.attr in ("np", "_np", "forward_pass_np") and (
                    is_connector_expr(src.value) or src.attr == "_np"):
                self.np_aliases_cnp.add(target.id)
                self.np_aliases_host.discard(target.id)
            elif isinstance(src, ast.Attribute) and src.attr in ("fallback_np",):
                self.np_aliases_host.add(target.id)
                self.np_aliases_cnp.discard(target.id)
        elif isinstance(target, (ast.Tuple, ast.List)):
            # unpacking: each element may alias the elements of v
            ev = Val(v.own | v.elem, v.elem)
            if isinstance(src, (ast.Tuple, ast.List)) and len(src.elts) == len(target.elts):
                for t, e in zip(target.elts, src.elts):
                    self.assign(t, self.val(e), e, stmt)
            else:
                for t in target.elts:
                    if isinstance(t, ast.Starred):
                        t = t.value
                    self.assign(t, ev, src, stmt)
        elif isinstance(target, ast.Subscript):
            base = self.val(target.value)
            if base.own:
                self.write(stmt, "subscript-store", norm(target), base.own)
            # container store keeps the reference (lists/dicts); ndarray store copies. Unknown kind: keep elem.
            if isinstance(target.value, ast.Name) and v.own:
                cur = self.env.get(target.value.id, EMPTY)
                if self._is_container(target.value.id):
                    self.env[target.value.id] = Val(cur.own, cur.elem | v.own | v.elem)
        elif isinstance(target, ast.Attribute):
            # x.attr = value on (an element of) a memoised result mutates what every later caller receives
            if not (isinstance(target.value, ast.Name) and target.value.id == "self"):
                bv_ = self.val(target.value)
                memo_ = frozenset(o for o in bv_.own if o[0] == "memo")
                if memo_:
                    self.write(stmt, "attribute-store", norm(target), memo_)
            # self.attr = value: recorded for class attribute origins
            if isinstance(target.value, ast.Name) and target.value.id == "self" and self.fn.cls is not None:
                key = (self.fn.cls.qualname, target.attr)
                cur = self.an.class_attr_origins.get(key, EMPTY)
                pv = Val(frozenset(o for o in v.own if o[0] != "param"), frozenset(o for o in v.elem if o[0] != "param"))
                self.an.class_attr_origins[key] = cur.join(pv)
        elif isinstance(target, ast.Starred):
            self.assign(target.value, v, src, stmt)

    def _is_container(self, name: str) -> bool:
        """A local initialised as a list/dict/set literal or constructor."""
        for n in ast.walk(self.fn.node):
            if isinstance(n, ast.Assign) and any(isinstance(t, ast.Name) and t.id == name for t in n.targets):
                v = n.value
                if isinstance(v, (ast.List, ast.Dict, ast.Set, ast.ListComp, ast.DictComp, ast.SetComp)):
                    return True
                if isinstance(v, ast.Call) and dotted(v.func) in ("list", "dict", "set", "defaultdict", "OrderedDict", "collections.defaultdict"):
                    return True
        return False

    # ---- writes ----------------------------------------------------------------------------------------------
    def write(self, node: ast.AST, how: str, target: str, origins: FrozenSet[Origin]) -> None:
        for o in origins:
            if o[0] == "param":
                self.sum.writes.add(o[1])
                self.sum.write_how.setdefault(o[1], f"{how} on `{target}` at {self.fn.qualname}:{getattr(node, 'lineno', 0)}")
        real = frozenset(o for o in origins if o[0] != "param")
        if real:
            self.an.writes.append(Write(self.fn, node, getattr(node, "lineno", 0), how, target, real))

    # ---- expressions ------------------------------------------------------------------------------------------
    def val(self, e: Optional[ast.AST]) -> Val:
        if e is None:
            return EMPTY
        if isinstance(e, ast.Name):
            return self.env.get(e.id, EMPTY)
        if isinstance(e, ast.Constant):
            return EMPTY
        if isinstance(e, ast.Attribute):
            return self.attr(e)
        if isinstance(e, ast.Subscript):
            return self.subscript(e)
        if isinstance(e, ast.Call):
            return self.call(e)
        if isinstance(e, (ast.Tuple, ast.List, ast.Set)):
            elem = frozenset()
            for x in e.elts:
                xv = self.val(x.value if isinstance(x, ast.Starred) else x)
                elem |= xv.own | xv.elem
            return Val(frozenset(), elem)
        if isinstance(e, ast.Dict):
            elem = frozenset()
            for k, x in zip(e.keys, e.values):
                xv = self.val(x)
                elem |= (xv.own | xv.elem) if k is not None else xv.elem
            return Val(frozenset(), elem)
        if isinstance(e, (ast.ListComp, ast.SetComp, ast.GeneratorExp, ast.DictComp)):
            saved = dict(self.env)
            for g in e.generators:
                it = self.val(g.iter)
                self.assign(g.target, Val(it.own | it.elem, it.elem), g.iter, e, iteration=True)
                for c in g.ifs:
                    self.val(c)
            if isinstance(e, ast.DictComp):
                xv = self.val(e.value)
                self.val(e.key)
            else:
                xv = self.val(e.elt)
            self.env = saved
            return Val(frozenset(), xv.own | xv.elem)
        if isinstance(e, ast.IfExp):
            self.val(e.test)
            return self.val(e.body).join(self.val(e.orelse))
        if isinstance(e, ast.BoolOp):
            out = EMPTY
            for x in e.values:
                out = out.join(self.val(x))
            return out
        if isinstance(e, (ast.BinOp, ast.UnaryOp, ast.Compare)):
            cnp = frozenset()
            for c in ast.iter_child_nodes(e):
                if isinstance(c, ast.expr):
                    v = self.val(c)
                    cnp |= frozenset(o for o in v.own if o[0] == "cnp")
            # arithmetic produces a fresh value; with a connector-array operand it is again a connector array
            return Val(cnp) if (cnp and self.an.opt["track_cnp"] and not isinstance(e, ast.Compare)) else EMPTY
        if isinstance(e, ast.Lambda):
            return EMPTY
        if isinstance(e, ast.Starred):
            return self.val(e.value)
        if isinstance(e, ast.NamedExpr):
            v = self.val(e.value)
            self.assign(e.target, v, e.value, e)
            return v
        if isinstance(e, (ast.JoinedStr, ast.FormattedValue)):
            return EMPTY
        if isinstance(e, ast.Await):
            return self.val(e.value)
        if isinstance(e, ast.Slice):
            return EMPTY
        return EMPTY

    def attr(self, e: ast.Attribute) -> Val:
        base = e.value
        if e.attr in VIEW_ATTRS:
            return self.val(base)
        # user parameter dicts
        if e.attr in ("params", "_params") and not (isinstance(base, ast.Name) and base.id == "self" and not self.is_instr_method):
            if self._is_instruction_expr(base):
                return Val(frozenset({("user", f"{norm(e)}")}), frozenset({("user", f"{norm(e)}[...]")}))
        # the instruction list of a Program is a user-owned container
        if e.attr in self.an.opt.get("user_attrs", ()):
            return Val(frozenset({("user", norm(e))}), frozenset({("user", norm(e) + "[...]")}))
        if isinstance(base, ast.Name) and base.id == "self" and self.fn.cls is not None:
            for c in self.fn.cls.mro():
                k = (c.qualname, e.attr)
                if k in self.an.class_attr_origins:
                    return self.an.class_attr_origins[k]
            # property returning an alias
            meth = self.fn.cls.find_method(e.attr)
            if meth is not None and any(d in ("property",) for d in meth.decorators):
                return self._subst_return(self.an.summary(meth), [self.env.get("self", EMPTY)])
            return EMPTY
        bv = self.val(base)
        # whatever is reachable from a memoised object through its attributes belongs to the memoised result
        memo = frozenset(o for o in (bv.own | bv.elem) if o[0] == "memo")
        if memo and e.attr not in ("shape", "dtype", "ndim", "size"):
            return Val(memo, memo)
        return EMPTY if not bv else Val(frozenset(), frozenset())

    def _is_instruction_expr(self, base: ast.AST) -> bool:
        if isinstance(base, ast.Name):
            if base.id == "self":
                return self.is_instr_method
            if "instruction" in base.id.lower() or base.id in ("other", "gate", "preparation", "measurement", "operation"):
                return True
            ann = self.an.res.param_annotation_class(self.fn, base.id)
            if ann is not None and ann.is_subclass_of(self.an._instr_base):
                return True
        return False

    def subscript(self, e: ast.Subscript) -> Val:
        base = self.val(e.value)
        self.val(e.slice)
        if not base:
            # instruction._get_all_params(c)["x"]
            return EMPTY
        if self._fancy_index(e.slice):
            return Val(base.elem, base.elem) if not base.own else Val(frozenset(), frozenset())
        return Val(base.own | base.elem, base.elem)

    def _fancy_index(self, sl: ast.AST) -> bool:
        if isinstance(sl, ast.List):
            return True
        if isinstance(sl, ast.Compare):
            return True
        if isinstance(sl, ast.Call):
            n = dotted(sl.func) or ""
            if n.split(".")[-1] in ("ix_", "where", "nonzero", "array", "argsort", "arange", "flatnonzero", "tuple", "list"):
                return True
        if isinstance(sl, ast.Tuple):
            if len(sl.elts) == 1 and isinstance(sl.elts[0], ast.Name):
                return True  # the repository's `x[modes,]` idiom: index with a tuple of modes
            return any(self._fancy_index(x) for x in sl.elts if not isinstance(x, (ast.Slice, ast.Constant)))
        return False

    # ---- calls ---------------------------------------------------------------------------------------------------
    def call(self, c: ast.Call) -> Val:
        f = c.func
        argv = [self.val(a.value if isinstance(a, ast.Starred) else a) for a in c.args]
        kwv = {k.arg: self.val(k.value) for k in c.keywords}
        fname = dotted(f) or ""
        last = fname.split(".")[-1] if fname else (f.attr if isinstance(f, ast.Attribute) else "")

        # out= keyword
        if "out" in kwv and kwv["out"].own:
            self.write(c, "out= argument", "out", kwv["out"].own)

        # memoised result
        label = self.an.memo_label_of_call(self.fn, c)
        if label is not None:
            return Val(frozenset({("memo", label)}), frozenset({("memo", label)}))

        # user parameter access
        if isinstance(f, ast.Attribute) and f.attr == "_get_all_params" and self._is_instruction_expr(f.value):
            return Val(frozenset(), frozenset({("user", f"{norm(f.value)}._get_all_params(...)[...]")}))

        # numpy-level in-place functions
        if last in NP_INPLACE_FUNCS and (fname.startswith(("np.", "numpy.", "fallback_np.")) or isinstance(f, ast.Attribute)):
            i = NP_INPLACE_FUNCS[last]
            if i < len(argv) and argv[i].own and self._is_np_module(f):
                self.write(c, f"np.{last}", norm(c.args[i]), argv[i].own)
            return EMPTY

        if isinstance(f, ast.Attribute):
            recv = f.value
            rv = self.val(recv)
            # mutating methods on an aliased receiver
            if f.attr in MUTATING_METHODS and rv.own and not self._is_np_module(f):
                if not (f.attr in ("pop", "setdefault", "get") and False):
                    self.write(c, f"method:{f.attr}", norm(recv), rv.own)
            if f.attr in ("append", "extend", "insert", "add", "update", "appendleft") and isinstance(recv, ast.Name):
                cur = self.env.get(recv.id, EMPTY)
                add = frozenset()
                for a in argv:
                    add |= (a.own | a.elem) if f.attr in ("append", "add", "insert", "appendleft") else a.elem
                self.env[recv.id] = Val(cur.own, cur.elem | add)
                return EMPTY
            # connector.assign(a, index, value)
            if f.attr == "assign" and is_connector_expr(recv) and argv:
                if self.an.opt["connector_assign_writes"] and frozenset(o for o in argv[0].own if o[0] != "cnp"):
                    self.write(c, "connector.assign (writes its first argument under the NumPy connector)", norm(c.args[0]),
                               frozenset(o for o in argv[0].own if o[0] != "cnp"))
                return argv[0]
            if f.attr in VIEW_METHODS and not self._is_np_module(f):
                return Val(rv.own | (rv.elem if f.attr in ("values", "items", "get") else frozenset()), rv.elem)
            if f.attr in FRESH_METHODS and not self._is_np_module(f):
                if f.attr == "copy" and rv.elem and not rv.own:
                    return Val(frozenset(), rv.elem)  # shallow copy of a container keeps element references
                if f.attr == "copy":
                    return Val(frozenset(), rv.elem if self._is_container_expr(recv) else frozenset())
                return EMPTY
            # copy.copy(x): a shallow copy - the new object's attributes and elements are the original's
            if last == "copy" and (dotted(f) or "") == "copy.copy" and argv:
                return Val(frozenset(), argv[0].own | argv[0].elem)
            if self._is_np_module(f):
                if self.an.opt["track_cnp"] and self._is_connector_np(f) and last not in ("isscalar", "shape", "size", "ndim", "allclose", "isclose", "any", "all", "sum", "prod", "max", "min", "trace", "real_if_close"):
                    inherited = frozenset()
                    if last in VIEW_FUNCS and argv:
                        inherited = argv[0].own
                    return Val(inherited | frozenset({("cnp", f"{norm(f)}(...) at line {c.lineno}")}))
                if last in VIEW_FUNCS and argv:
                    if last in ("zip", "enumerate"):
                        el = frozenset()
                        for a in argv:
                            el |= a.own | a.elem
                        return Val(frozenset(), el)
                    return argv[0]
                return EMPTY

        if isinstance(f, ast.Name):
            if f.id in ("zip", "enumerate", "reversed", "iter", "sorted", "list", "tuple", "set", "frozenset", "filter", "map"):
                el = frozenset()
                for a in argv:
                    el |= a.own | a.elem if f.id in ("zip", "enumerate") else a.elem
                if f.id in ("zip", "enumerate"):
                    return Val(frozenset(), el)
                return Val(frozenset(), el)
            if f.id in ("dict",):
                el = frozenset()
                for v in kwv.values():
                    el |= v.own | v.elem
                for a in argv:
                    el |= a.elem
                return Val(frozenset(), el)
            if f.id in ("deepcopy", "copy", "float", "int", "complex", "len", "str", "repr", "bool", "abs", "sum", "min", "max",
                        "range", "isinstance", "callable", "type", "print", "round", "any", "all", "hasattr", "getattr", "id"):
                return EMPTY
            if f.id == "cast" and len(argv) == 2:
                return argv[1]

        # resolved in-package callee: apply its summary
        targets = self.an.res.resolve_call(self.fn, c)
        out = EMPTY
        for t in targets:
            s = self.an.summaries.get(id(t.node))
            if s is None:
                continue
            tparams = [x.arg for x in t.node.args.posonlyargs + t.node.args.args + t.node.args.kwonlyargs]
            off = 0
            recv_val = None
            if t.cls is not None and tparams and tparams[0] in ("self", "cls") and not any(d == "staticmethod" for d in t.decorators):
                if isinstance(f, ast.Attribute):
                    off = 1
                    recv_val = self.val(f.value)
                elif t.name == "__init__":
                    off = 1
            actual: Dict[int, Val] = {}
            actual_expr: Dict[int, ast.AST] = {}
            if recv_val is not None:
                actual[0] = recv_val
                actual_expr[0] = f.value  # type: ignore[union-attr]
            for i, a in enumerate(argv):
                actual[i + off] = a
                actual_expr[i + off] = c.args[i]
            for kw in c.keywords:
                if kw.arg in tparams:
                    actual[tparams.index(kw.arg)] = kwv[kw.arg]
                    actual_expr[tparams.index(kw.arg)] = kw.value
            for wi in s.writes:
                av = actual.get(wi)
                if av is not None and av.own:
                    self.write(c, f"call:{t.qualname} writes its parameter `{tparams[wi] if wi < len(tparams) else wi}` "
                                  f"({s.write_how.get(wi, '')})", norm(actual_expr[wi])[:80] if wi in actual_expr else norm(c)[:80], av.own)
            out = out.join(self._subst_return(s, actual))
        return out

    def _subst_return(self, s: Summary, actual) -> Val:
        def sub(origs):
            res = frozenset()
            el = frozenset()
            for o in origs:
                if o[0] == "param":
                    av = actual.get(o[1]) if isinstance(actual, dict) else (actual[o[1]] if o[1] < len(actual) else None)
                    if av is not None:
                        res |= av.own
                        el |= av.elem
                else:
                    res |= {o}
            return res, el
        own, e1 = sub(s.returns.own)
        elem, e2 = sub(s.returns.elem)
        return Val(own, elem | e2 | (e1 if False else frozenset()))

    def _is_container_expr(self, e: ast.AST) -> bool:
        return isinstance(e, ast.Name) and self._is_container(e.id)

    def _is_connector_np(self, f: ast.AST) -> bool:
        """connector.np.xxx / <alias of connector.np>.xxx / state._np.xxx: an array factory of the *connector's* backend."""
        if not isinstance(f, ast.Attribute):
            return False
        v = f.value
        if isinstance(v, ast.Name):
            return v.id in self.np_aliases_cnp and v.id not in self.np_aliases_host
        if isinstance(v, ast.Attribute) and v.attr in ("np", "forward_pass_np") and is_connector_expr(v.value):
            return True
        if isinstance(v, ast.Attribute) and v.attr == "_np":
            return True
        return False

    def _is_np_module(self, f: ast.AST) -> bool:
        """np.xxx / fallback_np.xxx / connector.np.xxx / scipy.linalg.xxx (module-level function, not a method on data)."""
        if not isinstance(f, ast.Attribute):
            return False
        v = f.value
        name = dotted(v) or ""
        head = name.split(".")[0]
        if head in ("np", "numpy", "fallback_np", "scipy", "jnp", "tf", "math", "cmath", "itertools", "functools", "copy", "nb", "numba"):
            return True
        if name.endswith(".np") or name.endswith(".fallback_np") or name.endswith(".forward_pass_np") or name.endswith("linalg"):
            return True
        if isinstance(v, ast.Name) and (v.id in self.np_aliases_cnp or v.id in self.np_aliases_host):
            return True
        return False
