"""E5 — homogeneity ("hbar-degree") typing.

Every numeric expression gets a degree q0 + q1*d (d = number of modes) such that scaling hbar -> lambda*hbar
scales its value by lambda^degree.  Seeds: config.hbar : 1; the ladder moments _m, _C, _G, literals, angles : 0;
instruction parameters per the table in the rules.  Typing rules: * @ outer einsum add; / subtracts; + - block
concatenate where isclose require equal degrees (identity / symplectic forms force 0); sqrt halves; ** multiplies;
exp log trig require 0; inv negates; det multiplies by the matrix dimension; everything shape-preserving keeps it.
In-package callees are analysed with the degrees of their arguments (memoised).  An ill-typed + or a wrong
final degree is a finding; anything outside the typed fragment on a path to an obligation is UNDECIDED.
"""

from __future__ import annotations

import ast
from dataclasses import dataclass, field
from fractions import Fraction
from typing import Any, Callable, Dict, List, Optional, Tuple

from .callgraph import Resolver
from .index import ClassInfo, FuncInfo, Index, dotted, norm

Lin = Tuple[Fraction, Fraction]  # q0 + q1 * d
ZERO: Lin = (Fraction(0), Fraction(0))
ONE: Lin = (Fraction(1), Fraction(0))
HALF: Lin = (Fraction(1, 2), Fraction(0))


def ladd(a: Lin, b: Lin) -> Lin:
    return (a[0] + b[0], a[1] + b[1])


def lsub(a: Lin, b: Lin) -> Lin:
    return (a[0] - b[0], a[1] - b[1])


def lscale(a: Lin, k: Fraction) -> Lin:
    return (a[0] * k, a[1] * k)


def lfmt(a: Optional[Lin]) -> str:
    if a is None:
        return "?"
    q0, q1 = a
    if q1 == 0:
        return str(q0)
    s = f"{q1}*d" if q1 != 1 else "d"
    if q1 == -1:
        s = "-d"
    return s if q0 == 0 else f"{q0}+{s}"


@dataclass
class T:
    """Abstract value."""
    kind: str = "num"  # num | poly (degree-polymorphic zero) | state | kernel | tuple | int | unknown | none
    deg: Optional[Lin] = None
    dim: Optional[Lin] = None  # size of a square matrix / vector, as a + b*d
    items: Optional[List["T"]] = None
    why: str = ""
    cls: Optional[ClassInfo] = None

    @staticmethod
    def num(deg: Lin, dim: Optional[Lin] = None) -> "T":
        return T("num", deg, dim)

    @staticmethod
    def unknown(why: str) -> "T":
        return T("unknown", None, None, None, why)

    def is_num(self) -> bool:
        return self.kind in ("num", "poly", "int")


POLY = T("poly", None)
INT = T("int", ZERO)


@dataclass
class Issue:
    fn: FuncInfo
    node: ast.AST
    message: str
    kind: str  # ill-typed | requires-zero


KERNELS_DIMENSIONLESS = {
    # callee name → indices/keywords of the arguments that must have degree 0; returns degree 0 (or tuple of)
    "williamson": ([0], 2),
    "takagi": ([0], 2),
    "torontonian": ([0], 1),
    "loop_torontonian": ([0, 1], 1),
    "calculate_click_probability_nondisplaced": ([0], 1),
    "calculate_click_probability": ([0, 1], 1),
    "hafnian": ([0], 1), "loop_hafnian": ([0, 1], 1), "loop_hafnian_batch": ([0, 1], 1),
    "NondisplacedDensityMatrixCalculation": (["complex_covariance", 0], "kernel"),
    "DisplacedDensityMatrixCalculation": (["complex_displacement", "complex_covariance", 0, 1], "kernel"),
    "is_symmetric": ([], 1), "is_positive_semidefinite": ([0], 1), "is_symplectic": ([0], 1), "is_square": ([], 1),
    "decompose_adjacency_matrix_into_circuit": ([], 2),
}
FORMS_ZERO = {"symplectic_form", "xp_symplectic_form", "complex_symplectic_form", "identity", "eye", "ones", "ones_like"}
KEEP_FUNCS = {"real", "imag", "conj", "conjugate", "abs", "trace", "diag", "array", "asarray", "copy", "transpose", "sum", "max", "min",
              "real_if_close", "stack", "vstack", "hstack", "squeeze", "ravel", "flatten", "reshape", "eigvals", "eigvalsh", "mean", "cumsum",
              "delete", "repeat", "tile", "atleast_1d", "angle_preserving", "block_diag", "linalg.eigvals"}
REQUIRE_ZERO_FUNCS = {"exp", "log", "sin", "cos", "tan", "sinh", "cosh", "tanh", "arctan", "arctanh", "arcsinh", "arccosh", "angle", "log2", "log10"}
INT_FUNCS = {"len", "range", "int", "arange", "ix_", "where", "nonzero", "argsort", "shape", "tuple", "list", "enumerate", "zip", "bool",
             "isscalar", "array_equal", "any", "all", "xxpp_to_xpxp_indices", "xpxp_to_xxpp_indices", "get_fock_space_basis", "isinstance", "str"}


class DegreeAnalysis:
    def __init__(self, idx: Index, res: Resolver, param_degrees: Optional[Dict[Tuple[str, str], Lin]] = None):
        self.idx = idx
        self.res = res
        self.issues: List[Issue] = []
        self.memo: Dict[Tuple, T] = {}
        self.active: set = set()
        self.param_degrees = param_degrees or {}  # (instruction class name, param key) → degree
        self.state_cls = idx.find_class("piquasso._simulators.gaussian.state", "GaussianState")
        self.generic_state_cls = idx.find_class("piquasso.api.state", "State")
        self.stores: List[Tuple[FuncInfo, ast.AST, str, T]] = []  # self._m/_C/_G = value
        self.fills: Dict[Tuple, Dict[str, T]] = {}

    # ---- function evaluation ---------------------------------------------------------------------------
    def call_function(self, fn: FuncInfo, args: Dict[str, T], self_val: Optional[T] = None, closure: Optional[Dict[str, T]] = None) -> T:
        key = (id(fn.node), tuple(sorted((k, v.kind, v.deg, v.dim) for k, v in args.items())),
               tuple(sorted((k, v.kind, v.deg) for k, v in (closure or {}).items())))
        if key in self.memo:
            return self.memo[key]
        if key in self.active:
            return T.unknown(f"recursive call of {fn.qualname}")
        self.active.add(key)
        it = Interp(self, fn, {**(closure or {}), **args})
        it.block(fn.node.body)
        self.active.discard(key)
        out = it.ret if it.ret is not None else T("none")
        self.memo[key] = out
        # arrays passed in degree-polymorphic (np.empty/zeros) and filled by the callee get the degree of what was stored
        self.fills[key] = {p: it.env[p] for p in fn.all_params() if p in args and args[p].kind == "poly" and it.env.get(p, POLY).kind == "num"}
        return out

    def fills_of(self, fn: FuncInfo, args: Dict[str, T]) -> Dict[str, T]:
        key = (id(fn.node), tuple(sorted((k, v.kind, v.deg, v.dim) for k, v in args.items())), ())
        return self.fills.get(key, {})

    def state_member(self, name: str, setter: bool = False) -> Optional[FuncInfo]:
        for c in self.state_cls.mro():
            k = name + ".setter" if setter else name
            if k in c.methods:
                return c.methods[k]
        return None


class Interp:
    def __init__(self, an: DegreeAnalysis, fn: FuncInfo, args: Dict[str, T]):
        self.an = an
        self.fn = fn
        self.env: Dict[str, T] = dict(args)
        self.ret: Optional[T] = None
        self.dead = False
        if fn.cls is not None and fn.cls.is_subclass_of(an.state_cls) and "self" not in self.env:
            self.env["self"] = T("state", cls=fn.cls)
        elif fn.cls is not None and "self" not in self.env and fn.cls.is_subclass_of(an.generic_state_cls):
            self.env["self"] = T("fockstate", cls=fn.cls)

    # ---- helpers ----------------------------------------------------------------------------------------
    def issue(self, node: ast.AST, msg: str, kind: str = "ill-typed") -> None:
        for i in self.an.issues:
            if i.fn is self.fn and i.node is node:
                return
        self.an.issues.append(Issue(self.fn, node, msg, kind))

    def same_degree(self, node: ast.AST, vals: List[T], what: str) -> T:
        nums = [v for v in vals if v.kind in ("num", "int")]
        unk = [v for v in vals if v.kind == "unknown"]
        if unk:
            return unk[0]
        if any(v.kind not in ("num", "int", "poly") for v in vals):
            return T.unknown(f"non-numeric operand in {what} `{norm(node)[:50]}`")
        if not nums:
            return POLY
        d0 = nums[0].deg
        for v in nums[1:]:
            if v.deg != d0:
                self.issue(node, f"{what} of terms with hbar-degrees {lfmt(d0)} and {lfmt(v.deg)} in `{norm(node)[:90]}`: the two terms scale "
                                 f"differently with hbar, so the expression is only right for one value of hbar")
                return T.num(d0, nums[0].dim)
        dim = next((v.dim for v in vals if v.dim is not None), None)
        return T.num(d0, dim)

    def require_zero(self, node: ast.AST, v: T, what: str) -> None:
        if v.kind == "num" and v.deg != ZERO:
            self.issue(node, f"{what} receives a quantity of hbar-degree {lfmt(v.deg)} (`{norm(node)[:80]}`): it must be dimensionless "
                             f"(degree 0) to be independent of hbar", "requires-zero")

    # ---- statements ---------------------------------------------------------------------------------------
    def block(self, stmts: List[ast.stmt]) -> None:
        for s in stmts:
            if self.dead:
                return
            self.stmt(s)

    def stmt(self, s: ast.stmt) -> None:
        if isinstance(s, ast.Assign):
            v = self.ev(s.value)
            for t in s.targets:
                self.bind(t, v, s)
        elif isinstance(s, ast.AnnAssign) and s.value is not None:
            self.bind(s.target, self.ev(s.value), s)
        elif isinstance(s, ast.AugAssign):
            cur = self.ev(s.target) if not isinstance(s.target, ast.Name) else self.env.get(s.target.id, T.unknown(s.target.id))
            v = self.ev(s.value)
            r = self.binop(s.op, cur, v, s)
            if isinstance(s.target, ast.Name):
                self.env[s.target.id] = r
        elif isinstance(s, ast.Expr):
            self.ev(s.value)
        elif isinstance(s, ast.Return):
            v = self.ev(s.value) if s.value is not None else T("none")
            if self.ret is None or self.ret.kind in ("unknown", "poly", "none"):
                self.ret = v
            elif v.kind == "num" and self.ret.kind == "num" and v.deg != self.ret.deg:
                self.issue(s, f"return values of different hbar-degrees ({lfmt(self.ret.deg)} vs {lfmt(v.deg)}) in {self.fn.qualname}")
            self.dead = True
        elif isinstance(s, ast.Raise):
            self.dead = True
        elif isinstance(s, ast.If):
            self.ev(s.test)
            saved, d0 = dict(self.env), self.dead
            self.block(s.body)
            e1, d1 = self.env, self.dead
            self.env, self.dead = dict(saved), d0
            self.block(s.orelse)
            d2 = self.dead
            if d1 and not d2:
                pass
            elif d2 and not d1:
                self.env, self.dead = e1, False
            else:
                for k, v in e1.items():
                    if k not in self.env or self.env[k].kind in ("unknown", "poly"):
                        self.env[k] = v
                self.dead = d1 and d2
        elif isinstance(s, (ast.For, ast.AsyncFor)):
            it = self.ev(s.iter)
            elem = T.num(it.deg) if it.kind == "num" else (INT if it.kind == "int" else it)
            if isinstance(s.iter, ast.Call) and (dotted(s.iter.func) or "") in ("zip",):
                parts = [self.ev(a) for a in s.iter.args]
                elem = T("tuple", items=[T.num(p.deg) if p.kind == "num" else (INT if p.kind == "int" else p) for p in parts])
            if isinstance(s.iter, ast.Call) and (dotted(s.iter.func) or "") in ("enumerate",):
                inner = self.ev(s.iter.args[0])
                elem = T("tuple", items=[INT, T.num(inner.deg) if inner.kind == "num" else inner])
            if isinstance(s.iter, ast.Call) and (dotted(s.iter.func) or "") in ("range", "repeat"):
                elem = INT
            for _ in range(2):
                self.bind(s.target, elem, s)
                self.block(s.body)
                self.dead = False
        elif isinstance(s, ast.While):
            for _ in range(2):
                self.block(s.body)
                self.dead = False
        elif isinstance(s, (ast.With, ast.AsyncWith)):
            self.block(s.body)
        elif isinstance(s, ast.Try):
            self.block(s.body)
            self.dead = False
            self.block(s.finalbody)
        elif isinstance(s, (ast.FunctionDef, ast.AsyncFunctionDef)):
            self.env[s.name] = T("func", why=s.name)

    def bind(self, t: ast.AST, v: T, stmt: ast.AST) -> None:
        if isinstance(t, ast.Name):
            self.env[t.id] = v
        elif isinstance(t, (ast.Tuple, ast.List)):
            items = v.items if v.kind == "tuple" and v.items and len(v.items) == len(t.elts) else None
            for i, e in enumerate(t.elts):
                self.bind(e, items[i] if items else (T.num(v.deg, None) if v.kind == "num" else v), stmt)
        elif isinstance(t, ast.Attribute):
            base = self.ev(t.value)
            if base.kind == "state":
                if t.attr in ("_m", "_C", "_G"):
                    self.an.stores.append((self.fn, stmt, t.attr, v))
                    return
                setter = self.an.state_member(t.attr, setter=True)
                if setter is not None:
                    params = [p for p in setter.params() if p != "self"]
                    self.an.call_function(setter, {params[0]: v, "self": base})
                    self.an.stores.append((self.fn, stmt, f"setter:{t.attr}", v))
        elif isinstance(t, ast.Subscript):
            base = self.ev(t.value)
            if base.kind == "num" and v.kind == "num" and base.deg != v.deg:
                self.issue(stmt, f"element of hbar-degree {lfmt(v.deg)} stored into an array of degree {lfmt(base.deg)} in `{norm(stmt)[:80]}`")
            elif base.kind == "poly" and v.kind == "num" and isinstance(t.value, ast.Name):
                self.env[t.value.id] = T.num(v.deg, base.dim)

    # ---- expressions -----------------------------------------------------------------------------------------
    def ev(self, e: Optional[ast.AST]) -> T:
        if e is None:
            return T("none")
        if isinstance(e, ast.Constant):
            if isinstance(e.value, (int, float, complex)) and not isinstance(e.value, bool):
                if e.value == 0:
                    return POLY
                return T.num(ZERO)
            return T("other")
        if isinstance(e, ast.Name):
            if e.id in self.env:
                return self.env[e.id]
            if e.id in ("np", "fallback_np", "scipy", "numpy"):
                return T("module")
            return T.unknown(f"free name `{e.id}`")
        if isinstance(e, ast.Attribute):
            return self.attr(e)
        if isinstance(e, ast.Subscript):
            b = self.ev(e.value)
            self.ev(e.slice)
            if b.kind == "tuple" and b.items and isinstance(e.slice, ast.Constant) and isinstance(e.slice.value, int) and e.slice.value < len(b.items):
                return b.items[e.slice.value]
            if b.kind == "params":
                k = e.slice.value if isinstance(e.slice, ast.Constant) else None
                deg = self.an.param_degrees.get((b.why, k)) or self.an.param_degrees.get(("*", k))
                if deg is None:
                    return T.unknown(f"parameter `{k}` of {b.why} has no declared hbar-degree")
                return T.num(deg)
            if b.kind in ("num", "poly"):
                keep_dim = b.dim if ("ix_" in norm(e.slice) and "indices" in norm(e.slice)) or ("indices" in norm(e.slice)) else None
                return T(b.kind, b.deg, keep_dim)
            return b if b.kind in ("int", "unknown") else T.unknown(f"subscript of {b.kind} in `{norm(e)[:50]}`")
        if isinstance(e, ast.UnaryOp):
            v = self.ev(e.operand)
            return v if not isinstance(e.op, ast.Not) else INT
        if isinstance(e, ast.BinOp):
            return self.binop(e.op, self.ev(e.left), self.ev(e.right), e)
        if isinstance(e, ast.Compare):
            vals = [self.ev(e.left)] + [self.ev(c) for c in e.comparators]
            if all(v.kind in ("num", "poly") for v in vals):
                self.same_degree(e, vals, "comparison")
            return INT
        if isinstance(e, ast.BoolOp):
            for v in e.values:
                self.ev(v)
            return INT
        if isinstance(e, ast.IfExp):
            self.ev(e.test)
            a, b = self.ev(e.body), self.ev(e.orelse)
            return a if a.kind != "poly" else b
        if isinstance(e, (ast.List, ast.Tuple)):
            items = [self.ev(x.value if isinstance(x, ast.Starred) else x) for x in e.elts]
            return T("tuple", items=items)
        if isinstance(e, ast.ListComp) or isinstance(e, ast.GeneratorExp):
            saved = dict(self.env)
            for g in e.generators:
                it = self.ev(g.iter)
                self.bind(g.target, T.num(it.deg) if it.kind == "num" else (INT if it.kind == "int" else it), e)
            v = self.ev(e.elt)
            self.env = saved
            return T.num(v.deg) if v.kind == "num" else v
        if isinstance(e, ast.Call):
            return self.call(e)
        if isinstance(e, ast.JoinedStr):
            return T("other")
        if isinstance(e, ast.Lambda):
            return T("func")
        if isinstance(e, ast.Dict):
            return T("other")
        if isinstance(e, ast.Starred):
            return self.ev(e.value)
        return T.unknown(f"expression `{norm(e)[:40]}`")

    def attr(self, e: ast.Attribute) -> T:
        if e.attr == "hbar":
            return T.num(ONE)
        base_txt = norm(e.value)
        if e.attr in ("np", "fallback_np", "_np", "linalg", "forward_pass_np", "special"):
            return T("module")
        if e.attr in ("_config", "_connector", "config", "connector"):
            return T("other", why=e.attr)
        b = self.ev(e.value)
        if b.kind == "module":
            if e.attr == "pi":
                return T.num(ZERO)
            return T("npfunc", why=e.attr)
        if b.kind == "state":
            if e.attr in ("_m",):
                return T.num(ZERO, (Fraction(0), Fraction(1)))
            if e.attr in ("_C", "_G"):
                return T.num(ZERO, (Fraction(0), Fraction(1)))
            if e.attr in ("d", "_d"):
                return T("int", ZERO, why="d")
            if e.attr in ("_config", "_connector"):
                return T("other", why=e.attr)
            m = self.an.state_member(e.attr)
            if m is not None and any(d == "property" for d in m.decorators):
                return self.an.call_function(m, {"self": b})
            return T.unknown(f"state attribute `{e.attr}`")
        if b.kind == "fockstate":
            if e.attr in ("d", "_d"):
                return T("int", ZERO, why="d")
            if e.attr in ("_config", "_connector"):
                return T("other", why=e.attr)
            if b.cls is not None:
                m = b.cls.find_method(e.attr)
                if m is not None and any(d == "property" for d in m.decorators):
                    return self.an.call_function(m, {"self": b})
                if m is not None:
                    return T("func", why=e.attr)
            return T.num(ZERO)  # Fock-space amplitudes / density matrices / index arrays are dimensionless
        if b.kind in ("num", "poly"):
            if e.attr in ("T", "real", "imag", "mT"):
                return b
            if e.attr in ("shape", "ndim", "size", "dtype"):
                return INT
        if b.kind == "other" and b.why in ("_config", "config"):
            if e.attr in ("cutoff", "measurement_cutoff", "cache_size", "validate", "dtype", "complex_dtype", "use_torontonian", "rng", "seed_sequence", "use_dask"):
                return T("other", why="config." + e.attr) if e.attr == "rng" else INT
        if b.kind == "kernel":
            return T("kernel")
        if e.attr in ("params", "_params"):
            cls = self.an.res.param_annotation_class(self.fn, e.value.id) if isinstance(e.value, ast.Name) else None
            return T("params", why=cls.name if cls else "*")
        if e.attr == "modes":
            return INT
        if b.kind == "instr":
            return T("func", why=e.attr)
        if b.kind == "other" and b.why == "config.rng":
            return T("func", why="rng." + e.attr)
        if b.kind == "tuple" and e.attr in ("T",):
            return b
        return T.unknown(f"attribute `{norm(e)[:40]}`")

    def binop(self, op: ast.operator, a: T, b: T, node: ast.AST) -> T:
        for v in (a, b):
            if v.kind == "unknown":
                return v
        if not (a.is_num() and b.is_num()):
            if isinstance(op, ast.Mult) and (a.kind == "tuple" or b.kind == "tuple"):
                return a if a.kind == "tuple" else b  # [x] * n
            if isinstance(op, ast.Add) and a.kind == "tuple" and b.kind == "tuple":
                return T("tuple", items=(a.items or []) + (b.items or []))
            return T.unknown(f"operands of kinds {a.kind}/{b.kind} in `{norm(node)[:50]}`")
        if isinstance(op, (ast.Add, ast.Sub)):
            return self.same_degree(node, [a, b], "sum" if isinstance(op, ast.Add) else "difference")
        da = a.deg if a.deg is not None else ZERO
        db = b.deg if b.deg is not None else ZERO
        if isinstance(op, (ast.Mult, ast.MatMult)):
            if a.kind == "poly" or b.kind == "poly":
                return POLY
            return T.num(ladd(da, db), a.dim if a.dim is not None else b.dim)
        if isinstance(op, (ast.Div, ast.FloorDiv)):
            if a.kind == "poly":
                return POLY
            return T.num(lsub(da, db), a.dim)
        if isinstance(op, ast.Mod):
            return a
        if isinstance(op, ast.Pow):
            if a.kind == "poly":
                return POLY
            r = node.right if isinstance(node, ast.BinOp) else getattr(node, "value", None)
            k = _const_number(r)
            if k is not None:
                return T.num(lscale(da, k), a.dim)
            if b.kind == "int" and b.why == "d":
                if da[1] != 0:
                    return T.unknown("d-dependent base raised to d")
                return T.num((Fraction(0), da[0]), None)
            if da == ZERO:
                if b.kind == "num" and b.deg != ZERO:
                    self.issue(node, f"exponent of hbar-degree {lfmt(b.deg)} in `{norm(node)[:60]}`", "requires-zero")
                return T.num(ZERO, a.dim)
            return T.unknown(f"non-constant exponent in `{norm(node)[:50]}`")
        return T.unknown(f"operator in `{norm(node)[:40]}`")

    # ---- calls ---------------------------------------------------------------------------------------------------
    def call(self, c: ast.Call) -> T:
        f = c.func
        name = dotted(f) or (f.attr if isinstance(f, ast.Attribute) else "")
        last = name.split(".")[-1]
        args = [self.ev(a.value if isinstance(a, ast.Starred) else a) for a in c.args]
        kw = {k.arg: self.ev(k.value) for k in c.keywords if k.arg}
        recv = self.ev(f.value) if isinstance(f, ast.Attribute) else None

        # methods on numeric values
        if recv is not None and recv.kind in ("num", "poly"):
            if last in ("conj", "conjugate", "transpose", "copy", "astype", "reshape", "real", "flatten", "ravel", "sum", "trace", "squeeze", "repeat", "diagonal", "tolist"):
                return recv
            if last in ("dot",) and args:
                return self.binop(ast.MatMult(), recv, args[0], c)
        if recv is not None and recv.kind == "kernel":
            return T.num(ZERO)
        if recv is not None and recv.kind == "fockstate":
            if last in ("reduced", "copy", "_as_mixed"):
                return recv
            if last in ("normalize", "validate", "reset", "_can_validate_variable"):
                return INT
            if recv.cls is not None:
                m = recv.cls.find_method(last)
                if m is not None:
                    params = [p for p in m.params() if p != "self"]
                    return self.an.call_function(m, {**{p: a for p, a in zip(params, args)}, **kw, "self": recv})
            return T.unknown(f"state method `{last}`")
        if recv is not None and recv.kind == "state":
            if last in ("reduced", "rotated", "copy", "purify"):
                m = self.an.state_member(last)
                if m is not None and last != "copy":
                    params = [p for p in m.params() if p != "self"]
                    self.an.call_function(m, {**{p: a for p, a in zip(params, args)}, **kw, "self": recv})
                return T("state", cls=recv.cls)
            if last in ("_from_representation",):
                for k in ("C", "G", "m"):
                    if k in kw:
                        self.an.stores.append((self.fn, c, f"_{k}", kw[k]))
                return T("state", cls=recv.cls)
            if last in ("_validate_mean", "_validate_cov", "_validate_cov_shape", "_can_validate_variable", "_get_auxiliary_modes", "reset", "validate"):
                m = self.an.state_member(last)
                if m is not None and last in ("_validate_cov",):
                    params = [p for p in m.params() if p != "self"]
                    self.an.call_function(m, {**{p: a for p, a in zip(params, args)}, "self": recv})
                return INT
            m = self.an.state_member(last)
            if m is not None:
                params = [p for p in m.params() if p != "self"]
                return self.an.call_function(m, {**{p: a for p, a in zip(params, args)}, **kw, "self": recv})
            return T.unknown(f"state method `{last}`")
        if isinstance(f, ast.Attribute) and last == "__class__":
            return recv or T.unknown("__class__")
        # self.__class__._from_representation(...)
        if isinstance(f, ast.Attribute) and last == "_from_representation":
            for k in ("C", "G", "m"):
                if k in kw:
                    self.an.stores.append((self.fn, c, f"_{k}", kw[k]))
            return T("state", cls=self.an.state_cls)
        if last == "GaussianState" or (isinstance(f, ast.Name) and self.an.idx.resolve_name(self.fn.module, f.id) is self.an.state_cls):
            return T("state", cls=self.an.state_cls)

        # declared dimensionless kernels
        if last in KERNELS_DIMENSIONLESS:
            req, ret = KERNELS_DIMENSIONLESS[last]
            for r in req:
                v = args[r] if isinstance(r, int) and r < len(args) else kw.get(r) if isinstance(r, str) else None
                if v is not None and v.kind == "unknown":
                    return v
                if v is not None:
                    node = c.args[r] if isinstance(r, int) and r < len(c.args) else next((k.value for k in c.keywords if k.arg == r), c)
                    self.require_zero(node, v, f"the dimensionless kernel {last}()")
            if ret == "kernel":
                return T("kernel")
            if ret == 2:
                return T("tuple", items=[T.num(ZERO), T.num(ZERO)])
            return T.num(ZERO)
        if last in FORMS_ZERO:
            dim = None
            if c.args:
                dim = self.dim_of(c.args[0])
                if last in ("symplectic_form", "xp_symplectic_form", "complex_symplectic_form") and dim is not None:
                    dim = lscale(dim, Fraction(2))
            return T.num(ZERO, dim)
        if last in ("zeros", "zeros_like", "empty", "empty_like"):
            return POLY
        if last in INT_FUNCS:
            return INT
        if last == "sqrt":
            v = args[0]
            return T.num(lscale(v.deg, Fraction(1, 2)), v.dim) if v.kind == "num" else (v if v.kind != "poly" else POLY)
        if last in REQUIRE_ZERO_FUNCS:
            if args and args[0].kind == "unknown":
                return args[0]
            if args:
                self.require_zero(c.args[0], args[0], f"np.{last}")
            return T.num(ZERO, args[0].dim if args else None)
        if last in ("isclose", "allclose"):
            if len(args) >= 2 and all(a.kind in ("num", "poly") for a in args[:2]):
                self.same_degree(c, args[:2], "closeness test")
            return INT
        if last == "inv":
            v = args[0]
            return T.num(lscale(v.deg, Fraction(-1)), v.dim) if v.kind == "num" else v
        if last == "solve":
            a, b = args[0], args[1]
            if a.kind == "num" and b.kind == "num":
                return T.num(lsub(b.deg, a.deg), b.dim)
            return a if a.kind == "unknown" else b
        if last == "det":
            v = args[0]
            if v.kind != "num":
                return v if v.kind == "unknown" else T.unknown("det of non-numeric")
            if v.deg == ZERO:
                return T.num(ZERO)
            if v.dim is None:
                return T.unknown(f"dimension of the matrix in `{norm(c)[:50]}` is not known to the shape table")
            n0, n1 = v.dim
            q0, q1 = v.deg
            if q1 != 0:
                return T.unknown("det of d-dependent degree")
            return T.num((q0 * n0, q0 * n1))
        if last in ("block", "concatenate"):
            flat: List[T] = []

            def gather(t: T):
                if t.kind == "tuple" and t.items is not None:
                    for x in t.items:
                        gather(x)
                else:
                    flat.append(t)
            for a in args[:1]:
                gather(a)
            r = self.same_degree(c, flat, last)
            if r.kind == "num":
                dims = [x.dim for x in flat if x.dim is not None]
                rows = len(args[0].items) if args and args[0].kind == "tuple" and args[0].items else 1
                if last == "block" and dims and rows:
                    r = T.num(r.deg, lscale(dims[0], Fraction(rows)))
                elif last == "concatenate" and dims and len(dims) == len(flat):
                    tot = ZERO
                    for dd in dims:
                        tot = ladd(tot, dd)
                    r = T.num(r.deg, tot)
            return r
        if last in ("outer", "kron", "dot", "matmul", "multiply"):
            return self.binop(ast.Mult(), args[0], args[1], c)
        if last == "einsum":
            ops = [a for a in args[1:]]
            out = ops[0] if ops else T.unknown("einsum")
            for o in ops[1:]:
                out = self.binop(ast.Mult(), out, o, c)
            return out
        if last == "prod":
            v = args[0]
            if v.kind == "num" and v.deg == ZERO:
                return T.num(ZERO)
            if v.kind == "tuple" and v.items and all(x.kind == "num" and x.deg == ZERO for x in v.items):
                return T.num(ZERO)
            return v if v.kind in ("unknown", "poly") else T.unknown(f"np.prod of a quantity of degree {lfmt(v.deg)}")
        if last in KEEP_FUNCS or last in ("block_diag",):
            if last == "block_diag":
                flat = []
                for a in args:
                    flat.extend(a.items if a.kind == "tuple" and a.items else [a])
                return self.same_degree(c, flat, "block_diag")
            v = args[0] if args else T.unknown(last)
            if v.kind == "tuple" and v.items:
                return self.same_degree(c, v.items, last)
            return v
        if last in ("where",):
            return INT
        if last in ("float", "complex", "max", "min", "abs", "round"):
            return args[0] if args else T.unknown(last)
        if last == "multivariate_normal":
            mean, cov = kw.get("mean", args[0] if args else None), kw.get("cov", args[1] if len(args) > 1 else None)
            if mean is None or cov is None or mean.kind != "num" or cov.kind != "num":
                return T.unknown("multivariate_normal arguments")
            if cov.deg != lscale(mean.deg, Fraction(2)):
                self.issue(c, f"multivariate_normal draws with mean of hbar-degree {lfmt(mean.deg)} and covariance of degree {lfmt(cov.deg)} "
                              f"(a covariance must have twice the degree of the mean)")
            return T.num(mean.deg)
        if last in ("partial",):
            # type the wrapped function with the degrees of the bound keyword arguments
            t = self.an.res.unwrap_callable(self.fn.module, c.args[0], self.fn) if c.args else None
            if t is not None:
                amap = {k: v for k, v in kw.items() if k in t.all_params()}
                for pname in t.all_params():
                    amap.setdefault(pname, T("other", why="unbound"))
                self.an.call_function(t, amap)
            return T("func")
        if last in ("isinstance", "print", "hasattr", "getattr", "tuple", "list", "dict", "set"):
            return INT
        if last == "cast" and len(args) == 2:
            return args[1]
        if last == "_get_all_params" or last == "params":
            cls = self.an.res.param_annotation_class(self.fn, f.value.id) if isinstance(f, ast.Attribute) and isinstance(f.value, ast.Name) else None
            return T("params", why=cls.name if cls else "*")
        if last in ("uniform", "normal", "random", "standard_normal") and recv is not None and recv.kind in ("other", "func", "unknown"):
            return T.num(ZERO)  # draws from a dimensionless reference distribution
        # in-package function
        targets = self.an.res.resolve_call(self.fn, c)
        outs = []
        from .callgraph import is_njit
        if targets and all(is_njit(t) for t in targets):
            # numba kernels of this repository are functions of dimensionless inputs; arrays they fill become dimensionless
            for a_node, a_val in list(zip(c.args, args)) + [(k.value, kw[k.arg]) for k in c.keywords if k.arg]:
                if a_val.kind == "num":
                    self.require_zero(a_node, a_val, f"the numba kernel {targets[0].name}()")
                base = a_node
                while isinstance(base, ast.Subscript):
                    base = base.value
                if isinstance(base, ast.Name) and self.env.get(base.id, INT).kind == "poly":
                    self.env[base.id] = T.num(ZERO, self.env[base.id].dim)
            return T.num(ZERO)
        for t in targets:
            params = t.params()
            off = 1 if (t.cls is not None and params and params[0] in ("self", "cls") and isinstance(f, ast.Attribute)) else 0
            amap = {}
            anodes = {}
            for i, a in enumerate(args):
                if i + off < len(params):
                    amap[params[i + off]] = a
                    anodes[params[i + off]] = c.args[i]
            for k, v in kw.items():
                if k in t.all_params():
                    amap[k] = v
                    anodes[k] = next(x.value for x in c.keywords if x.arg == k)
            is_local = ".<locals>." in t.qualname and t.qualname.startswith(self.fn.qualname + ".<locals>.")
            outs.append(self.an.call_function(t, amap, closure={k: v for k, v in self.env.items() if k not in amap} if is_local else None))
            for pname, filled in self.an.fills_of(t, amap).items():
                base = anodes.get(pname)
                while isinstance(base, ast.Subscript):
                    base = base.value
                if isinstance(base, ast.Name) and self.env.get(base.id, INT).kind == "poly":
                    self.env[base.id] = T.num(filled.deg, self.env[base.id].dim)
        if outs:
            return outs[0]
        return T.unknown(f"call `{norm(c)[:50]}`")

    def dim_of(self, e: ast.AST) -> Optional[Lin]:
        """Size expressions: d, self.d, len(self), 2 * d, 2 * self.d, len(x) // 2 (unknown)."""
        if isinstance(e, ast.Constant) and isinstance(e.value, int):
            return (Fraction(e.value), Fraction(0))
        if isinstance(e, ast.Name):
            v = self.env.get(e.id)
            if v is not None and v.kind == "int" and v.why == "d":
                return (Fraction(0), Fraction(1))
            return None
        if isinstance(e, ast.Attribute) and e.attr in ("d", "_d"):
            return (Fraction(0), Fraction(1))
        if isinstance(e, ast.Call) and dotted(e.func) == "len" and e.args:
            if isinstance(e.args[0], ast.Name) and e.args[0].id == "self":
                return (Fraction(0), Fraction(1))
            v = self.ev(e.args[0])
            return v.dim
        if isinstance(e, ast.BinOp) and isinstance(e.op, ast.Mult):
            a, b = self.dim_of(e.left), self.dim_of(e.right)
            if a is not None and b is not None:
                if a[1] == 0:
                    return lscale(b, a[0])
                if b[1] == 0:
                    return lscale(a, b[0])
        return None


def _const_number(e: Optional[ast.AST]) -> Optional[Fraction]:
    if isinstance(e, ast.Constant) and isinstance(e.value, (int, float)) and not isinstance(e.value, bool):
        return Fraction(e.value).limit_denominator(1000)
    if isinstance(e, ast.UnaryOp) and isinstance(e.op, ast.USub):
        k = _const_number(e.operand)
        return -k if k is not None else None
    if isinstance(e, ast.BinOp) and isinstance(e.op, ast.Div):
        a, b = _const_number(e.left), _const_number(e.right)
        if a is not None and b:
            return a / b
    return None
