"""E7 — exactness dataflow for shot accounting.

Abstract kinds of numeric values:
    INT    a Python int (counts, shots, numerators)
    FRAC   a fractions.Fraction built from integers (exact k/N arithmetic)
    PROB   a float-like probability (only legal as a branch weight when shots is None)
    TOP    anything else / unknown
    DICT(k) a mapping whose values have kind k;  NONE python None
The interpreter evaluates a function body in one of two *worlds*: shots is None / shots is an int.
Branches on `shots is None` are pruned accordingly, so a kind is what the value can be in that world.
"""

from __future__ import annotations

import ast
from typing import Dict, List, Optional, Tuple

from .callgraph import Resolver
from .index import FuncInfo, dotted, norm
from .shots import _none_test

INT, FRAC, PROB, TOP, NONE = "Int", "Frac", "Prob", "Top", "None"


def DICT(k: str) -> str:
    return f"Dict[{k}]"


def is_dict(k: str) -> bool:
    return k.startswith("Dict[")


def dict_value(k: str) -> str:
    return k[5:-1] if is_dict(k) else TOP


def join(a: Optional[str], b: Optional[str]) -> str:
    if a is None:
        return b or TOP
    if b is None:
        return a
    if a == b:
        return a
    if a == "?":
        return b
    if b == "?":
        return a
    if is_dict(a) and is_dict(b):
        return DICT(join(dict_value(a), dict_value(b)))
    if {a, b} == {INT, FRAC}:
        return FRAC
    if NONE in (a, b):
        return a if b == NONE else b
    if {a, b} <= {INT, FRAC, PROB}:
        return PROB
    return TOP


def mul(a: str, b: str) -> str:
    if a in (INT, FRAC) and b in (INT, FRAC):
        return FRAC if FRAC in (a, b) else INT
    if {a, b} <= {INT, FRAC, PROB}:
        return PROB
    return TOP


class Exactness:
    def __init__(self, idx, res: Resolver):
        self.idx = idx
        self.res = res
        self.memo: Dict[Tuple[int, bool, Tuple], str] = {}
        self.active: set = set()
        self.float_divisions: List[Tuple[FuncInfo, ast.AST]] = []
        self.sites: List[Tuple[FuncInfo, ast.Call, str, Optional[ast.AST], bool]] = []  # Branch(...) sites reached
        self.casts: List[Tuple[FuncInfo, ast.Call, str, bool]] = []  # int(...) casts reached
        self.freq_updates: List[Tuple[FuncInfo, ast.AST, str, bool]] = []  # x.frequency op= value
        self.fractions: List[Tuple[FuncInfo, ast.Call, bool]] = []  # Fraction(a, b) constructions reached

    # ---- function summaries -----------------------------------------------------------------------
    def returns(self, fn: FuncInfo, shots_none: bool, arg_kinds: Dict[str, str]) -> str:
        key = (id(fn.node), shots_none, tuple(sorted(arg_kinds.items())))
        if key in self.memo:
            return self.memo[key]
        if key in self.active:
            return TOP
        self.active.add(key)
        it = Interp(self, fn, shots_none, dict(arg_kinds))
        it.block(fn.node.body)
        self.active.discard(key)
        out = it.ret if it.ret is not None else NONE
        self.memo[key] = out
        return out


class Interp:
    def __init__(self, ex: Exactness, fn: FuncInfo, shots_none: bool, env: Dict[str, str]):
        self.ex = ex
        self.fn = fn
        self.shots_none = shots_none
        self.env = env
        self.ret: Optional[str] = None
        self.branch_sites: List[Tuple[ast.Call, str, Optional[ast.AST]]] = []
        self.int_casts: List[Tuple[ast.Call, str]] = []
        self.shots_vars = {"shots"} | {p for p in fn.all_params() if p == "shots"}
        self.env.setdefault("shots", NONE if shots_none else INT)
        self.dead = False

    # ---- statements ------------------------------------------------------------------------------------
    def block(self, stmts: List[ast.stmt]) -> None:
        for s in stmts:
            if self.dead:
                return
            self.stmt(s)

    def stmt(self, s: ast.stmt) -> None:
        if isinstance(s, ast.Assign):
            k = self.kind(s.value)
            for t in s.targets:
                self.bind(t, k, s.value)
        elif isinstance(s, ast.AnnAssign) and s.value is not None:
            self.bind(s.target, self.kind(s.value), s.value)
        elif isinstance(s, ast.AugAssign):
            k = self.kind(s.value)
            if isinstance(s.target, ast.Name):
                cur = self.env.get(s.target.id, TOP)
                self.env[s.target.id] = self.binop(s.op, cur, k, s)
            else:
                if isinstance(s.target, ast.Attribute) and s.target.attr == "frequency":
                    self.ex.freq_updates.append((self.fn, s, k if isinstance(s.op, ast.Mult) else TOP, self.shots_none))
                self.kind(s.target)
        elif isinstance(s, ast.Expr):
            self.kind(s.value)
        elif isinstance(s, ast.Return):
            k = self.kind(s.value) if s.value is not None else NONE
            self.ret = join(self.ret, k) if self.ret is not None else k
            self.dead = True
        elif isinstance(s, ast.Raise):
            self.dead = True
        elif isinstance(s, ast.If):
            t = _none_test(s.test, "shots")
            if t is not None:
                take_body = t == self.shots_none
                self.block(s.body if take_body else s.orelse)
                return
            # conjunctions containing a shots test that is false in this world make the body dead
            self.kind(s.test)
            saved, saved_dead = dict(self.env), self.dead
            self.block(s.body)
            e1, d1 = self.env, self.dead
            self.env, self.dead = dict(saved), saved_dead
            self.block(s.orelse)
            e2, d2 = self.env, self.dead
            if d1 and not d2:
                self.env, self.dead = e2, False
            elif d2 and not d1:
                self.env, self.dead = e1, False
            else:
                self.env = {k: join(e1.get(k), e2.get(k)) for k in set(e1) | set(e2)}
                self.dead = d1 and d2
        elif isinstance(s, (ast.For, ast.AsyncFor)):
            it = self.kind(s.iter)
            for _ in range(2):
                self.bind_iter(s.target, s.iter, it)
                self.block(s.body)
                self.dead = False
            self.block(s.orelse)
        elif isinstance(s, ast.While):
            for _ in range(2):
                self.block(s.body)
                self.dead = False
        elif isinstance(s, (ast.With, ast.AsyncWith)):
            self.block(s.body)
        elif isinstance(s, ast.Try):
            self.block(s.body)
            d = self.dead
            self.dead = False
            for h in s.handlers:
                self.block(h.body)
                self.dead = False
            self.dead = d
            self.block(s.finalbody)

    def bind(self, t: ast.AST, k: str, src: Optional[ast.AST]) -> None:
        if isinstance(t, ast.Name):
            self.env[t.id] = k
        elif isinstance(t, (ast.Tuple, ast.List)):
            if isinstance(src, (ast.Tuple, ast.List)) and len(src.elts) == len(t.elts):
                for a, b in zip(t.elts, src.elts):
                    self.bind(a, self.kind(b), b)
            else:
                for a in t.elts:
                    self.bind(a, TOP, None)
        elif isinstance(t, ast.Subscript) and isinstance(t.value, ast.Name):
            cur = self.env.get(t.value.id)
            if cur is not None and is_dict(cur):
                self.env[t.value.id] = DICT(join(dict_value(cur) if dict_value(cur) != "?" else None, k))
        elif isinstance(t, ast.Attribute) and t.attr == "frequency":
            pass

    def bind_iter(self, target: ast.AST, it_expr: ast.AST, it_kind: str) -> None:
        # for k, v in d.items()
        if isinstance(it_expr, ast.Call) and isinstance(it_expr.func, ast.Attribute) and it_expr.func.attr == "items":
            dk = self.kind(it_expr.func.value)
            if isinstance(target, ast.Tuple) and len(target.elts) == 2:
                self.bind(target.elts[0], TOP, None)
                self.bind(target.elts[1], dict_value(dk) if is_dict(dk) else TOP, None)
                return
        if isinstance(it_expr, ast.Call) and isinstance(it_expr.func, ast.Attribute) and it_expr.func.attr == "values":
            dk = self.kind(it_expr.func.value)
            self.bind(target, dict_value(dk) if is_dict(dk) else TOP, None)
            return
        if isinstance(it_expr, ast.Call) and dotted(it_expr.func) == "range":
            self.bind(target, INT, None)
            return
        if isinstance(it_expr, ast.Call) and dotted(it_expr.func) == "enumerate" and isinstance(target, ast.Tuple) and len(target.elts) == 2:
            self.bind(target.elts[0], INT, None)
            self.bind(target.elts[1], TOP, None)
            return
        if isinstance(target, (ast.Tuple, ast.List)):
            for a in target.elts:
                self.bind(a, TOP, None)
        else:
            self.bind(target, TOP, None)

    # ---- expressions -----------------------------------------------------------------------------------------
    def binop(self, op: ast.operator, a: str, b: str, node: ast.AST) -> str:
        if isinstance(op, ast.Mult):
            return mul(a, b)
        if isinstance(op, (ast.Add, ast.Sub)):
            if a in (INT, FRAC) and b in (INT, FRAC):
                return FRAC if FRAC in (a, b) else INT
            if {a, b} <= {INT, FRAC, PROB}:
                return PROB
            return TOP
        if isinstance(op, ast.Div):
            if a == FRAC and b in (INT, FRAC):
                return FRAC
            if a == INT and b == FRAC:
                return FRAC
            if a == INT and b == INT:
                self.ex.float_divisions.append((self.fn, node))
                return PROB  # float division of two ints: not an exact fraction
            if {a, b} <= {INT, FRAC, PROB}:
                return PROB
            return TOP
        if isinstance(op, (ast.FloorDiv, ast.Mod)):
            return INT if a == INT and b == INT else TOP
        if isinstance(op, ast.Pow):
            return a if b == INT and a in (INT, FRAC) else (PROB if {a, b} <= {INT, FRAC, PROB} else TOP)
        return TOP

    def kind(self, e: Optional[ast.AST]) -> str:
        if e is None:
            return NONE
        if isinstance(e, ast.Constant):
            if e.value is None:
                return NONE
            if isinstance(e.value, bool) or isinstance(e.value, int):
                return INT
            if isinstance(e.value, float):
                return PROB
            return TOP
        if isinstance(e, ast.Name):
            return self.env.get(e.id, TOP)
        if isinstance(e, ast.BinOp):
            return self.binop(e.op, self.kind(e.left), self.kind(e.right), e)
        if isinstance(e, ast.UnaryOp):
            return self.kind(e.operand) if isinstance(e.op, (ast.USub, ast.UAdd)) else TOP
        if isinstance(e, ast.IfExp):
            t = _none_test(e.test, "shots")
            if t is not None:
                return self.kind(e.body if t == self.shots_none else e.orelse)
            return join(self.kind(e.body), self.kind(e.orelse))
        if isinstance(e, ast.Attribute):
            if e.attr == "frequency":
                return FRAC if not self.shots_none else PROB
            if e.attr in ("numerator", "denominator"):
                return INT
            if e.attr in ("shots", "_shots"):
                return NONE if self.shots_none else INT
            return TOP
        if isinstance(e, ast.Dict):
            k = None
            for v in e.values:
                k = join(k, self.kind(v))
            return DICT(k or "?")
        if isinstance(e, ast.DictComp):
            saved = dict(self.env)
            for g in e.generators:
                self.bind_iter(g.target, g.iter, self.kind(g.iter))
            k = self.kind(e.value)
            self.env = saved
            return DICT(k)
        if isinstance(e, (ast.ListComp, ast.GeneratorExp, ast.SetComp)):
            saved = dict(self.env)
            for g in e.generators:
                self.bind_iter(g.target, g.iter, self.kind(g.iter))
            self.kind(e.elt)  # records Branch sites inside comprehensions
            self.env = saved
            return TOP
        if isinstance(e, ast.Subscript):
            b = self.kind(e.value)
            return dict_value(b) if is_dict(b) else TOP
        if isinstance(e, ast.Call):
            return self.call(e)
        if isinstance(e, ast.Compare) or isinstance(e, ast.BoolOp):
            for c in ast.iter_child_nodes(e):
                if isinstance(c, ast.expr):
                    self.kind(c)
            return TOP
        if isinstance(e, (ast.Tuple, ast.List)):
            for c in e.elts:
                self.kind(c)
            return TOP
        return TOP

    def call(self, c: ast.Call) -> str:
        fname = dotted(c.func) or ""
        last = fname.split(".")[-1] if fname else (c.func.attr if isinstance(c.func, ast.Attribute) else "")
        ak = [self.kind(a) for a in c.args]
        kk = {k.arg: self.kind(k.value) for k in c.keywords if k.arg}
        for a, k in zip(c.args, ak):
            if isinstance(a, ast.BinOp) and isinstance(a.op, ast.Mult) and any(
                    isinstance(x, ast.Attribute) and x.attr == "frequency" for x in (a.left, a.right)) and last not in ("int",):
                self.ex.casts.append((self.fn, c, k if last in ("floor",) else "Top:" + (last or "?"), self.shots_none))
        if last == "Fraction":
            self.ex.fractions.append((self.fn, c, self.shots_none))
            if len(ak) == 2:
                return FRAC if ak[0] in (INT, FRAC) and ak[1] in (INT, FRAC) else TOP
            if len(ak) == 1:
                return FRAC if ak[0] in (INT, FRAC) else PROB  # Fraction(float) is exact for the float, not k/N
            return FRAC
        if last == "Branch":
            fexpr = None
            fk = None
            for k in c.keywords:
                if k.arg == "frequency":
                    fexpr, fk = k.value, kk["frequency"]
            if fexpr is None and len(c.args) >= 3:
                fexpr, fk = c.args[2], ak[2]
            self.branch_sites.append((c, fk if fk is not None else "default", fexpr))
            self.ex.sites.append((self.fn, c, fk if fk is not None else "default", fexpr, self.shots_none))
            return TOP
        if last in ("int", "len", "round") and isinstance(c.func, ast.Name):
            if last == "int" and c.args:
                self.int_casts.append((c, ak[0]))
                self.ex.casts.append((self.fn, c, ak[0], self.shots_none))
            return INT
        if last in ("float",) and isinstance(c.func, ast.Name):
            return PROB
        if last == "cast" and len(ak) == 2:
            return ak[1]
        if last == "limit_denominator":
            return PROB
        if isinstance(c.func, ast.Attribute) and c.func.attr == "get" and c.args:
            b = self.kind(c.func.value)
            dflt = ak[1] if len(ak) > 1 else NONE
            return join(dict_value(b), dflt) if is_dict(b) and dict_value(b) != "?" else (dflt if is_dict(b) else TOP)
        if isinstance(c.func, ast.Attribute) and c.func.attr in ("items", "values", "keys", "copy"):
            return self.kind(c.func.value)
        if isinstance(c.func, ast.Name) and c.func.id == "dict":
            k = None
            for v in kk.values():
                k = join(k, v)
            return DICT(k or "?")
        # in-package callee
        targets = self.ex.res.resolve_call(self.fn, c)
        out = None
        for t in targets:
            params = t.params()
            off = 1 if (t.cls is not None and params and params[0] in ("self", "cls") and isinstance(c.func, ast.Attribute)) else 0
            amap: Dict[str, str] = {}
            for i, k in enumerate(ak):
                if i + off < len(params):
                    amap[params[i + off]] = k
            for k, v in kk.items():
                if k in t.all_params():
                    amap[k] = v
            callee_none = self.shots_none
            if "shots" in amap:
                callee_none = amap["shots"] == NONE
            amap = {k: v for k, v in amap.items() if v in (INT, FRAC, PROB, NONE) or is_dict(v)}
            out = join(out, self.ex.returns(t, callee_none, amap))
        return out if out is not None else TOP
