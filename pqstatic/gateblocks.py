"""Symbolic instances of gate blocks and of instruction lists built with `X(args).on_modes(...)` (users of E6)."""

from __future__ import annotations

import ast
from typing import Any, Dict, List, Optional, Sequence, Tuple

import sympy as sp

from .algebra import SymEval, Untranslatable, to_matrix
from .index import ClassInfo, FuncInfo, Index, dotted, norm
from .registry import Registry
from .report import AnalysisError


def passive_block(reg: Registry, cls: ClassInfo, args: Sequence[Any], kwargs: Dict[str, Any]) -> sp.Matrix:
    """The passive block of `cls(*args, **kwargs)` with constructor defaults filled in (symbolic)."""
    info = reg.instruction(cls)
    values: Dict[str, Any] = {}
    for name, v in zip(info.ctor_params, args):
        values[name] = v
    for k, v in kwargs.items():
        if k not in info.ctor_params:
            raise Untranslatable(f"E6: {cls.name} has no constructor parameter `{k}`")
        values[k] = v
    for name in info.ctor_params:
        if name not in values:
            d = info.ctor_defaults.get(name)
            if d is None:
                raise Untranslatable(f"E6: {cls.name}({', '.join(map(str, args))}) misses the required argument `{name}`")
            values[name] = SymEval(info.ctor, {}, env={"np": "<np>"}).ev(d)
    # params dict as the constructor builds it
    params = {}
    for ks, vs in zip(info.params_keys, info.params_values):
        for k in ks:
            v = vs[k]
            if isinstance(v, ast.Name) and v.id in values:
                params[k] = values[v.id]
            else:
                raise Untranslatable(f"E6: params['{k}'] of {cls.name} is `{norm(v)}`, not a plain constructor argument")
    m = cls.find_method("_get_passive_block")
    if m is None:
        raise Untranslatable(f"E6: {cls.name} has no _get_passive_block")
    return to_matrix(SymEval(m, params).run())


def embed(block: sp.Matrix, positions: Sequence[int], dim: int) -> sp.Matrix:
    out = sp.eye(dim)
    for a, i in enumerate(positions):
        for b, j in enumerate(positions):
            out[i, j] = block[a, b]
    return out


class GuardViolation(Exception):
    """A skip guard around an emitted instruction that is not symmetric around the excluded value."""

    def __init__(self, message: str, node: ast.AST):
        super().__init__(message)
        self.node = node


def _abs_names(fn_node: ast.AST) -> set:
    out = set()
    for n in ast.walk(fn_node):
        if isinstance(n, ast.Assign) and len(n.targets) == 1 and isinstance(n.targets[0], ast.Name) and isinstance(n.value, ast.Call) \
                and (dotted(n.value.func) or "").split(".")[-1] in ("abs", "fabs", "absolute", "norm"):
            out.add(n.targets[0].id)
    return out


def classify_skip_guard(test: ast.AST, abs_names: Optional[set] = None) -> str:
    """'symmetric'  — not np.isclose(x, 0) / x != 0 / abs(x) > eps   (skips only the neutral value)
       'one-sided'  — x > eps / x >= eps / x < -eps ...               (also skips the other sign)
       'unknown'"""
    t = test
    pol = True
    while isinstance(t, ast.UnaryOp) and isinstance(t.op, ast.Not):
        pol = not pol
        t = t.operand
    if isinstance(t, ast.Call) and (dotted(t.func) or "").split(".")[-1] in ("isclose", "allclose") and not pol:
        return "symmetric"
    if isinstance(t, ast.Compare) and len(t.ops) == 1:
        l, o, r = t.left, t.ops[0], t.comparators[0]
        has_abs = any((isinstance(x, ast.Call) and (dotted(x.func) or "").split(".")[-1] in ("abs", "fabs", "absolute", "norm"))
                      or (isinstance(x, ast.Name) and x.id in (abs_names or ())) for x in (l, r))
        if isinstance(o, (ast.NotEq,)) and pol:
            return "symmetric"
        if isinstance(o, (ast.Eq,)) and not pol:
            return "symmetric"
        if isinstance(o, (ast.Gt, ast.GtE, ast.Lt, ast.LtE)):
            return "symmetric" if has_abs else "one-sided"
    return "unknown"


class InstructionListBuilder:
    """Translates a function that builds `instructions` by `instructions.append(pq.X(args).on_modes(m...))` into the
    product of the embedded passive blocks (later instructions multiply from the left)."""

    def __init__(self, idx: Index, reg: Registry, fn: FuncInfo, env: Dict[str, Any], mode_index: Dict[str, int], dim: int):
        self.idx, self.reg, self.fn = idx, reg, fn
        self.env = dict(env)
        self.mode_index = mode_index  # source text of a mode expression → position
        self.dim = dim
        self.steps: List[Tuple[str, sp.Matrix]] = []
        self.assumptions: List[str] = []

    def resolve_class(self, e: ast.AST) -> Optional[ClassInfo]:
        r = self.idx.resolve_expr(self.fn.module, e)
        if isinstance(r, ClassInfo):
            return r
        # pq.X → piquasso namespace
        if isinstance(e, ast.Attribute) and isinstance(e.value, ast.Name):
            root = self.idx.modules.get("piquasso")
            mod = self.fn.module.imports.get(e.value.id)
            if root is not None and mod and mod[0] == "piquasso":
                r = self.idx.resolve_name(root, e.attr)
                if isinstance(r, ClassInfo):
                    return r
        return None

    def modes_of(self, args: List[ast.AST]) -> List[int]:
        out = []
        for a in args:
            if isinstance(a, ast.Starred):
                txt = norm(a.value)
                seq = [k for k in self.mode_index if k.startswith(txt + "[")]
                if not seq:
                    raise Untranslatable(f"E6: cannot place `*{txt}` in {self.fn.qualname}")
                out.extend(self.mode_index[k] for k in sorted(seq))
                continue
            txt = norm(a)
            if txt in self.mode_index:
                out.append(self.mode_index[txt])
            elif isinstance(a, ast.Name) and a.id in self.env and isinstance(self.env[a.id], int):
                out.append(self.env[a.id])
            else:
                raise Untranslatable(f"E6: cannot place mode expression `{txt}` in {self.fn.qualname}")
        return out

    def instruction_matrix(self, call: ast.Call) -> Tuple[str, sp.Matrix]:
        """pq.X(args).on_modes(modes...)"""
        if not (isinstance(call.func, ast.Attribute) and call.func.attr == "on_modes" and isinstance(call.func.value, ast.Call)):
            raise Untranslatable(f"E6: `{norm(call)[:60]}` is not of the form X(args).on_modes(...)")
        ctor = call.func.value
        cls = self.resolve_class(ctor.func)
        if cls is None:
            raise Untranslatable(f"E6: cannot resolve the gate class in `{norm(ctor)[:50]}`")
        ev = SymEval(self.fn, {}, env=self.env)
        args = [ev.ev(a) for a in ctor.args]
        kwargs = {k.arg: ev.ev(k.value) for k in ctor.keywords if k.arg}
        blk = passive_block(self.reg, cls, args, kwargs)
        pos = self.modes_of(list(call.args))
        if len(pos) != blk.shape[0]:
            raise Untranslatable(f"E6: {cls.name} block is {blk.shape[0]}x{blk.shape[0]} but {len(pos)} modes are given")
        return f"{cls.name}({', '.join(str(a) for a in args)}) on {pos}", embed(blk, pos, self.dim)

    def run_block(self, stmts: List[ast.stmt], list_name: Optional[str] = None) -> Optional[sp.Matrix]:
        if list_name is None:
            # the list the builder fills: the local bound to an empty list literal (whatever it is called)
            names = [a.targets[0].id for a in ast.walk(self.fn.node) if isinstance(a, ast.Assign) and len(a.targets) == 1
                     and isinstance(a.targets[0], ast.Name) and isinstance(a.value, ast.List) and not a.value.elts]
            list_name = names[0] if names else "instructions"
        for s in stmts:
            if isinstance(s, ast.Expr) and isinstance(s.value, ast.Constant):
                continue
            if isinstance(s, ast.Assign) and isinstance(s.value, ast.List) and not s.value.elts:
                continue
            if isinstance(s, ast.Assign) and len(s.targets) == 1 and isinstance(s.targets[0], ast.Name):
                self.env[s.targets[0].id] = SymEval(self.fn, {}, env=self.env).ev(s.value)
                continue
            if isinstance(s, ast.Expr) and isinstance(s.value, ast.Call) and isinstance(s.value.func, ast.Attribute) \
                    and s.value.func.attr == "append" and norm(s.value.func.value) == list_name:
                self.steps.append(self.instruction_matrix(s.value.args[0]))
                continue
            if isinstance(s, ast.If):
                t = norm(s.test)
                kind = classify_skip_guard(s.test, _abs_names(self.fn.node))
                if kind == "symmetric" and not s.orelse:
                    self.assumptions.append(f"{self.fn.name}: the branch `{t}` is taken (generic parameter value); skipping it is the identity at the excluded value")
                    self.run_block(s.body, list_name)
                    continue
                if kind == "one-sided" and not s.orelse:
                    raise GuardViolation(
                        f"the instructions of {self.fn.name} are emitted only when `{t}` holds: the guard is one-sided, so parameter values "
                        f"of the other sign (e.g. negative angles) are silently dropped although they are not the identity", s)
                raise Untranslatable(f"E6: branch `{t}` in {self.fn.qualname}")
            if isinstance(s, ast.Return):
                return None
            raise Untranslatable(f"E6: statement `{norm(s)[:60]}` in {self.fn.qualname}")
        return None

    def product(self) -> sp.Matrix:
        m = sp.eye(self.dim)
        for _, b in self.steps:
            m = b * m
        return m
