"""Module index of /repo/piquasso: parse every file, resolve imports, classes, MRO, methods.

Nothing is imported or executed: everything here is `ast` on the source tree.
"""

from __future__ import annotations

import ast
import os
from dataclasses import dataclass, field
from typing import Dict, Iterator, List, Optional, Tuple, Union

from .report import AnalysisError

PKG = "piquasso"


@dataclass(eq=False)
class FuncInfo:
    name: str
    qualname: str  # module:Class.method or module:function
    module: "ModuleInfo"
    node: Union[ast.FunctionDef, ast.AsyncFunctionDef]
    cls: Optional["ClassInfo"] = None

    @property
    def decorators(self) -> List[str]:
        return [dotted(d.func if isinstance(d, ast.Call) else d) or "?" for d in self.node.decorator_list]

    @property
    def file(self) -> str:
        return self.module.path

    @property
    def line(self) -> int:
        return self.node.lineno

    def params(self) -> List[str]:
        a = self.node.args
        return [x.arg for x in a.posonlyargs + a.args]

    def all_params(self) -> List[str]:
        a = self.node.args
        out = [x.arg for x in a.posonlyargs + a.args + a.kwonlyargs]
        if a.vararg:
            out.append(a.vararg.arg)
        if a.kwarg:
            out.append(a.kwarg.arg)
        return out

    def is_stub_raise(self) -> bool:
        """Body is (docstring +) `raise NotImplementedError...` or `pass`/`...` only."""
        body = [
            s
            for s in self.node.body
            if not (isinstance(s, ast.Expr) and isinstance(s.value, ast.Constant) and isinstance(s.value.value, str))
        ]
        if not body:
            return True
        if len(body) == 1:
            s = body[0]
            if isinstance(s, ast.Raise):
                e = s.exc
                if isinstance(e, ast.Call):
                    e = e.func
                return dotted(e) in ("NotImplementedError",)
            if isinstance(s, ast.Pass):
                return True
            if isinstance(s, ast.Expr) and isinstance(s.value, ast.Constant) and s.value.value is Ellipsis:
                return True
        return False


@dataclass(eq=False)
class ClassInfo:
    name: str
    module: "ModuleInfo"
    node: ast.ClassDef
    base_exprs: List[ast.expr] = field(default_factory=list)
    bases: List["ClassInfo"] = field(default_factory=list)  # resolved in-package bases
    methods: Dict[str, FuncInfo] = field(default_factory=dict)
    attrs: Dict[str, ast.expr] = field(default_factory=dict)  # class-level `name = expr`
    attr_nodes: Dict[str, ast.stmt] = field(default_factory=dict)

    @property
    def qualname(self) -> str:
        return f"{self.module.name}:{self.name}"

    @property
    def file(self) -> str:
        return self.module.path

    def mro(self) -> List["ClassInfo"]:
        out: List[ClassInfo] = []

        def visit(c: "ClassInfo") -> None:
            if c in out:
                return
            out.append(c)
            for b in c.bases:
                visit(b)

        visit(self)
        # depth-first left-to-right with a late-duplicate fix: good enough for this repo's
        # single-inheritance-plus-mixins hierarchies
        return out

    def find_method(self, name: str) -> Optional[FuncInfo]:
        for c in self.mro():
            if name in c.methods:
                return c.methods[name]
        return None

    def find_attr(self, name: str) -> Optional[Tuple["ClassInfo", ast.expr]]:
        for c in self.mro():
            if name in c.attrs:
                return c, c.attrs[name]
        return None

    def is_subclass_of(self, other: "ClassInfo") -> bool:
        return other in self.mro()

    def docstring(self) -> str:
        return ast.get_docstring(self.node) or ""


@dataclass(eq=False)
class ModuleInfo:
    name: str
    path: str
    tree: ast.Module
    source: str
    is_pkg: bool
    imports: Dict[str, Tuple[str, Optional[str]]] = field(default_factory=dict)  # local → (module, attr|None)
    functions: Dict[str, FuncInfo] = field(default_factory=dict)
    classes: Dict[str, ClassInfo] = field(default_factory=dict)
    assigns: Dict[str, ast.expr] = field(default_factory=dict)  # module-level `name = expr` (last wins)

    def segment(self, node: ast.AST) -> str:
        return ast.get_source_segment(self.source, node) or ast.unparse(node)


def dotted(node: Optional[ast.AST]) -> Optional[str]:
    """a.b.c → 'a.b.c' for Name/Attribute chains, else None."""
    parts: List[str] = []
    while isinstance(node, ast.Attribute):
        parts.append(node.attr)
        node = node.value
    if isinstance(node, ast.Name):
        parts.append(node.id)
        return ".".join(reversed(parts))
    return None


def norm(node: ast.AST) -> str:
    """Normalised source text of a construct (position-free key material)."""
    try:
        return ast.unparse(node)
    except Exception:  # pragma: no cover
        return ast.dump(node)


def _contains_call(e: ast.AST) -> bool:
    return any(isinstance(n, ast.Call) for n in ast.walk(e))


class _Canon(ast.NodeTransformer):
    """Value-preserving rewrites applied to every module before analysis, so that the rules see one shape for code that
    differs only in these ways (plus: single-use temporaries consumed by the next statement are substituted, see
    _inline_single_use_temps):
      * `t = E; return t`  (t bound once, used only in that return)   ->  `return E`
      * `if a:\n    if b: X`  (no else on either, nothing else in the outer body)  ->  `if a and b: X`
    Line numbers are kept from the original statements."""

    def _inline_return_temps(self, fn: ast.AST) -> None:
        loads: Dict[str, int] = {}
        stores: Dict[str, int] = {}
        for n in ast.walk(fn):
            if isinstance(n, ast.Name):
                d = loads if isinstance(n.ctx, ast.Load) else stores
                d[n.id] = d.get(n.id, 0) + 1

        # adjacent (t = E; return t) pairs per name: a name all of whose loads and stores are in such pairs is a pure return temporary
        pairs: Dict[str, int] = {}
        for n in ast.walk(fn):
            for f in ("body", "orelse", "finalbody"):
                sub = getattr(n, f, None)
                if isinstance(sub, list):
                    for a, b in zip(sub, sub[1:]):
                        if isinstance(a, ast.Assign) and len(a.targets) == 1 and isinstance(a.targets[0], ast.Name) and isinstance(b, ast.Return) \
                                and isinstance(b.value, ast.Name) and b.value.id == a.targets[0].id:
                            pairs[a.targets[0].id] = pairs.get(a.targets[0].id, 0) + 1
            if isinstance(n, ast.ExceptHandler):
                for a, b in zip(n.body, n.body[1:]):
                    if isinstance(a, ast.Assign) and len(a.targets) == 1 and isinstance(a.targets[0], ast.Name) and isinstance(b, ast.Return) \
                            and isinstance(b.value, ast.Name) and b.value.id == a.targets[0].id:
                        pairs[a.targets[0].id] = pairs.get(a.targets[0].id, 0) + 1

        def block(stmts: List[ast.stmt]) -> List[ast.stmt]:
            out: List[ast.stmt] = []
            i = 0
            while i < len(stmts):
                s = stmts[i]
                nxt = stmts[i + 1] if i + 1 < len(stmts) else None
                if isinstance(s, ast.Assign) and len(s.targets) == 1 and isinstance(s.targets[0], ast.Name) and isinstance(nxt, ast.Return) \
                        and isinstance(nxt.value, ast.Name) and nxt.value.id == s.targets[0].id \
                        and loads.get(s.targets[0].id, 0) == pairs.get(s.targets[0].id, -1) == stores.get(s.targets[0].id, 0):
                    out.append(ast.copy_location(ast.Return(value=s.value), s))
                    i += 2
                    continue
                for f in ("body", "orelse", "finalbody"):
                    sub = getattr(s, f, None)
                    if isinstance(sub, list) and sub and isinstance(sub[0], ast.stmt) and not isinstance(s, (ast.FunctionDef, ast.AsyncFunctionDef, ast.ClassDef)):
                        setattr(s, f, block(sub))
                if isinstance(s, ast.Try):
                    for h in s.handlers:
                        h.body = block(h.body)
                out.append(s)
                i += 1
            return out

        fn.body = block(fn.body)

    def _inline_single_use_temps(self, fn: ast.AST) -> None:
        """`t = E; S` -> S with E for t, when t is stored once and loaded once in the whole function, the load is in the statement that
        follows the store directly (not under a lambda / comprehension / nested function), and no call of S is evaluated before the load
        (so no effect can come between E and its use).  Undoes "extract variable" on the first operand of a statement."""
        loads: Dict[str, int] = {}
        stores: Dict[str, int] = {}
        for n in ast.walk(fn):
            if isinstance(n, ast.Name):
                d = loads if isinstance(n.ctx, ast.Load) else stores
                d[n.id] = d.get(n.id, 0) + 1
            elif isinstance(n, (ast.Global, ast.Nonlocal)):
                for nm in n.names:
                    stores[nm] = stores.get(nm, 0) + 5
        params = {a.arg for a in ast.walk(fn) if isinstance(a, ast.arg)}

        def usable(nxt: ast.stmt, name: str) -> Optional[ast.Name]:
            if not isinstance(nxt, (ast.Assign, ast.Expr, ast.Return, ast.AugAssign, ast.AnnAssign)):
                return None
            hit: List[ast.Name] = []
            blocked = False

            def rec(x: ast.AST, deep: bool) -> None:
                nonlocal blocked
                if isinstance(x, ast.Name) and x.id == name and isinstance(x.ctx, ast.Load):
                    if deep:
                        blocked = True
                    hit.append(x)
                for c in ast.iter_child_nodes(x):
                    rec(c, deep or isinstance(x, (ast.Lambda, ast.ListComp, ast.SetComp, ast.DictComp, ast.GeneratorExp, ast.FunctionDef,
                                                   ast.IfExp, ast.BoolOp)))
            rec(nxt, False)
            if blocked or len(hit) != 1:
                return None
            u = hit[0]
            # no call evaluated before the load
            for c in ast.walk(nxt):
                if isinstance(c, ast.Call) and not any(y is u for y in ast.walk(c)):
                    if (c.lineno, c.col_offset) < (u.lineno, u.col_offset):
                        return None
                elif isinstance(c, ast.Call) and any(y is u for y in ast.walk(c.func)) is False and _contains_call(c.func):
                    return None
            if isinstance(nxt, ast.AugAssign):
                return None if any(y is u for y in ast.walk(nxt.target)) else u
            return u

        def block(stmts: List[ast.stmt]) -> List[ast.stmt]:
            out: List[ast.stmt] = []
            i = 0
            while i < len(stmts):
                s = stmts[i]
                nxt = stmts[i + 1] if i + 1 < len(stmts) else None
                if isinstance(s, ast.Assign) and len(s.targets) == 1 and isinstance(s.targets[0], ast.Name) and nxt is not None \
                        and isinstance(s.value, (ast.Call, ast.BinOp, ast.Subscript, ast.Attribute, ast.UnaryOp)):
                    name = s.targets[0].id
                    if stores.get(name, 0) == 1 and loads.get(name, 0) == 1 and name not in params:
                        u = usable(nxt, name)
                        if u is not None:
                            class _Sub(ast.NodeTransformer):
                                def visit_Name(self_inner, n):  # noqa: N805
                                    return s.value if n is u else n
                            stmts[i + 1] = _Sub().visit(nxt)
                            i += 1
                            continue
                for f in ("body", "orelse", "finalbody"):
                    sub = getattr(s, f, None)
                    if isinstance(sub, list) and sub and isinstance(sub[0], ast.stmt) and not isinstance(s, (ast.FunctionDef, ast.AsyncFunctionDef, ast.ClassDef)):
                        setattr(s, f, block(sub))
                if isinstance(s, ast.Try):
                    for h in s.handlers:
                        h.body = block(h.body)
                out.append(s)
                i += 1
            return out

        fn.body = block(fn.body)

    def visit_FunctionDef(self, node):
        self.generic_visit(node)
        self._inline_return_temps(node)
        if not os.environ.get("PQSTATIC_NO_INLINE_TEMPS"):
            self._inline_single_use_temps(node)
        return node

    visit_AsyncFunctionDef = visit_FunctionDef

    def visit_Module(self, node):
        # signatures of the plain functions of the module, for the canonical (positional) form of calls between them
        self._sigs = {}
        for s_ in node.body:
            if isinstance(s_, ast.FunctionDef) and not s_.args.vararg and not s_.args.posonlyargs:
                self._sigs[s_.name] = [a.arg for a in s_.args.args]
        self.generic_visit(node)
        return node

    def visit_Call(self, node):
        self.generic_visit(node)
        sigs = getattr(self, "_sigs", {})
        # f(a=x, b=y) with (a, b) the leading parameters of a plain function of the same module  ->  f(x, y)
        if isinstance(node.func, ast.Name) and node.func.id in sigs and not node.args and node.keywords \
                and all(k.arg is not None for k in node.keywords):
            names = sigs[node.func.id]
            given = [k.arg for k in node.keywords]
            n_lead = 0
            while n_lead < len(given) and n_lead < len(names) and given[n_lead] == names[n_lead]:
                n_lead += 1
            if n_lead == len(given) and n_lead > 0:
                return ast.copy_location(ast.Call(func=node.func, args=[k.value for k in node.keywords], keywords=[]), node)
        return node

    def visit_If(self, node):
        self.generic_visit(node)
        # `if not c: B else: A`  ->  `if c: A else: B`   (plain if/else only)
        if node.orelse and not (len(node.orelse) == 1 and isinstance(node.orelse[0], ast.If)) \
                and isinstance(node.test, ast.UnaryOp) and isinstance(node.test.op, ast.Not):
            node = ast.copy_location(ast.If(test=node.test.operand, body=node.orelse, orelse=node.body), node)
        if not node.orelse and len(node.body) == 1 and isinstance(node.body[0], ast.If) and not node.body[0].orelse:
            inner = node.body[0]
            vals = (node.test.values if isinstance(node.test, ast.BoolOp) and isinstance(node.test.op, ast.And) else [node.test]) + \
                   (inner.test.values if isinstance(inner.test, ast.BoolOp) and isinstance(inner.test.op, ast.And) else [inner.test])
            test = ast.copy_location(ast.BoolOp(op=ast.And(), values=list(vals)), node.test)
            return ast.copy_location(ast.If(test=test, body=inner.body, orelse=[]), node)
        return node


def _canon_private_params(tree: ast.Module) -> None:
    """A parameter of a private module-level function (only ever called directly by name inside its module) is named after what it is
    bound to: when every call site passes a *parameter of the calling function* of one and the same name N for it, the parameter is
    called N (unless N is already used inside the callee).  Only parameters qualify as donors: they keep their names when locals are renamed.  On code that follows the usual convention (`helper(state=state, shots=shots)`) this changes nothing;
    it makes the rules see the same names after a parameter of a helper was renamed."""
    uses: Dict[str, int] = {}
    calls: Dict[str, List[ast.Call]] = {}
    # parameters in scope at each call site (of the calling function and of the functions it is nested in): only such names are stable
    # under a renaming of locals, so only they may give a callee's parameter its canonical name
    scope_params: Dict[int, set] = {}

    def visit(node: ast.AST, params: frozenset) -> None:
        if isinstance(node, (ast.FunctionDef, ast.AsyncFunctionDef, ast.Lambda)):
            a = node.args
            params = params | frozenset(x.arg for x in a.posonlyargs + a.args + a.kwonlyargs) | frozenset(x.arg for x in (a.vararg, a.kwarg) if x)
        if isinstance(node, ast.Call):
            scope_params[id(node)] = set(params)
        for ch in ast.iter_child_nodes(node):
            visit(ch, params)
    visit(tree, frozenset())
    for n in ast.walk(tree):
        if isinstance(n, ast.Name) and isinstance(n.ctx, ast.Load):
            uses[n.id] = uses.get(n.id, 0) + 1
        if isinstance(n, ast.Call) and isinstance(n.func, ast.Name):
            calls.setdefault(n.func.id, []).append(n)
    for f in tree.body:
        if not (isinstance(f, ast.FunctionDef) and f.name.startswith("_") and not f.name.startswith("__")):
            continue
        sites = calls.get(f.name, [])
        if not sites or uses.get(f.name, 0) != len(sites) or f.args.vararg or f.args.kwarg:
            continue
        if any(isinstance(x, (ast.Lambda, ast.ClassDef, ast.Global, ast.Nonlocal)) or (isinstance(x, ast.FunctionDef) and x is not f) for x in ast.walk(f)):
            continue
        if any(isinstance(a, ast.Starred) for c in sites for a in c.args) or any(k.arg is None for c in sites for k in c.keywords):
            continue
        pos = [a.arg for a in f.args.args]
        allp = pos + [a.arg for a in f.args.kwonlyargs]
        body_names = {x.id for x in ast.walk(f) if isinstance(x, ast.Name)} | set(allp)
        ren: Dict[str, str] = {}
        for p_ in allp:
            given = set()
            for c in sites:
                a_ = None
                if p_ in pos and pos.index(p_) < len(c.args):
                    a_ = c.args[pos.index(p_)]
                else:
                    a_ = next((k.value for k in c.keywords if k.arg == p_), None)
                if isinstance(a_, ast.Name) and a_.id == p_ and any(x is c for x in ast.walk(f)):
                    continue   # a recursive call that passes the parameter on says nothing about its name
                given.add(a_.id if isinstance(a_, ast.Name) and a_.id in scope_params.get(id(c), ()) else None)
            if len(given) == 1 and None not in given:
                new = next(iter(given))
                if new != p_ and new not in body_names and new not in ren.values() and new not in ("self", "cls"):
                    ren[p_] = new
        if not ren:
            continue
        for a in f.args.args + f.args.kwonlyargs:
            a.arg = ren.get(a.arg, a.arg)
        for x in ast.walk(f):
            if isinstance(x, ast.Name) and x.id in ren:
                x.id = ren[x.id]
        for c in sites:
            for k in c.keywords:
                if k.arg in ren:
                    k.arg = ren[k.arg]


def canonicalise(tree: ast.Module) -> ast.Module:
    if not os.environ.get("PQSTATIC_NO_PARAM_CANON"):
        _canon_private_params(tree)
    return ast.fix_missing_locations(_Canon().visit(tree))


class Index:
    def __init__(self, repo: str):
        self.repo = repo
        self.root = os.path.join(repo, PKG)
        if not os.path.isdir(self.root):
            raise AnalysisError(f"anchor vanished: package directory {self.root} does not exist")
        self.modules: Dict[str, ModuleInfo] = {}
        self._load()
        self._link()

    # ---- loading -------------------------------------------------------------------------
    def _load(self) -> None:
        for dirpath, dirnames, filenames in os.walk(self.root):
            dirnames[:] = sorted(d for d in dirnames if d != "__pycache__")
            for fn in sorted(filenames):
                if not fn.endswith(".py"):
                    continue
                path = os.path.join(dirpath, fn)
                rel = os.path.relpath(path, self.repo)[:-3].replace(os.sep, ".")
                is_pkg = False
                if rel.endswith(".__init__"):
                    rel = rel[: -len(".__init__")]
                    is_pkg = True
                with open(path, encoding="utf-8") as fh:
                    src = fh.read()
                try:
                    tree = ast.parse(src, filename=path)
                except SyntaxError as e:
                    raise AnalysisError(f"cannot parse {path}: {e}") from e
                tree = canonicalise(tree)
                self.modules[rel] = ModuleInfo(rel, path, tree, src, is_pkg)
        for m in self.modules.values():
            self._scan_module(m)

    def _abs_module(self, m: ModuleInfo, level: int, module: Optional[str]) -> str:
        if level == 0:
            return module or ""
        parts = m.name.split(".")
        if not m.is_pkg:
            parts = parts[:-1]
        if level > 1:
            parts = parts[: len(parts) - (level - 1)]
        base = ".".join(parts)
        return f"{base}.{module}" if module else base

    def _scan_module(self, m: ModuleInfo) -> None:
        def scan(stmts: List[ast.stmt]) -> None:
            for s in stmts:
                if isinstance(s, ast.Import):
                    for a in s.names:
                        if a.asname:
                            m.imports[a.asname] = (a.name, None)
                        else:
                            top = a.name.split(".")[0]
                            m.imports[top] = (top, None)
                elif isinstance(s, ast.ImportFrom):
                    mod = self._abs_module(m, s.level, s.module)
                    for a in s.names:
                        m.imports[a.asname or a.name] = (mod, a.name)
                elif isinstance(s, (ast.FunctionDef, ast.AsyncFunctionDef)):
                    m.functions[s.name] = FuncInfo(s.name, f"{m.name}:{s.name}", m, s)
                elif isinstance(s, ast.ClassDef):
                    ci = ClassInfo(s.name, m, s, list(s.bases))
                    for b in s.body:
                        if isinstance(b, (ast.FunctionDef, ast.AsyncFunctionDef)):
                            # property setters share the name: keep getter under name, setter under name.setter
                            key = b.name
                            decs = [dotted(d) or "" for d in b.decorator_list]
                            if any(d.endswith(".setter") for d in decs):
                                key = b.name + ".setter"
                            ci.methods[key] = FuncInfo(b.name, f"{m.name}:{s.name}.{key}", m, b, ci)
                        elif isinstance(b, ast.Assign):
                            for t in b.targets:
                                if isinstance(t, ast.Name):
                                    ci.attrs[t.id] = b.value
                                    ci.attr_nodes[t.id] = b
                        elif isinstance(b, ast.AnnAssign) and isinstance(b.target, ast.Name) and b.value is not None:
                            ci.attrs[b.target.id] = b.value
                            ci.attr_nodes[b.target.id] = b
                    m.classes[s.name] = ci
                elif isinstance(s, ast.Assign):
                    for t in s.targets:
                        if isinstance(t, ast.Name):
                            m.assigns[t.id] = s.value
                elif isinstance(s, ast.AnnAssign) and isinstance(s.target, ast.Name) and s.value is not None:
                    m.assigns[s.target.id] = s.value
                elif isinstance(s, ast.If):
                    # `if typing.TYPE_CHECKING:` imports and platform guards
                    scan(s.body)
                    scan(s.orelse)
                elif isinstance(s, ast.Try):
                    scan(s.body)
                    for h in s.handlers:
                        scan(h.body)
                    scan(s.orelse)

        scan(m.tree.body)

    def _link(self) -> None:
        for m in self.modules.values():
            for c in m.classes.values():
                for b in c.base_exprs:
                    r = self.resolve_expr(m, b)
                    if isinstance(r, ClassInfo):
                        c.bases.append(r)

    # ---- resolution ----------------------------------------------------------------------
    def module(self, name: str) -> ModuleInfo:
        if name not in self.modules:
            raise AnalysisError(f"anchor vanished: module {name}")
        return self.modules[name]

    def resolve_name(self, m: ModuleInfo, name: str, _depth: int = 0):
        """Resolve a bare name in module m to FuncInfo | ClassInfo | ModuleInfo | ('expr', module, node) |
        ('external', dotted)."""
        if _depth > 12:
            return None
        if name in m.functions:
            return m.functions[name]
        if name in m.classes:
            return m.classes[name]
        if name in m.assigns:
            e = m.assigns[name]
            if isinstance(e, (ast.Name, ast.Attribute)) and not (isinstance(e, ast.Name) and e.id == name):
                r = self._resolve_alias(m, e, _depth + 1)
                if r is not None:
                    return r
            return ("expr", m, e)
        if name in m.imports:
            mod, attr = m.imports[name]
            if attr is None:
                if mod in self.modules:
                    return self.modules[mod]
                return ("external", mod)
            # `from pkg import sub` may be a submodule
            sub = f"{mod}.{attr}" if mod else attr
            if mod in self.modules:
                target = self.modules[mod]
                r = self.resolve_name(target, attr, _depth + 1)
                if r is not None:
                    return r
                if sub in self.modules:
                    return self.modules[sub]
                return None
            if sub in self.modules:
                return self.modules[sub]
            return ("external", sub)
        return None

    def _resolve_alias(self, m: ModuleInfo, e: ast.AST, depth: int):
        if depth > 12:
            return None
        if isinstance(e, ast.Name):
            return self.resolve_name(m, e.id, depth)
        return self.resolve_expr(m, e)

    def resolve_expr(self, m: ModuleInfo, node: ast.AST):
        """Resolve Name / dotted Attribute chains through modules and classes."""
        if isinstance(node, ast.Name):
            return self.resolve_name(m, node.id)
        if isinstance(node, ast.Attribute):
            base = self.resolve_expr(m, node.value)
            if isinstance(base, ModuleInfo):
                r = self.resolve_name(base, node.attr)
                if r is None:
                    sub = f"{base.name}.{node.attr}"
                    if sub in self.modules:
                        return self.modules[sub]
                return r
            if isinstance(base, ClassInfo):
                meth = base.find_method(node.attr)
                if meth:
                    return meth
                a = base.find_attr(node.attr)
                if a:
                    return ("expr", a[0].module, a[1])
                return None
            if isinstance(base, tuple) and base[0] == "external":
                return ("external", base[1] + "." + node.attr)
            return None
        if isinstance(node, ast.Subscript):  # Generic[...] bases etc.
            return self.resolve_expr(m, node.value)
        return None

    # ---- queries -------------------------------------------------------------------------
    def all_classes(self) -> Iterator[ClassInfo]:
        for m in self.modules.values():
            yield from m.classes.values()

    def all_functions(self, include_methods: bool = True, include_nested: bool = False) -> Iterator[FuncInfo]:
        for m in self.modules.values():
            tops = list(m.functions.values())
            if include_methods:
                for c in m.classes.values():
                    tops.extend(c.methods.values())
            for f in tops:
                yield f
                if include_nested:
                    yield from self.nested_functions(f)

    def subclasses(self, base: ClassInfo, strict: bool = True) -> List[ClassInfo]:
        return [c for c in self.all_classes() if c.is_subclass_of(base) and (c is not base or not strict)]

    def find_class(self, module: str, name: str) -> ClassInfo:
        m = self.module(module)
        if name not in m.classes:
            raise AnalysisError(f"anchor vanished: class {module}:{name}")
        return m.classes[name]

    def find_function(self, module: str, name: str) -> FuncInfo:
        m = self.module(module)
        if "." in name:
            cn, mn = name.split(".", 1)
            if cn not in m.classes or mn not in m.classes[cn].methods:
                raise AnalysisError(f"anchor vanished: method {module}:{name}")
            return m.classes[cn].methods[mn]
        if name not in m.functions:
            raise AnalysisError(f"anchor vanished: function {module}:{name}")
        return m.functions[name]

    def find_function_anywhere(self, module: str, name: str) -> FuncInfo:
        """Module-level function, following re-exports (imports) of that module."""
        m = self.module(module)
        r = self.resolve_name(m, name)
        if isinstance(r, FuncInfo):
            return r
        raise AnalysisError(f"anchor vanished: function {module}:{name}")

    def nested_functions(self, fn: FuncInfo) -> List[FuncInfo]:
        out = []
        for n in ast.walk(fn.node):
            if n is not fn.node and isinstance(n, (ast.FunctionDef, ast.AsyncFunctionDef)):
                out.append(FuncInfo(n.name, f"{fn.qualname}.<locals>.{n.name}", fn.module, n, fn.cls))
        return out


_CACHE: Dict[str, Index] = {}


def get_index(repo: str) -> Index:
    if repo not in _CACHE:
        _CACHE[repo] = Index(repo)
    return _CACHE[repo]


# ---- small AST helpers used by many rules ------------------------------------------------


def walk_no_nested(node: ast.AST) -> Iterator[ast.AST]:
    """ast.walk that does not descend into nested function/class/lambda bodies."""
    stack = [node]
    first = True
    while stack:
        n = stack.pop()
        if not first and isinstance(n, (ast.FunctionDef, ast.AsyncFunctionDef, ast.ClassDef, ast.Lambda)):
            continue
        first = False
        yield n
        stack.extend(reversed(list(ast.iter_child_nodes(n))))


def calls_in(node: ast.AST, nested: bool = True) -> Iterator[ast.Call]:
    it = ast.walk(node) if nested else walk_no_nested(node)
    for n in it:
        if isinstance(n, ast.Call):
            yield n


def call_name(call: ast.Call) -> Optional[str]:
    return dotted(call.func)


def last_attr(call: ast.Call) -> Optional[str]:
    f = call.func
    if isinstance(f, ast.Attribute):
        return f.attr
    if isinstance(f, ast.Name):
        return f.id
    return None


def const_str(node: ast.AST) -> Optional[str]:
    if isinstance(node, ast.Constant) and isinstance(node.value, str):
        return node.value
    return None
