"""A small algebra for quadratic forms  u^dagger T u  whose kernel T is built from one general matrix S, commuting diagonal matrices (each
with an inverse) and one inverse of a sum.  Used to compare two implementations of the same exponent that are written in different
parametrisations (C09g): instead of inverting sums, both kernels are inverted *symbolically*,  inv(L inv(M) R) = inv(R) M inv(L),  and the
results - polynomials in S with diagonal coefficients - are compared in a normal form where diagonal factors between two S commute.

A word is a tuple of segments (one more than the number of S factors); a segment is a sorted tuple of (diagonal symbol, integer power).
An expression maps words to complex-rational coefficients (sympy numbers)."""

from __future__ import annotations

from typing import Dict, Tuple

import sympy as sp

Seg = Tuple[Tuple[str, int], ...]
Word = Tuple[Seg, ...]
Expr = Dict[Word, sp.Expr]


def _seg(d: Dict[str, int]) -> Seg:
    return tuple(sorted((k, v) for k, v in d.items() if v != 0))


def diag(name: str, power: int = 1) -> Expr:
    return {(_seg({name: power}),): sp.Integer(1)}


def general() -> Expr:
    """the one non-diagonal matrix S"""
    return {((), ()): sp.Integer(1)}


def ident() -> Expr:
    return {((),): sp.Integer(1)}


def scale(a: Expr, k) -> Expr:
    k = sp.nsimplify(k)
    return {w: sp.simplify(c * k) for w, c in a.items() if sp.simplify(c * k) != 0}


def add(a: Expr, b: Expr, sign: int = 1) -> Expr:
    out = dict(a)
    for w, c in b.items():
        v = sp.simplify(out.get(w, 0) + sign * c)
        if v == 0:
            out.pop(w, None)
        else:
            out[w] = v
    return out


def mul(a: Expr, b: Expr) -> Expr:
    out: Expr = {}
    for wa, ca in a.items():
        for wb, cb in b.items():
            mid: Dict[str, int] = {}
            for k, v in wa[-1] + wb[0]:
                mid[k] = mid.get(k, 0) + v
            w = wa[:-1] + (_seg(mid),) + wb[1:]
            v = sp.simplify(out.get(w, 0) + ca * cb)
            if v == 0:
                out.pop(w, None)
            else:
                out[w] = v
    return out


def inv_diag(a: Expr) -> Expr:
    """inverse of a product of diagonal symbols (a single word without S)"""
    if len(a) != 1:
        raise ValueError("inverse of a sum")
    (w, c), = a.items()
    if len(w) != 1:
        raise ValueError("inverse of a word containing the general matrix")
    return {(_seg({k: -v for k, v in w[0]}),): 1 / c}


def fmt(a: Expr) -> str:
    def seg(s: Seg) -> str:
        return " ".join(k if v == 1 else f"{k}^{v}" for k, v in s)
    parts = []
    for w, c in sorted(a.items(), key=repr):
        body = " S ".join(seg(s) for s in w).strip() or "I"
        parts.append(f"({c}) {body}")
    return " + ".join(parts) or "0"
