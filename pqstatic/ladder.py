"""Ladder-operator words from numpy shift/weight idioms (an E6 variant for the hand-written gradients).

The gradient functions of the displacement and squeezing matrices are written with `np.roll` and vectors of square
roots of indices.  This module reads such code into sums of words  coeff * (a^dagger)^i T a^j  where T is the matrix
the gradient is taken of:

    (a^dagger^i T a^j)[m, n] = sqrt(m (m-1) .. (m-i+1)) * sqrt(n (n-1) .. (n-j+1)) * T[m-i, n-j]

Abstract values
  Sc(expr)                 scalar (sympy expression in the real symbols r, phi)
  Wt(offsets, scalar)      weight vector  n -> scalar * prod_{o in offsets} sqrt(n - o)   (np.sqrt(range(cutoff)) is
                           offsets {0}; np.roll(w, 1) shifts every offset by one; products unite the offsets)
  Mat(terms, transposed)   sum of terms (row shift, column shift, row offsets, column offsets) -> scalar, acting on T

A term is a ladder word iff its row offsets are exactly {0 .. row shift - 1} and its column offsets {0 .. column shift - 1}:
then the wrapped-around entries of np.roll are multiplied by sqrt(0) and the term equals (a^dagger)^i T a^j on the
truncated space.  Anything else is not a ladder word and is reported as such.  No repository code is executed.
"""

from __future__ import annotations

import ast
from dataclasses import dataclass
from typing import Dict, FrozenSet, Optional, Tuple

import sympy as sp

from .index import dotted, norm

R, PHI = sp.Symbol("r", real=True), sp.Symbol("phi", real=True)


class NotLadder(Exception):
    pass


@dataclass(frozen=True)
class Sc:
    e: sp.Expr


@dataclass(frozen=True)
class Wt:
    offsets: FrozenSet[int]
    scalar: sp.Expr


TermKey = Tuple[int, int, FrozenSet[int], FrozenSet[int]]


@dataclass
class Mat:
    terms: Dict[TermKey, sp.Expr]
    transposed: bool = False

    def scaled(self, k: sp.Expr) -> "Mat":
        return Mat({t: sp.expand(c * k) for t, c in self.terms.items()}, self.transposed)


def base_matrix() -> Mat:
    return Mat({(0, 0, frozenset(), frozenset()): sp.Integer(1)})


def _add(a: Mat, b: Mat, sign: int = 1) -> Mat:
    if a.transposed != b.transposed:
        raise NotLadder("sum of a matrix and a transposed matrix")
    out = dict(a.terms)
    for t, c in b.terms.items():
        out[t] = sp.expand(out.get(t, 0) + sign * c)
    return Mat({t: c for t, c in out.items() if c != 0}, a.transposed)


class LadderEval:
    def __init__(self, env: Dict[str, object]):
        self.env = dict(env)

    def scalar(self, e: ast.AST) -> Optional[sp.Expr]:
        v = self.ev(e)
        return v.e if isinstance(v, Sc) else None

    def ev(self, e: ast.AST):
        if isinstance(e, ast.Constant):
            if isinstance(e.value, complex):
                return Sc(sp.I * sp.nsimplify(e.value.imag) + sp.nsimplify(e.value.real))
            if isinstance(e.value, (int, float)) and not isinstance(e.value, bool):
                return Sc(sp.nsimplify(e.value))
            raise NotLadder(f"constant {e.value!r}")
        if isinstance(e, ast.Name):
            if e.id in self.env:
                return self.env[e.id]
            raise NotLadder(f"free name `{e.id}`")
        if isinstance(e, ast.UnaryOp) and isinstance(e.op, ast.USub):
            return self.mul(Sc(sp.Integer(-1)), self.ev(e.operand))
        if isinstance(e, ast.Attribute) and e.attr == "T":
            v = self.ev(e.value)
            if isinstance(v, Mat):
                return Mat(dict(v.terms), not v.transposed)
            raise NotLadder(".T of a non-matrix")
        if isinstance(e, ast.BinOp):
            l, r = self.ev(e.left), self.ev(e.right)
            if isinstance(e.op, ast.Mult):
                return self.mul(l, r)
            if isinstance(e.op, ast.Div) and isinstance(r, Sc):
                return self.mul(l, Sc(1 / r.e))
            if isinstance(e.op, ast.Pow) and isinstance(l, Sc) and isinstance(r, Sc):
                return Sc(l.e ** r.e)
            if isinstance(e.op, (ast.Add, ast.Sub)):
                sign = 1 if isinstance(e.op, ast.Add) else -1
                if isinstance(l, Sc) and isinstance(r, Sc):
                    return Sc(l.e + sign * r.e)
                if isinstance(l, Mat) and isinstance(r, Mat):
                    return _add(l, r, sign)
            raise NotLadder(f"operator in `{norm(e)[:60]}`")
        if isinstance(e, ast.Call):
            name = (dotted(e.func) or "").split(".")[-1]
            args = e.args
            kw = {k.arg: k.value for k in e.keywords}
            if name in ("exp", "cosh", "sinh", "tanh", "cos", "sin") and len(args) == 1:
                v = self.ev(args[0])
                if isinstance(v, Sc):
                    return Sc(getattr(sp, name)(v.e))
            if name == "sqrt" and len(args) == 1:
                a = args[0]
                if isinstance(a, ast.Call) and (dotted(a.func) or "").split(".")[-1] in ("range", "arange") and a.args \
                        and norm(a.args[0]) == "cutoff":
                    return Wt(frozenset({0}), sp.Integer(1))
                v = self.ev(a)
                if isinstance(v, Sc):
                    return Sc(sp.sqrt(v.e))
            if name == "roll" and len(args) >= 2:
                v = self.ev(args[0])
                shift = args[1]
                axis = kw.get("axis", args[2] if len(args) > 2 else None)
                if isinstance(v, Wt) and isinstance(shift, ast.Constant) and isinstance(shift.value, int) and axis is None:
                    return Wt(frozenset(o + shift.value for o in v.offsets), v.scalar)
                if isinstance(v, Mat) and not v.transposed:
                    if isinstance(shift, ast.Constant) and isinstance(axis, ast.Constant):
                        pairs = [(shift.value, axis.value)]
                    elif isinstance(shift, ast.Tuple) and isinstance(axis, ast.Tuple) and len(shift.elts) == len(axis.elts):
                        pairs = [(s.value, a.value) for s, a in zip(shift.elts, axis.elts) if isinstance(s, ast.Constant) and isinstance(a, ast.Constant)]
                    else:
                        raise NotLadder("roll with a non-constant shift")
                    out = {}
                    for (i, j, jr, jc), c in v.terms.items():
                        if jr or jc:
                            raise NotLadder("roll of an already weighted matrix")
                        for s, a in pairs:
                            if a == 0:
                                i += s
                            elif a == 1:
                                j += s
                            else:
                                raise NotLadder("roll axis")
                        out[(i, j, jr, jc)] = c
                    return Mat(out)
            if name == "outer" and len(args) == 2:
                a, b = self.ev(args[0]), self.ev(args[1])
                if isinstance(a, Wt) and isinstance(b, Wt):
                    return ("outer", a, b)
            if name in ("conj", "conjugate") and len(args) == 1:
                v = self.ev(args[0])
                if isinstance(v, Sc):
                    return Sc(sp.conjugate(v.e))
            if name in ("abs", "absolute") and len(args) == 1:
                v = self.ev(args[0])
                if isinstance(v, Sc):
                    return Sc(sp.Abs(v.e))
            if name in ("real", "imag", "angle") and len(args) == 1:
                v = self.ev(args[0])
                if isinstance(v, Sc):
                    return Sc({"real": sp.re, "imag": sp.im, "angle": sp.arg}[name](v.e))
            raise NotLadder(f"call `{norm(e)[:60]}`")
        raise NotLadder(f"expression `{norm(e)[:60]}`")

    def mul(self, l, r):
        if isinstance(l, Sc) and isinstance(r, Sc):
            return Sc(l.e * r.e)
        if isinstance(l, Sc) and isinstance(r, Wt):
            return Wt(r.offsets, r.scalar * l.e)
        if isinstance(l, Wt) and isinstance(r, Sc):
            return Wt(l.offsets, l.scalar * r.e)
        if isinstance(l, Wt) and isinstance(r, Wt):
            if l.offsets & r.offsets:
                raise NotLadder("a square of a square root of an index")
            return Wt(l.offsets | r.offsets, l.scalar * r.scalar)
        if isinstance(l, Sc) and isinstance(r, Mat):
            return r.scaled(l.e)
        if isinstance(l, Mat) and isinstance(r, Sc):
            return l.scaled(r.e)
        if isinstance(l, Mat) and isinstance(r, Wt):
            l, r = r, l
        if isinstance(l, Wt) and isinstance(r, Mat):
            # numpy broadcasting: a vector scales along the last axis = columns of the array as stored
            out = {}
            for (i, j, jr, jc), c in r.terms.items():
                if r.transposed:
                    if jr:
                        raise NotLadder("rows weighted twice")
                    out[(i, j, l.offsets, jc)] = sp.expand(c * l.scalar)
                else:
                    if jc:
                        raise NotLadder("columns weighted twice")
                    out[(i, j, jr, l.offsets)] = sp.expand(c * l.scalar)
            return Mat(out, r.transposed)
        if isinstance(l, tuple) and l and l[0] == "outer" and isinstance(r, Mat):
            l, r = r, l
        if isinstance(r, tuple) and r and r[0] == "outer" and isinstance(l, Mat):
            _, a, b = r
            if l.transposed:
                a, b = b, a
            out = {}
            for (i, j, jr, jc), c in l.terms.items():
                if jr or jc:
                    raise NotLadder("weights applied twice")
                out[(i, j, a.offsets, b.offsets)] = sp.expand(c * a.scalar * b.scalar)
            return Mat(out, l.transposed)
        if isinstance(l, Sc) and isinstance(r, tuple):
            return ("outer", Wt(r[1].offsets, r[1].scalar * l.e), r[2])
        if isinstance(l, tuple) and isinstance(r, Sc):
            return ("outer", Wt(l[1].offsets, l[1].scalar * r.e), l[2])
        raise NotLadder("product of unsupported operands")


def words(m: Mat) -> Dict[Tuple[int, int], sp.Expr]:
    """(i, j) -> coefficient of (a^dagger)^i T a^j; raises NotLadder when a term is not a ladder word."""
    if m.transposed:
        raise NotLadder("result left transposed")
    out: Dict[Tuple[int, int], sp.Expr] = {}
    for (i, j, jr, jc), c in m.terms.items():
        if i < 0 or j < 0 or jr != frozenset(range(i)) or jc != frozenset(range(j)):
            raise NotLadder(f"shift ({i}, {j}) with row weights sqrt(n-o), o in {sorted(jr)} and column weights o in {sorted(jc)} "
                            "is not a ladder word (the weights must vanish exactly on the wrapped-around entries)")
        out[(i, j)] = sp.expand(out.get((i, j), 0) + c)
    return {k: v for k, v in out.items() if sp.simplify(v) != 0}


def oracle(c: sp.Expr, A: sp.Expr, g: sp.Expr, B: sp.Expr, p: int, theta: sp.Symbol) -> Dict[Tuple[int, int], sp.Expr]:
    """d/dtheta of X = c * exp(A a^dagger^p) * g^(a^dagger a) * exp(B a^p) as ladder words acting on X:
       (c'/c) X + A' a^dagger^p X + g' a^dagger X a + B' X a^p."""
    out = {(0, 0): sp.diff(c, theta) / c, (p, 0): sp.diff(A, theta), (0, p): sp.diff(B, theta)}
    gd = sp.diff(g, theta)
    out[(1, 1)] = out.get((1, 1), 0) + gd
    return {k: v for k, v in out.items() if sp.simplify(v) != 0}


def equal(a: Dict[Tuple[int, int], sp.Expr], b: Dict[Tuple[int, int], sp.Expr]) -> bool:
    for k in set(a) | set(b):
        d = sp.simplify((a.get(k, 0) - b.get(k, 0)).rewrite(sp.exp))
        if d != 0:
            return False
    return True


def show(a: Dict[Tuple[int, int], sp.Expr]) -> str:
    parts = []
    for (i, j), c in sorted(a.items()):
        parts.append(f"({sp.simplify(c)}) * " + ("a^dagger^%d " % i if i else "") + "T" + (" a^%d" % j if j else ""))
    return " + ".join(parts) or "0"
