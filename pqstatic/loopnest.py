"""Index-notation reader for the Fock-space recurrence of an interferometer (one particle-number level per step).

Three pieces of the repository express the same recurrence (Eq. 71 of the cited paper):

    R[k, i] = 1 / H4[k] * sum_j  H3[i, j] * U[H1[k], j] * PREV[H2[k], H0[i, j]]

  * an explicit loop nest with an accumulator (`+=`, `/=`, `continue` guards)                        - the numba version,
  * an `einsum` over fancy-indexed operands followed by a broadcast division                         - the generic version,
  * a loop nest that accumulates the derivative of R with respect to one entry U[r, c]               - the hand-written gradient.

Each is read (syntax-directed; nothing is executed) into a polynomial in index notation

    Term  = (rational coefficient, {factor: integer exponent}, set of summed index variables)
    factor = ("f", symbol, (index, ...)) | ("d", index, index)      (Kronecker delta)
    index  = ("v", name) | ("c", integer) | a factor (a table entry used as an index)

and brought to a normal form (summed indices under a delta substituted, summed indices renamed canonically, like terms combined).
The tables are named by their *position* in the helper tuple (H0..H4), so an implementation that unpacks them in another order
than it was packed disagrees with its siblings.  `derivative()` applies the product rule with d U[a, b] / d U[r, c] = delta(a, r)
delta(b, c) and d PREV / d U[r, c] = PGRAD (the carried derivative of the previous level).
"""

from __future__ import annotations

import ast
import itertools
from fractions import Fraction
from typing import Any, Dict, FrozenSet, List, Optional, Tuple

from .index import dotted, norm
from .report import AnalysisError

Term = Tuple[Fraction, Tuple[Tuple[Any, int], ...], FrozenSet[str]]
Poly = List[Term]


class Unreadable(AnalysisError):
    pass


# ------------------------------------------------------------------------------------------------ values
class Arr:
    """an array symbol with a prefix of indices already applied"""

    def __init__(self, sym: str, prefix: Tuple[Any, ...] = ()):
        self.sym = sym
        self.prefix = tuple(prefix)

    def at(self, idxs: Tuple[Any, ...]) -> "Arr":
        return Arr(self.sym, self.prefix + tuple(idxs))

    def factor(self):
        return ("f", self.sym, self.prefix)


class Var:
    def __init__(self, name: str):
        self.name = name


class Acc:
    """an accumulator created by zeros(): list of (element indices, polynomial) contributions"""

    def __init__(self, name: str, created_depth: int):
        self.name = name
        self.created_depth = created_depth
        self.contribs: List[Tuple[Tuple[str, ...], Poly]] = []
        self.divided = False


class Opaque:
    """sizes / shapes / dtypes: never enter the arithmetic"""

    def __init__(self, what: str = ""):
        self.what = what


def const(c) -> Poly:
    return [(Fraction(c).limit_denominator(10**9), (), frozenset())]


def fac(f) -> Poly:
    return [(Fraction(1), ((f, 1),), frozenset())]


def p_add(a: Poly, b: Poly, sign: int = 1) -> Poly:
    return list(a) + [(sign * c, f, s) for c, f, s in b]


def _merge(fa, fb):
    d: Dict[Any, int] = {}
    for f, e in fa + fb:
        d[f] = d.get(f, 0) + e
    return tuple(sorted(((f, e) for f, e in d.items() if e != 0), key=repr))


def p_mul(a: Poly, b: Poly) -> Poly:
    out = []
    for ca, fa, sa in a:
        for cb, fb, sb in b:
            if sa & sb:
                raise Unreadable("loopnest: the same summed index in both operands of a product")
            out.append((ca * cb, _merge(fa, fb), sa | sb))
    return out


def p_inv(a: Poly) -> Poly:
    if len(a) != 1 or a[0][2]:
        raise Unreadable("loopnest: division by a sum")
    c, f, _ = a[0]
    return [(1 / c, tuple((x, -e) for x, e in f), frozenset())]


def with_sums(a: Poly, names) -> Poly:
    return [(c, f, s | frozenset(names)) for c, f, s in a]


# ------------------------------------------------------------------------------------------------ substitution and normal form
def _subst_idx(i, ren: Dict[str, Any]):
    if i[0] == "v":
        return ren.get(i[1], i)
    if i[0] == "c":
        return i
    if i[0] == "f":
        return ("f", i[1], tuple(_subst_idx(x, ren) for x in i[2]))
    if i[0] == "d":
        a, b = sorted((_subst_idx(i[1], ren), _subst_idx(i[2], ren)), key=repr)
        return ("d", a, b)
    raise Unreadable(f"loopnest: index {i!r}")


def subst(a: Poly, ren: Dict[str, Any]) -> Poly:
    out = []
    for c, f, s in a:
        nf: Tuple[Tuple[Any, int], ...] = ()
        for x, e in f:
            nf = _merge(nf, ((_subst_idx(x, ren), e),))
        out.append((c, nf, frozenset(n for n in s if n not in ren)))
    return out


def _mentions(i, name: str) -> bool:
    if i[0] == "v":
        return i[1] == name
    if i[0] == "c":
        return False
    if i[0] == "f":
        return any(_mentions(x, name) for x in i[2])
    return _mentions(i[1], name) or _mentions(i[2], name)


def _simplify_term(t: Term) -> Optional[Term]:
    c, f, s = t
    changed = True
    while changed:
        changed = False
        for x, e in f:
            if x[0] != "d":
                continue
            a, b = x[1], x[2]
            if a == b:
                f = tuple((y, ey) for y, ey in f if y != x)
                changed = True
                break
            if a[0] == "c" and b[0] == "c":
                return None
            if e < 1:
                raise Unreadable("loopnest: inverse of a Kronecker delta")
            for u, w in ((a, b), (b, a)):
                if u[0] == "v" and u[1] in s and not _mentions(w, u[1]):
                    rest = tuple((y, ey) for y, ey in f if y != x)
                    (c2, f2, s2), = subst([(c, rest, s)], {u[1]: w})
                    c, f, s = c2, f2, s2 - {u[1]}
                    changed = True
                    break
            if changed:
                break
            if e > 1:  # delta ** k = delta
                f = tuple((y, (1 if y == x else ey)) for y, ey in f)
    # a summed index that no factor mentions would be a multiplicity: refuse
    for n in s:
        if not any(_mentions(x, n) for x, _ in f):
            raise Unreadable(f"loopnest: summed index `{n}` does not occur in the summand")
    return (c, f, s)


def normal_form(a: Poly) -> Dict[Any, Fraction]:
    out: Dict[Any, Fraction] = {}
    for t in a:
        t2 = _simplify_term(t)
        if t2 is None:
            continue
        c, f, s = t2
        names = sorted(s)
        best = None
        for perm in itertools.permutations(range(len(names))):
            ren = {names[k]: ("v", f"~s{perm[k]}") for k in range(len(names))}
            (_, f2, _), = subst([(c, f, frozenset())], ren)
            key = repr(f2)
            if best is None or key < best[0]:
                best = (key, f2)
        k = (best[1], len(names)) if best else ((), 0)
        out[k] = out.get(k, Fraction(0)) + c
        if out[k] == 0:
            del out[k]
    return out


def show_idx(i) -> str:
    if i[0] == "v":
        return i[1].lstrip("~")
    if i[0] == "c":
        return str(i[1])
    if i[0] == "f":
        return f"{i[1]}[{', '.join(show_idx(x) for x in i[2])}]"
    return f"delta({show_idx(i[1])}, {show_idx(i[2])})"


def show(nf: Dict[Any, Fraction]) -> str:
    parts = []
    for (f, ns), c in sorted(nf.items(), key=repr):
        body = " * ".join(show_idx(x) + (f"^{e}" if e != 1 else "") for x, e in f) or "1"
        parts.append((f"{c} * " if c != 1 else "") + (f"sum_{{{ns}}} " if ns else "") + body)
    return " + ".join(parts) or "0"


def derivative(a: Poly, wrt: str, r, c, prev: str, prev_grad: str) -> Poly:
    """d/d wrt[r, c] by the product rule; `prev` depends on `wrt` through the carried derivative `prev_grad`."""
    out: Poly = []
    for coef, f, s in a:
        for k, (x, e) in enumerate(f):
            if x[0] != "f" or x[1] not in (wrt, prev):
                # an index table or a delta: constant.  A table entry used as an *index* of wrt does not depend on wrt either.
                continue
            if e != 1:
                raise Unreadable("loopnest: a power of the differentiated matrix")
            rest = f[:k] + f[k + 1:]
            if x[1] == wrt:
                if len(x[2]) != 2:
                    raise Unreadable("loopnest: the differentiated matrix is not indexed by two indices")
                d1 = ("d",) + tuple(sorted((x[2][0], r), key=repr))
                d2 = ("d",) + tuple(sorted((x[2][1], c), key=repr))
                out.append((coef, _merge(rest, ((d1, 1), (d2, 1))), s))
            else:
                out.append((coef, _merge(rest, ((("f", prev_grad, x[2]), 1),)), s))
    return out


# ------------------------------------------------------------------------------------------------ the loop-nest reader
class LoopReader:
    """Reads a loop nest that fills accumulators elementwise.  `env` maps names to Arr / Var / Poly / Opaque / tuple of those."""

    def __init__(self, env: Dict[str, Any]):
        self.env: Dict[str, Any] = dict(env)
        self.loops: List[str] = []        # active loop variables, outermost first
        self.guard: Poly = const(1)
        self.accs: Dict[str, Acc] = {}
        self.bounds: Dict[str, Optional[Tuple[str, int]]] = {}   # loop variable -> (array symbol, axis) its range was read from
        self.results: List[Any] = []

    # -- expressions
    def idx(self, e: ast.AST):
        v = self.ev(e)
        if isinstance(v, Var):
            return ("v", v.name)
        if isinstance(v, Arr):
            return v.factor()
        if isinstance(v, list) and len(v) == 1 and v[0][0] == 1 and not v[0][2]:
            f = v[0][1]
            if not f:
                return ("c", 1)
            if len(f) == 1 and f[0][1] == 1:
                return f[0][0]
        if isinstance(v, list) and len(v) == 1 and not v[0][1] and v[0][0].denominator == 1:
            return ("c", int(v[0][0]))
        raise Unreadable(f"loopnest: `{norm(e)[:50]}` is not an index")

    def scalar(self, e: ast.AST) -> Poly:
        v = self.ev(e)
        if isinstance(v, Arr):
            return fac(v.factor())
        if isinstance(v, list):
            return v
        raise Unreadable(f"loopnest: `{norm(e)[:50]}` is not a scalar of the recurrence")

    def ev(self, e: ast.AST):
        if isinstance(e, ast.Constant) and isinstance(e.value, (int, float)) and not isinstance(e.value, bool):
            return const(e.value)
        if isinstance(e, ast.Name):
            if e.id in self.env:
                return self.env[e.id]
            raise Unreadable(f"loopnest: free name `{e.id}`")
        if isinstance(e, ast.Tuple):
            return tuple(self.ev(x) for x in e.elts)
        if isinstance(e, ast.Attribute):
            if e.attr in ("shape", "dtype", "size", "ndim"):
                base = self.ev(e.value)
                return Opaque(f"{e.attr}:{base.sym}" if isinstance(base, Arr) and not base.prefix else e.attr)
            if e.attr == "T":
                raise Unreadable("loopnest: transposition inside a loop nest")
        if isinstance(e, ast.Subscript):
            base = self.ev(e.value)
            sl = e.slice
            if isinstance(base, Opaque):
                if base.what.startswith("shape:") and isinstance(sl, ast.Constant):
                    return Opaque(f"extent:{base.what[6:]}:{sl.value}")
                return Opaque()
            if isinstance(base, tuple):
                if isinstance(sl, ast.Constant) and isinstance(sl.value, int):
                    return base[sl.value]
                raise Unreadable(f"loopnest: tuple indexed by `{norm(sl)}`")
            if isinstance(base, Arr):
                elts = sl.elts if isinstance(sl, ast.Tuple) else [sl]
                return base.at(tuple(self.idx(x) for x in elts))
            raise Unreadable(f"loopnest: subscript of `{norm(e.value)[:40]}`")
        if isinstance(e, ast.BinOp):
            if isinstance(e.op, ast.Mult):
                return p_mul(self.scalar(e.left), self.scalar(e.right))
            if isinstance(e.op, ast.Div):
                return p_mul(self.scalar(e.left), p_inv(self.scalar(e.right)))
            if isinstance(e.op, ast.Add):
                return p_add(self.scalar(e.left), self.scalar(e.right))
            if isinstance(e.op, ast.Sub):
                return p_add(self.scalar(e.left), self.scalar(e.right), -1)
        if isinstance(e, ast.UnaryOp) and isinstance(e.op, ast.USub):
            return [(-c, f, s) for c, f, s in self.scalar(e.operand)]
        if isinstance(e, ast.Call):
            nm = e.func.attr if isinstance(e.func, ast.Attribute) else (dotted(e.func) or "").split(".")[-1]
            if nm == "len" and len(e.args) == 1:
                base = self.ev(e.args[0])
                return Opaque(f"extent:{base.sym}:{len(base.prefix)}" if isinstance(base, Arr) else "len")
            if nm == "astype" and isinstance(e.func, ast.Attribute):
                return self.ev(e.func.value)
            if nm in ("zeros", "zeros_like", "empty"):
                return "ZEROS"
        raise Unreadable(f"loopnest: expression `{norm(e)[:60]}` is outside the fragment")

    # -- statements
    def block(self, body: List[ast.stmt]) -> None:
        saved_guard = self.guard
        for s in body:
            self.stmt(s)
        self.guard = saved_guard

    def _extent(self, e: ast.AST) -> Optional[Tuple[str, int]]:
        try:
            v = self.ev(e)
        except Unreadable:
            return None
        if isinstance(v, Opaque) and v.what.startswith("extent:"):
            _, sym, ax = v.what.split(":")
            return (sym, int(ax))
        return None

    def stmt(self, s: ast.stmt) -> None:
        if isinstance(s, ast.Pass) or (isinstance(s, ast.Expr) and isinstance(s.value, ast.Constant)):
            return
        if isinstance(s, ast.Assign) and len(s.targets) == 1:
            t = s.targets[0]
            if isinstance(t, ast.Name):
                v = self.ev(s.value)
                if v == "ZEROS":
                    self.accs[t.id] = Acc(t.id, len(self.loops))
                    self.env[t.id] = self.accs[t.id]
                else:
                    self.env[t.id] = v
                return
            if isinstance(t, ast.Tuple) and all(isinstance(x, ast.Name) for x in t.elts):
                v = self.ev(s.value)
                if isinstance(v, tuple) and len(v) == len(t.elts):
                    for x, y in zip(t.elts, v):
                        self.env[x.id] = y
                    return
                if isinstance(v, Opaque):
                    for k, x in enumerate(t.elts):
                        self.env[x.id] = Opaque(f"extent:{v.what[6:]}:{k}") if v.what.startswith("shape:") else Opaque()
                    return
            raise Unreadable(f"loopnest: assignment `{norm(s)[:60]}`")
        if isinstance(s, ast.For) and not s.orelse:
            it = s.iter
            nm = (dotted(it.func) or "").split(".")[-1] if isinstance(it, ast.Call) else ""
            if nm in ("range", "prange") and isinstance(s.target, ast.Name):
                if len(it.args) != 1:
                    raise Unreadable(f"loopnest: `{norm(it)}` does not start at 0")
                self._loop(s.target.id, self._extent(it.args[0]), s.body, None)
                return
            if nm == "enumerate" and isinstance(s.target, ast.Tuple) and len(s.target.elts) == 2 and len(it.args) == 1:
                base = self.ev(it.args[0])
                if isinstance(base, Arr):
                    a, b = s.target.elts
                    self._loop(a.id, (base.sym, len(base.prefix)), s.body, (b.id, base))
                    return
            raise Unreadable(f"loopnest: loop over `{norm(it)[:50]}`")
        if isinstance(s, ast.If):
            cond = s.test
            if isinstance(cond, ast.Compare) and len(cond.ops) == 1 and isinstance(cond.ops[0], (ast.Eq, ast.NotEq)):
                d = ("d",) + tuple(sorted((self.idx(cond.left), self.idx(cond.comparators[0])), key=repr))
                only_continue = len(s.body) == 1 and isinstance(s.body[0], ast.Continue)
                if isinstance(cond.ops[0], ast.NotEq) and only_continue and not s.orelse:
                    self.guard = p_mul(self.guard, fac(d))   # the rest of this loop body runs only when the two are equal
                    return
                if isinstance(cond.ops[0], ast.Eq) and not s.orelse:
                    g = self.guard
                    self.guard = p_mul(self.guard, fac(d))
                    self.block(s.body)
                    self.guard = g
                    return
            raise Unreadable(f"loopnest: branch on `{norm(cond)[:50]}`")
        if isinstance(s, ast.AugAssign) and isinstance(s.target, ast.Subscript):
            acc = self.ev(s.target.value)
            if not isinstance(acc, Acc):
                raise Unreadable(f"loopnest: update of `{norm(s.target.value)}`, which is not an accumulator")
            sl = s.target.slice
            elts = sl.elts if isinstance(sl, ast.Tuple) else [sl]
            names = []
            for x in elts:
                i = self.idx(x)
                if i[0] != "v" or i[1] not in self.loops:
                    raise Unreadable(f"loopnest: accumulator element `{norm(s.target)}` is not addressed by loop variables")
                names.append(i[1])
            inner = [v for v in self.loops[acc.created_depth:] if v not in names]
            if isinstance(s.op, ast.Add) or isinstance(s.op, ast.Sub):
                if acc.divided:
                    raise Unreadable(f"loopnest: `{acc.name}` is added to after it was divided")
                val = p_mul(self.guard, self.scalar(s.value))
                if isinstance(s.op, ast.Sub):
                    val = [(-c, f, ss) for c, f, ss in val]
                acc.contribs.append((tuple(names), with_sums(val, inner)))
                return
            if isinstance(s.op, (ast.Div, ast.Mult)):
                if inner:
                    raise Unreadable(f"loopnest: `{norm(s)[:50]}` is repeated over the loop(s) {inner}")
                val = self.scalar(s.value)
                if isinstance(s.op, ast.Div):
                    val = p_inv(val)
                    acc.divided = True
                if self.guard != const(1):
                    raise Unreadable("loopnest: a guarded rescaling of the accumulator")
                new = []
                for nms, p in acc.contribs:
                    ren = {a: ("v", b) for a, b in zip(names, nms)}
                    if len(nms) != len(names):
                        raise Unreadable("loopnest: element rank changes")
                    new.append((nms, p_mul(p, subst(val, ren))))
                acc.contribs = new
                return
        if isinstance(s, ast.Return) and s.value is not None:
            self.results.append(self.ev(s.value))
            return
        if isinstance(s, ast.Expr) and isinstance(s.value, ast.Call) and isinstance(s.value.func, ast.Attribute) \
                and s.value.func.attr == "append" and len(s.value.args) == 1:
            self.results.append(self.ev(s.value.args[0]))
            return
        raise Unreadable(f"loopnest: statement `{norm(s)[:60]}` is outside the fragment")

    def _loop(self, var: str, extent: Optional[Tuple[str, int]], body: List[ast.stmt], elem: Optional[Tuple[str, Arr]]) -> None:
        if var in self.loops:
            # a second loop over the same variable name after the first ended is fine; nested reuse is not
            raise Unreadable(f"loopnest: loop variable `{var}` reused in a nested loop")
        self.loops.append(var)
        self.bounds[var] = extent
        saved = dict(self.env)
        self.env[var] = Var(var)
        if elem is not None:
            self.env[elem[0]] = elem[1].at((("v", var),))
        self.block(body)
        self.loops.pop()
        for k in list(self.env):
            if k not in saved and not isinstance(self.env[k], Acc):
                del self.env[k]
        for k, v in saved.items():
            if not isinstance(self.env.get(k), Acc):
                self.env[k] = v

    def poly_of(self, acc: Acc, out_names: Tuple[str, ...]) -> Poly:
        total: Poly = []
        for nms, p in acc.contribs:
            if len(nms) != len(out_names):
                raise Unreadable("loopnest: contributions of different rank")
            total = p_add(total, subst(p, {a: ("v", b) for a, b in zip(nms, out_names)}))
        return total

    def axis_conflicts(self) -> List[str]:
        """a loop variable whose range is the extent of axis a of table X must not index X along another axis"""
        out = []
        for acc in self.accs.values():
            for _, p in acc.contribs:
                for _, f, _ in p:
                    for x, _e in f:
                        out.extend(self._axis(x))
        return sorted(set(out))

    def _axis(self, x) -> List[str]:
        out: List[str] = []
        if x[0] == "f":
            for pos, i in enumerate(x[2]):
                if i[0] == "v":
                    b = self.bounds.get(i[1])
                    if b is not None and b[0] == x[1] and b[1] != pos:
                        out.append(f"`{i[1]}` runs over axis {b[1]} of {x[1]} and indexes its axis {pos}")
                else:
                    out.extend(self._axis(i))
        elif x[0] == "d":
            out.extend(self._axis(x[1]) + self._axis(x[2]))
        return out


# ------------------------------------------------------------------------------------------------ the array-expression reader
class ArrayReader:
    """elementwise reading of array expressions: fancy indexing, gather along axis 1, einsum, broadcast division"""

    def __init__(self, env: Dict[str, Any], ranks: Dict[str, int], defs: Dict[str, ast.AST]):
        self.env = env        # name -> Arr
        self.ranks = ranks    # symbol -> rank
        self.defs = defs      # single-definition locals
        self._fresh = itertools.count()

    def fresh(self) -> str:
        return f"~e{next(self._fresh)}"

    def rank(self, e: ast.AST) -> int:
        if isinstance(e, ast.Name):
            if e.id in self.env:
                a = self.env[e.id]
                if a.sym not in self.ranks:
                    raise Unreadable(f"loopnest: the rank of table {a.sym} is not known from the loop-nest siblings")
                return self.ranks[a.sym] - len(a.prefix)
            if e.id in self.defs:
                return self.rank(self.defs[e.id])
            raise Unreadable(f"loopnest: free name `{e.id}`")
        if isinstance(e, ast.Subscript):
            sl = e.slice
            elts = sl.elts if isinstance(sl, ast.Tuple) else [sl]
            r = self.rank(e.value)
            consumed, produced = 0, 0
            for x in elts:
                if isinstance(x, ast.Slice):
                    consumed += 1
                    produced += 1
                elif isinstance(x, ast.Constant) and x.value is None:
                    produced += 1
                elif isinstance(x, ast.Constant):
                    consumed += 1
                else:
                    consumed += 1
                    produced += self.rank(x)
            return r - consumed + produced
        if isinstance(e, ast.Call):
            nm = e.func.attr if isinstance(e.func, ast.Attribute) else (dotted(e.func) or "").split(".")[-1]
            if nm == "astype" and isinstance(e.func, ast.Attribute):
                return self.rank(e.func.value)
            if nm == "einsum":
                spec = e.args[0].value
                return len(spec.split("->")[1])
            if nm == "gather_along_axis_1":
                args = self._gather_args(e)
                return 1 + self.rank(args[1])
        if isinstance(e, ast.BinOp):
            return max(self.rank(e.left), self.rank(e.right))
        raise Unreadable(f"loopnest: rank of `{norm(e)[:50]}`")

    def _gather_args(self, c: ast.Call):
        args = list(c.args)
        kw = {k.arg: k.value for k in c.keywords}
        arr = args[0] if args else kw.get("array")
        ind = args[1] if len(args) > 1 else kw.get("indices")
        if arr is None or ind is None:
            raise Unreadable("loopnest: gather_along_axis_1 arguments")
        return arr, ind

    def as_index(self, p: Poly):
        if len(p) == 1 and p[0][0] == 1 and not p[0][2] and len(p[0][1]) == 1 and p[0][1][0][1] == 1:
            return p[0][1][0][0]
        raise Unreadable("loopnest: an index array that is not a table")

    def elem(self, e: ast.AST, ix: Tuple[Any, ...]) -> Poly:
        if isinstance(e, ast.Constant) and isinstance(e.value, (int, float)) and not isinstance(e.value, bool):
            return const(e.value)
        if isinstance(e, ast.Name):
            if e.id in self.env:
                a = self.env[e.id]
                if a.sym not in self.ranks:
                    raise Unreadable(f"loopnest: the rank of table {a.sym} is not known from the loop-nest siblings")
                if self.ranks[a.sym] - len(a.prefix) != len(ix):
                    raise Unreadable(f"loopnest: `{e.id}` has rank {self.ranks[a.sym] - len(a.prefix)}, read with {len(ix)} indices")
                return fac(a.at(ix).factor())
            if e.id in self.defs:
                return self.elem(self.defs[e.id], ix)
            raise Unreadable(f"loopnest: free name `{e.id}`")
        if isinstance(e, ast.Subscript):
            sl = e.slice
            elts = sl.elts if isinstance(sl, ast.Tuple) else [sl]
            base_ix: List[Any] = []
            pos = 0
            for x in elts:
                if isinstance(x, ast.Slice):
                    if x.lower or x.upper or x.step:
                        raise Unreadable("loopnest: a proper slice")
                    base_ix.append(ix[pos])
                    pos += 1
                elif isinstance(x, ast.Constant) and x.value is None:
                    pos += 1           # broadcast axis
                elif isinstance(x, ast.Constant) and isinstance(x.value, int):
                    base_ix.append(("c", x.value))
                else:
                    r = self.rank(x)
                    base_ix.append(self.as_index(self.elem(x, tuple(ix[pos:pos + r]))))
                    pos += r
            base_ix.extend(ix[pos:])
            return self.elem(e.value, tuple(base_ix))
        if isinstance(e, ast.Call):
            nm = e.func.attr if isinstance(e.func, ast.Attribute) else (dotted(e.func) or "").split(".")[-1]
            if nm == "astype" and isinstance(e.func, ast.Attribute):
                return self.elem(e.func.value, ix)
            if nm == "gather_along_axis_1":
                arr, ind = self._gather_args(e)
                return self.elem(arr, (ix[0], self.as_index(self.elem(ind, tuple(ix[1:])))))
            if nm == "einsum" and e.args and isinstance(e.args[0], ast.Constant) and isinstance(e.args[0].value, str):
                spec = e.args[0].value.replace(" ", "")
                if "->" not in spec:
                    raise Unreadable("loopnest: einsum without an explicit output")
                ins, out = spec.split("->")
                ops = e.args[1:]
                if len(ins.split(",")) != len(ops) or len(out) != len(ix):
                    raise Unreadable("loopnest: einsum arity")
                letters: Dict[str, Any] = {l: ix[k] for k, l in enumerate(out)}
                sums = []
                for l in ins.replace(",", ""):
                    if l not in letters:
                        n = self.fresh()
                        letters[l] = ("v", n)
                        sums.append(n)
                p = const(1)
                for sub, op in zip(ins.split(","), ops):
                    p = p_mul(p, self.elem(op, tuple(letters[l] for l in sub)))
                return with_sums(p, sums)
        if isinstance(e, ast.BinOp):
            def side(x):
                r = self.rank(x)
                return self.elem(x, tuple(ix[len(ix) - r:]))
            if isinstance(e.op, ast.Mult):
                return p_mul(side(e.left), side(e.right))
            if isinstance(e.op, ast.Div):
                return p_mul(side(e.left), p_inv(side(e.right)))
            if isinstance(e.op, ast.Add):
                return p_add(side(e.left), side(e.right))
            if isinstance(e.op, ast.Sub):
                return p_add(side(e.left), side(e.right), -1)
        raise Unreadable(f"loopnest: array expression `{norm(e)[:60]}` is outside the fragment")
