"""A small non-commutative matrix-word algebra for the Gaussian moment update rules (an E6 variant).

Expressions are finite sums of words over atoms (symbol, conjugated?, transposed?) with rational coefficients.
  transpose(XY) = Y^T X^T      conj(XY) = conj(X) conj(Y)      I is neutral
Symbol relations used for the canonical form: C is Hermitian (conj(C) = C^T), G is symmetric (G^T = G).
The oracle for the update of the second moments under a' = P a + A a^dagger is *derived* here from bilinearity and
the table of second moments  <a a^T> = G,  <a a^dagger^T> = C^T + I,  <a^dagger a^T> = C,  <a^dagger a^dagger^T> = conj(G),
and compared with the normal form of the expressions read from the source.
"""

from __future__ import annotations

import ast
from fractions import Fraction
from typing import Dict, Optional, Tuple

from .index import dotted, norm
from .report import AnalysisError

Atom = Tuple[str, bool, bool]  # (symbol, conjugated, transposed)
Word = Tuple[Atom, ...]
Expr = Dict[Word, Fraction]

HERMITIAN = {"C", "Ph"}  # Ph: the positive factor of a polar decomposition
SYMMETRIC = {"G"}


class Untranslatable(AnalysisError):
    pass


def canon_atom(a: Atom) -> Atom:
    s, c, t = a
    if s in HERMITIAN:
        # conj(C) = C^T  →  keep only (C, False, t')
        if c:
            return (s, False, not t)
        return (s, False, t)
    if s in SYMMETRIC:
        return (s, c, False)
    return a


def sym(name: str) -> Expr:
    return {(canon_atom((name, False, False)),): Fraction(1)}


IDENT: Expr = {(): Fraction(1)}
ZERO: Expr = {}


def add(a: Expr, b: Expr, sign: int = 1) -> Expr:
    out = dict(a)
    for w, c in b.items():
        out[w] = out.get(w, Fraction(0)) + sign * c
        if out[w] == 0:
            del out[w]
    return out


def mul(a: Expr, b: Expr) -> Expr:
    out: Expr = {}
    for w1, c1 in a.items():
        for w2, c2 in b.items():
            w = w1 + w2
            out[w] = out.get(w, Fraction(0)) + c1 * c2
            if out[w] == 0:
                del out[w]
    return out


def scale(a: Expr, k: Fraction) -> Expr:
    return {w: c * k for w, c in a.items() if c * k != 0}


def conj(a: Expr) -> Expr:
    out: Expr = {}
    for w, c in a.items():
        nw = tuple(canon_atom((s, not cj, t)) for (s, cj, t) in w)
        out[nw] = out.get(nw, Fraction(0)) + c  # coefficients are real rationals here
    return out


def transpose(a: Expr) -> Expr:
    out: Expr = {}
    for w, c in a.items():
        nw = tuple(canon_atom((s, cj, not t)) for (s, cj, t) in reversed(w))
        out[nw] = out.get(nw, Fraction(0)) + c
    return out


def fmt(a: Expr) -> str:
    def atom(x: Atom) -> str:
        s, c, t = x
        return ("conj(" + s + ")" if c else s) + ("^T" if t else "")
    if not a:
        return "0"
    parts = []
    for w, c in sorted(a.items(), key=lambda kv: str(kv[0])):
        parts.append((f"{c}*" if c != 1 else "") + (" ".join(atom(x) for x in w) or "I"))
    return " + ".join(parts)


class WordEval:
    """Translate an expression of the repository (`@`, `+`, `-`, conj/transpose, np.identity) into an Expr."""

    def __init__(self, env: Dict[str, Expr], text_env: Optional[Dict[str, Expr]] = None, defs: Optional[Dict[str, ast.AST]] = None):
        self.env = env
        self.text_env = text_env or {}
        self.defs = defs or {}      # locals with one definition: read through it when the name itself is not bound
        self._open: set = set()

    def ev(self, e: ast.AST) -> Expr:
        txt = norm(e)
        if txt in self.text_env:
            return self.text_env[txt]
        if isinstance(e, ast.Name):
            if e.id in self.env:
                return self.env[e.id]
            if e.id in self.defs and e.id not in self._open:
                self._open.add(e.id)
                try:
                    return self.ev(self.defs[e.id])
                finally:
                    self._open.discard(e.id)
            raise Untranslatable(f"moments: free name `{e.id}`")
        if isinstance(e, ast.BinOp):
            if isinstance(e.op, ast.MatMult):
                return mul(self.ev(e.left), self.ev(e.right))
            if isinstance(e.op, ast.Add):
                return add(self.ev(e.left), self.ev(e.right))
            if isinstance(e.op, ast.Sub):
                return add(self.ev(e.left), self.ev(e.right), -1)
            if isinstance(e.op, ast.Mult):
                for k, o in ((e.left, e.right), (e.right, e.left)):
                    if isinstance(k, ast.Constant) and isinstance(k.value, (int, float)):
                        return scale(self.ev(o), Fraction(k.value).limit_denominator(1000))
            raise Untranslatable(f"moments: operator in `{norm(e)[:50]}`")
        if isinstance(e, ast.UnaryOp) and isinstance(e.op, ast.USub):
            return scale(self.ev(e.operand), Fraction(-1))
        if isinstance(e, ast.Attribute) and e.attr == "T":
            return transpose(self.ev(e.value))
        if isinstance(e, ast.Call):
            f = e.func
            name = dotted(f) or ""
            if isinstance(f, ast.Attribute) and f.attr in ("conjugate", "conj") and not e.args:
                return conj(self.ev(f.value))
            if isinstance(f, ast.Attribute) and f.attr == "transpose" and not e.args:
                return transpose(self.ev(f.value))
            if name.split(".")[-1] in ("conj", "conjugate") and len(e.args) == 1:
                return conj(self.ev(e.args[0]))
            if name.split(".")[-1] == "transpose" and len(e.args) == 1:
                return transpose(self.ev(e.args[0]))
            if name.split(".")[-1] in ("identity", "eye"):
                return dict(IDENT)
        raise Untranslatable(f"moments: expression `{norm(e)[:60]}` is outside the matrix-word fragment")


def oracle_second_moments(P: Expr, A: Expr, Cm: Expr, Gm: Expr):
    """(G', C') for a' = P a + A a^dagger, from the moment table."""
    aa, aad, ada, adad = Gm, add(transpose(Cm), IDENT), Cm, conj(Gm)
    Pc, Ac = conj(P), conj(A)
    PT, AT = transpose(P), transpose(A)
    G2 = add(add(mul(mul(P, aa), PT), mul(mul(P, aad), AT)), add(mul(mul(A, ada), PT), mul(mul(A, adad), AT)))
    # a'^dagger = conj(P) a^dagger + conj(A) a
    C2 = add(add(mul(mul(Pc, ada), PT), mul(mul(Pc, adad), AT)), add(mul(mul(Ac, aa), PT), mul(mul(Ac, aad), AT)))
    return G2, C2
