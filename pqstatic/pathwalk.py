"""Structured path enumeration over a function body, for feature-honouring rules.

A *receiver* is a name that denotes an object of a known class (`self` in its methods, a parameter annotated
with the class in helper functions).  The walker enumerates the acyclic paths of a function (loop bodies zero
or one time), splitting every condition into its atoms with short-circuit order, so that each path carries

  * facts    - truth values of the atoms it decided (`S.f is None`, `S.f == {}`, opaque atoms by text);
               zero-argument boolean methods / properties of the receiver class are *inlined*, i.e. their bodies
               are enumerated in the same way and contribute their own atoms;
  * taint    - which local names carry data read from which receiver fields (through the field itself, through
               accessor methods whose return value is the field re-wrapped, through any expression mentioning a
               tainted name, through results of calls that received tainted arguments);
  * events   - calls met on the path, with the facts and argument taints at that point.

Paths whose facts contradict are pruned.  Nothing is executed.
"""

from __future__ import annotations

import ast
from dataclasses import dataclass, field
from typing import Callable, Dict, FrozenSet, Iterator, List, Optional, Set, Tuple

from .index import ClassInfo, FuncInfo, dotted

MAX_PATHS = 20000
WRAP = {"tuple", "list", "dict", "set", "frozenset", "keys", "values", "items", "copy", "array", "asarray"}


class TooManyPaths(Exception):
    pass


@dataclass
class Event:
    call: ast.Call
    callee: str
    facts: Dict[str, bool]
    arg_fields: FrozenSet[str]  # receiver fields whose data flows into the arguments
    in_test: bool
    trail: Tuple[str, ...]
    owner: str = ""


@dataclass
class PState:
    facts: Dict[str, bool] = field(default_factory=dict)
    taint: Dict[str, FrozenSet[str]] = field(default_factory=dict)
    events: List[Event] = field(default_factory=list)
    trail: List[str] = field(default_factory=list)
    returned: FrozenSet[str] = frozenset()
    bools: Dict[str, ast.AST] = field(default_factory=dict)  # local name -> the condition it was bound to

    def clone(self) -> "PState":
        return PState(dict(self.facts), dict(self.taint), list(self.events), list(self.trail), self.returned, dict(self.bools))


class _Rename(ast.NodeTransformer):
    def __init__(self, recvs: Set[str]):
        self.recvs = recvs

    def visit_Name(self, node: ast.Name):  # noqa: N802
        if node.id in self.recvs:
            return ast.copy_location(ast.Name("S", node.ctx), node)
        return node


def canon(e: ast.AST, recvs: Set[str]) -> str:
    import copy

    return ast.unparse(_Rename(recvs).visit(copy.deepcopy(e)))


class Walker:
    """Enumerates paths of `fn` with receivers `recvs` of class `cls`."""

    def __init__(self, cls: ClassInfo, fn_node: ast.AST, recvs: Set[str], on_call: Optional[Callable] = None):
        self.cls = cls
        self.fn = fn_node
        self.recvs = set(recvs)
        self.count = 0
        self._bool_cache: Dict[str, Optional[ast.AST]] = {}
        self.carriers = strong_carriers(cls)
        self.strip: Optional[Callable] = None
        # inline(call) -> (FuncInfo, {callee receiver parameter names}) | None: helpers that receive the receiver are walked
        # in the caller's context (facts established by the caller hold inside them)
        self.inline: Optional[Callable] = None
        self.depth = 0
        self.owner = getattr(fn_node, "name", "?")

    # ---- class knowledge --------------------------------------------------------------------------------
    def member(self, name: str) -> Optional[FuncInfo]:
        return self.cls.find_method(name)

    def is_property(self, f: FuncInfo) -> bool:
        return any(d.split(".")[-1] in ("property", "cached_property") for d in f.decorators)

    def predicate_body(self, name: str) -> Optional[FuncInfo]:
        """Zero-argument method / property whose every return value is a boolean-shaped expression."""
        f = self.member(name)
        if f is None or len(f.params()) != 1:
            return None
        rets = [n for n in ast.walk(f.node) if isinstance(n, ast.Return)]
        if not rets:
            return None
        for r in rets:
            if r.value is None or not _bool_shaped(r.value):
                return None
        return f

    # ---- conditions --------------------------------------------------------------------------------------
    def branches(self, test: ast.AST, st: PState, recvs: Optional[Set[str]] = None, depth: int = 0) -> Iterator[Tuple[bool, PState]]:
        recvs = self.recvs if recvs is None else recvs
        if isinstance(test, ast.UnaryOp) and isinstance(test.op, ast.Not):
            for t, s in self.branches(test.operand, st, recvs, depth):
                yield (not t, s)
            return
        if isinstance(test, ast.BoolOp):
            is_and = isinstance(test.op, ast.And)

            def rec(i: int, s: PState) -> Iterator[Tuple[bool, PState]]:
                if i == len(test.values):
                    yield (is_and, s)
                    return
                for t, s2 in self.branches(test.values[i], s, recvs, depth):
                    if t != is_and:
                        yield (t, s2)  # short circuit
                    else:
                        yield from rec(i + 1, s2)

            yield from rec(0, st)
            return
        if isinstance(test, ast.Constant) and isinstance(test.value, (bool, type(None), int)):
            yield (bool(test.value), st)
            return
        if isinstance(test, ast.Name) and test.id in st.bools and depth < 6 and recvs is self.recvs:
            yield from self.branches(st.bools[test.id], st, recvs, depth + 1)
            return
        # receiver predicate: inline
        nm = None
        if isinstance(test, ast.Attribute) and isinstance(test.value, ast.Name) and test.value.id in recvs:
            nm = test.attr
        elif isinstance(test, ast.Call) and not test.args and not test.keywords and isinstance(test.func, ast.Attribute) \
                and isinstance(test.func.value, ast.Name) and test.func.value.id in recvs:
            nm = test.func.attr
        if nm is not None and depth < 6:
            f = self.predicate_body(nm)
            if f is not None:
                self_name = f.params()[0]
                for out, s in self._walk_pred(f.node.body, st, {self_name}, depth + 1):
                    yield (out, s)
                return
        key, pol = self.atom(test, recvs)
        if key in st.facts:
            yield (st.facts[key] == pol, st)
            return
        for val in (True, False):
            s = st.clone()
            s.facts[key] = (val == pol)
            s.trail.append(("" if val else "not ") + canon(test, recvs)[:80])
            yield (val, s)

    def atom(self, test: ast.AST, recvs: Set[str]) -> Tuple[str, bool]:
        """(key, polarity): the test is true iff fact[key] == polarity."""
        if isinstance(test, ast.Compare) and len(test.ops) == 1:
            op, l, r = test.ops[0], test.left, test.comparators[0]
            lc, rc = canon(l, recvs), canon(r, recvs)
            if isinstance(op, (ast.Is, ast.IsNot)) and isinstance(r, ast.Constant) and r.value is None:
                return f"isnone:{lc}", isinstance(op, ast.Is)
            if isinstance(op, (ast.Eq, ast.NotEq)):
                if rc in ("{}", "[]", "()", "dict()") or (lc.startswith("len(") and rc == "0"):
                    base = lc[4:-1] if lc.startswith("len(") else lc
                    return f"empty:{base}", isinstance(op, ast.Eq)
                a, b = sorted([lc, rc])
                return f"eq:{a}=={b}", isinstance(op, ast.Eq)
            if isinstance(op, (ast.Lt, ast.GtE)):
                return f"lt:{lc}<{rc}", isinstance(op, ast.Lt)
            if isinstance(op, (ast.Gt, ast.LtE)):
                return f"gt:{lc}>{rc}", isinstance(op, ast.Gt)
            if isinstance(op, (ast.In, ast.NotIn)):
                return f"in:{lc} in {rc}", isinstance(op, ast.In)
        return f"truth:{canon(test, recvs)}", True

    def _walk_pred(self, body: List[ast.stmt], st: PState, recvs: Set[str], depth: int) -> Iterator[Tuple[bool, PState]]:
        """Enumerate the boolean results of a predicate body (if/return only; anything else is skipped)."""
        def seq(stmts: List[ast.stmt], s: PState) -> Iterator[Tuple[Optional[bool], PState]]:
            if not stmts:
                yield (None, s)
                return
            head, rest = stmts[0], stmts[1:]
            if isinstance(head, ast.Return):
                for t, s2 in self.branches(head.value, s, recvs, depth):
                    yield (t, s2)
                return
            if isinstance(head, ast.If):
                for t, s2 in self.branches(head.test, s, recvs, depth):
                    for out, s3 in seq(head.body if t else head.orelse, s2):
                        if out is None:
                            yield from seq(rest, s3)
                        else:
                            yield (out, s3)
                return
            yield from seq(rest, s)

        for out, s in seq(body, st):
            if out is not None:
                yield (out, s)

    # ---- data ---------------------------------------------------------------------------------------------
    def fields_of(self, e: ast.AST, st: PState) -> FrozenSet[str]:
        """Receiver fields whose data the expression carries.  `self.strip(call, fields)` (a hook of the rule) may
        remove fields from what the *result* of a call carries (an algorithm's product is not its raw input)."""
        if isinstance(e, ast.Attribute) and isinstance(e.value, ast.Name) and e.value.id in self.recvs:
            if e.attr in self.carriers:
                return self.carriers[e.attr]
            if self.member(e.attr) is None:
                return frozenset({e.attr})
            return frozenset()
        if isinstance(e, ast.Name):
            return st.taint.get(e.id, frozenset())
        if isinstance(e, ast.Call) and isinstance(e.func, ast.Name) and e.func.id in ("len", "type", "isinstance", "id"):
            return frozenset()  # a size / type is not the data
        if isinstance(e, ast.Attribute) and e.attr in ("shape", "dtype", "ndim", "size"):
            return frozenset()
        out: Set[str] = set()
        for c in ast.iter_child_nodes(e):
            out |= self.fields_of(c, st)
        if isinstance(e, ast.Call) and self.strip is not None:
            out = set(self.strip(e, frozenset(out)))
        return frozenset(out)

    def scan_calls(self, e: ast.AST, st: PState, in_test: bool = False) -> None:
        for n in ast.walk(e):
            if isinstance(n, ast.Call):
                callee = dotted(n.func) or ""
                args: List[ast.AST] = list(n.args) + [k.value for k in n.keywords]
                if callee.split(".")[-1] == "partial" and n.args:
                    callee = dotted(n.args[0]) or callee
                    args = list(n.args[1:]) + [k.value for k in n.keywords]
                fs: Set[str] = set()
                for a in args:
                    fs |= self.fields_of(a, st)
                st.events.append(Event(n, callee, dict(st.facts), frozenset(fs), in_test, tuple(st.trail), self.owner))

    def bind(self, target: ast.AST, fs: FrozenSet[str], st: PState, weak: bool = False) -> None:
        if isinstance(target, ast.Name):
            st.taint[target.id] = (st.taint.get(target.id, frozenset()) | fs) if weak else fs
        elif isinstance(target, (ast.Tuple, ast.List)):
            for t in target.elts:
                self.bind(t, fs, st, weak)
        elif isinstance(target, ast.Starred):
            self.bind(target.value, fs, st, weak)
        elif isinstance(target, (ast.Subscript, ast.Attribute)):
            base = target
            while isinstance(base, (ast.Subscript, ast.Attribute)):
                base = base.value
            if isinstance(base, ast.Name) and base.id not in self.recvs:
                self.bind(base, fs, st, weak=True)

    # ---- statements -----------------------------------------------------------------------------------------
    def paths(self) -> Iterator[Tuple[str, PState]]:
        """(outcome, state) for every path: outcome in return|fall|raise."""
        for out, st in self.seq(list(self.fn.body), PState()):
            if out in ("break", "continue"):
                out = "fall"
            self.count += 1
            if self.count > MAX_PATHS:
                raise TooManyPaths(getattr(self.fn, "name", "?"))
            yield out, st

    def seq(self, stmts: List[ast.stmt], st: PState) -> Iterator[Tuple[str, PState]]:
        if not stmts:
            yield ("fall", st)
            return
        head, rest = stmts[0], stmts[1:]
        for out, s in self.stmt(head, st):
            if out == "fall":
                yield from self.seq(rest, s)
            else:
                yield (out, s)

    def _inline_call(self, s: ast.stmt) -> Optional[Tuple[ast.Call, object, Set[str]]]:
        if self.inline is None or self.depth >= 3:
            return None
        v = s.value if isinstance(s, (ast.Assign, ast.AnnAssign, ast.Return, ast.Expr)) else None
        if not isinstance(v, ast.Call):
            return None
        r = self.inline(v, self)
        if r is None:
            return None
        return (v, r[0], r[1])

    def _walk_inlined(self, s: ast.stmt, call: ast.Call, callee, callee_recvs: Set[str], st: PState) -> Iterator[Tuple[str, PState]]:
        sub = Walker(self.cls, callee.node, callee_recvs)
        sub.strip, sub.inline, sub.depth = self.strip, self.inline, self.depth + 1
        sub.owner = callee.qualname
        init = PState(dict(st.facts), {}, list(st.events), list(st.trail) + [f"-> {callee.name}"], frozenset(), {})
        params = [a.arg for a in callee.node.args.posonlyargs + callee.node.args.args]
        if callee.cls is not None and params and params[0] in callee_recvs and isinstance(call.func, ast.Attribute):
            params = params[1:]
        for p, a in zip(params, call.args):
            if p not in callee_recvs:
                init.taint[p] = self.fields_of(a, st)
        for k in call.keywords:
            if k.arg is not None and k.arg not in callee_recvs:
                init.taint[k.arg] = self.fields_of(k.value, st)
        for out, s2 in sub.seq(list(callee.node.body), init):
            merged = st.clone()
            merged.facts, merged.events, merged.trail = s2.facts, s2.events, s2.trail + [f"<- {callee.name}"]
            if out == "raise":
                yield ("raise", merged)
                continue
            if isinstance(s, ast.Return):
                merged.returned = s2.returned
                yield ("return", merged)
                continue
            if isinstance(s, ast.Assign):
                for t in s.targets:
                    self.bind(t, s2.returned, merged)
            elif isinstance(s, ast.AnnAssign):
                self.bind(s.target, s2.returned, merged)
            yield ("fall", merged)

    def stmt(self, s: ast.stmt, st: PState) -> Iterator[Tuple[str, PState]]:
        il = self._inline_call(s)
        if il is not None:
            yield from self._walk_inlined(s, il[0], il[1], il[2], st)
            return
        if isinstance(s, ast.If):
            for t, s2 in self.cond(s.test, st):
                yield from self.seq(s.body if t else s.orelse, s2)
            return
        if isinstance(s, (ast.For, ast.AsyncFor)):
            st = st.clone()
            self.scan_calls(s.iter, st)
            # zero iterations
            yield from self.seq(s.orelse, st.clone())
            s1 = st.clone()
            self.bind(s.target, self.fields_of(s.iter, s1), s1)
            for out, s2 in self.seq(s.body, s1):
                if out in ("break",):
                    yield ("fall", s2)
                elif out in ("continue", "fall"):
                    yield from self.seq(s.orelse, s2)
                else:
                    yield (out, s2)
            return
        if isinstance(s, ast.While):
            for t, s2 in self.cond(s.test, st):
                if not t:
                    yield from self.seq(s.orelse, s2)
                    continue
                for out, s3 in self.seq(s.body, s2):
                    if out in ("break", "continue", "fall"):
                        yield ("fall", s3)
                    else:
                        yield (out, s3)
            return
        if isinstance(s, (ast.With, ast.AsyncWith)):
            st = st.clone()
            for it in s.items:
                self.scan_calls(it.context_expr, st)
                if it.optional_vars is not None:
                    self.bind(it.optional_vars, self.fields_of(it.context_expr, st), st)
            yield from self.seq(s.body, st)
            return
        if isinstance(s, ast.Try) or type(s).__name__ == "TryStar":
            for out, s2 in self.seq(list(s.body) + list(s.orelse), st.clone()):
                if out == "fall":
                    yield from self.seq(s.finalbody, s2)
                else:
                    yield (out, s2)
            for h in s.handlers:
                for out, s2 in self.seq(h.body, st.clone()):
                    if out == "fall":
                        yield from self.seq(s.finalbody, s2)
                    else:
                        yield (out, s2)
            return
        if isinstance(s, ast.Return):
            st = st.clone()
            if s.value is not None:
                self.scan_calls(s.value, st)
                st.returned = self.fields_of(s.value, st)
            yield ("return", st)
            return
        if isinstance(s, ast.Raise):
            yield ("raise", st)
            return
        if isinstance(s, ast.Break):
            yield ("break", st)
            return
        if isinstance(s, ast.Continue):
            yield ("continue", st)
            return
        if isinstance(s, (ast.FunctionDef, ast.AsyncFunctionDef)):
            st = st.clone()
            fs: Set[str] = set()
            for b in s.body:
                fs |= self.fields_of(b, st)
            st.taint[s.name] = frozenset(fs)
            yield ("fall", st)
            return
        st = st.clone()
        if isinstance(s, ast.Assign):
            self.scan_calls(s.value, st)
            fs2 = self.fields_of(s.value, st)
            for t in s.targets:
                self.bind(t, fs2, st)
                if isinstance(t, ast.Name):
                    st.bools.pop(t.id, None)
                    if self.condition_shaped(s.value):
                        st.bools[t.id] = s.value
        elif isinstance(s, ast.AnnAssign):
            if s.value is not None:
                self.scan_calls(s.value, st)
                self.bind(s.target, self.fields_of(s.value, st), st)
        elif isinstance(s, ast.AugAssign):
            self.scan_calls(s.value, st)
            self.bind(s.target, self.fields_of(s.value, st), st, weak=True)
        elif isinstance(s, ast.Expr):
            self.scan_calls(s.value, st)
            # mutating method on a local: x.append(tainted)
            v = s.value
            if isinstance(v, ast.Call) and isinstance(v.func, ast.Attribute) and isinstance(v.func.value, ast.Name) \
                    and v.func.value.id not in self.recvs:
                fs3: Set[str] = set()
                for a in list(v.args) + [k.value for k in v.keywords]:
                    fs3 |= self.fields_of(a, st)
                if fs3:
                    self.bind(v.func.value, frozenset(fs3), st, weak=True)
        elif isinstance(s, ast.Assert):
            pass
        yield ("fall", st)

    def condition_shaped(self, e: ast.AST) -> bool:
        if isinstance(e, (ast.Compare, ast.BoolOp)) or (isinstance(e, ast.UnaryOp) and isinstance(e.op, ast.Not)):
            return True
        if isinstance(e, ast.Attribute) and isinstance(e.value, ast.Name) and e.value.id in self.recvs:
            return self.predicate_body(e.attr) is not None
        if isinstance(e, ast.Call) and not e.args and isinstance(e.func, ast.Attribute) and isinstance(e.func.value, ast.Name) \
                and e.func.value.id in self.recvs:
            return self.predicate_body(e.func.attr) is not None
        return False

    def cond(self, test: ast.AST, st: PState) -> Iterator[Tuple[bool, PState]]:
        st = st.clone()
        self.scan_calls(test, st, in_test=True)
        yield from self.branches(test, st)


def _bool_shaped(e: ast.AST) -> bool:
    if isinstance(e, ast.Constant):
        return isinstance(e.value, bool)
    if isinstance(e, (ast.Compare, ast.BoolOp)):
        return True
    if isinstance(e, ast.UnaryOp) and isinstance(e.op, ast.Not):
        return True
    if isinstance(e, ast.Call):
        nm = (dotted(e.func) or "").split(".")[-1]
        if nm in ("all", "any", "isscalar", "isclose", "allclose", "bool", "isinstance", "is_unitary") or nm.startswith(("is_", "_is_", "has_")):
            return True
    if isinstance(e, ast.Attribute) and (e.attr.startswith(("is_", "_is_", "has_"))):
        return True
    return False


def strong_carriers(cls: ClassInfo) -> Dict[str, FrozenSet[str]]:
    """Zero-argument methods / properties that return a field of `self` re-wrapped (tuple(self.f.keys()), self.f.copy(), ...):
    name -> fields carried."""
    out: Dict[str, FrozenSet[str]] = {}
    for c in cls.mro():
        for name, f in c.methods.items():
            if name in out or len(f.params()) != 1:
                continue
            me = f.params()[0]
            body = [s for s in f.node.body if not (isinstance(s, ast.Expr) and isinstance(s.value, ast.Constant))]
            if len(body) != 1 or not isinstance(body[0], ast.Return) or body[0].value is None:
                continue
            e = body[0].value
            while True:
                if isinstance(e, ast.Call) and (dotted(e.func) or "").split(".")[-1] in WRAP:
                    if isinstance(e.func, ast.Attribute) and not e.args:
                        e = e.func.value
                        continue
                    if len(e.args) == 1:
                        e = e.args[0]
                        continue
                break
            if isinstance(e, ast.Attribute) and isinstance(e.value, ast.Name) and e.value.id == me and cls.find_method(e.attr) is None:
                out[name] = frozenset({e.attr})
    return out
