"""Sibling agreement of the two implementations of the Gaussian density-matrix recurrence (NumPy/numba and JAX).

Both `piquasso._math.hermite` and `piquasso._math.jax.hermite` implement the same recurrence with the functions
`_entry_raising_ket` and `_entry_raising_bra`.  Each is read (syntax-directed, nothing is executed) into a normal form

    (state the pivot is taken from,  initial term,  {loop summands},  divisor)

over abstract terms
    states   ket | bra | lower(S, m)            modes  pivot | mode (the loop variable)
    indices  idx(S) | idx0                      factors sqrt_occ(S, m), A[(+d?) m1, (+d?) m2], b[(+d?) m], dm[I, J]
and the normal forms of the siblings are compared.  The NumPy version lowers states explicitly (`x = s.copy();
x[m] -= 1; get_index_in_fock_space(x)`), the JAX version looks the same index up in the precomputed table
(`lowered_indices[idx(S), m]`, `basis[idx(S), m]`); both denote idx(lower(S, m)) / the occupation of S at m.
"""

from __future__ import annotations

import ast
from typing import Any, Dict, List, Optional, Tuple

from .index import FuncInfo, dotted, norm
from .report import AnalysisError

Term = Tuple[Any, ...]

KET: Term = ("ket",)
BRA: Term = ("bra",)
PIVOT: Term = ("pivot",)
MODE: Term = ("mode",)
IDX0: Term = ("idx0",)


class Unreadable(AnalysisError):
    pass


def fmt(t: Any) -> str:
    if isinstance(t, tuple):
        if not t:
            return "()"
        h = t[0]
        if h in ("ket", "bra", "pivot", "mode"):
            return h
        if h == "idx0":
            return "0"
        if h == "lower":
            return f"{fmt(t[1])}-1@{fmt(t[2])}"
        if h == "idx":
            return f"idx({fmt(t[1])})"
        if h == "lin":
            return ("d+" if t[1] else "") + fmt(t[2])
        if h == "sqrt_occ":
            return f"sqrt({fmt(t[1])}[{fmt(t[2])}])"
        if h == "A":
            return f"A[{fmt(t[1])},{fmt(t[2])}]"
        if h == "b":
            return f"b[{fmt(t[1])}]"
        if h == "dm":
            return f"dm[{fmt(t[1])},{fmt(t[2])}]"
        return "(" + ", ".join(fmt(x) for x in t) + ")"
    return str(t)


def fmt_product(p) -> str:
    return " * ".join(fmt(f) for f in p)


class _Base:
    def __init__(self, fn: FuncInfo):
        self.fn = fn
        self.env: Dict[str, Term] = {}
        self.pivot_of: Optional[Term] = None
        self.init: Optional[Tuple[Term, ...]] = None
        self.loops: List[Tuple[Term, ...]] = []
        self.divisor: Optional[Term] = None
        self.d_names = {"d"}

    def fail(self, node: ast.AST, why: str):
        raise Unreadable(f"recurrence: {why}: `{norm(node)[:70]}` in {self.fn.qualname} (undecided)")

    # ---- shared expression readers
    def lin(self, e: ast.AST) -> Term:
        """pivot | mode | d + pivot | d + mode"""
        if isinstance(e, ast.Name) and e.id in self.env and self.env[e.id] in (PIVOT, MODE):
            return ("lin", False, self.env[e.id])
        if isinstance(e, ast.BinOp) and isinstance(e.op, ast.Add):
            for a, b in ((e.left, e.right), (e.right, e.left)):
                if isinstance(a, ast.Name) and a.id in self.d_names and isinstance(b, ast.Name) and self.env.get(b.id) in (PIVOT, MODE):
                    return ("lin", True, self.env[b.id])
        self.fail(e, "index is not pivot / mode / d + pivot / d + mode")

    def mode_term(self, e: ast.AST) -> Term:
        if isinstance(e, ast.Name) and self.env.get(e.id) in (PIVOT, MODE):
            return self.env[e.id]
        self.fail(e, "not a mode variable")

    def strip_cast(self, e: ast.AST) -> ast.AST:
        while isinstance(e, ast.Call) and isinstance(e.func, ast.Attribute) and e.func.attr == "astype":
            e = e.func.value
        return e

    def product(self, e: ast.AST) -> Tuple[Term, ...]:
        if isinstance(e, ast.BinOp) and isinstance(e.op, ast.Mult):
            return tuple(sorted(self.product(e.left) + self.product(e.right), key=repr))
        return (self.factor(e),)

    def factor(self, e: ast.AST) -> Term:
        if isinstance(e, ast.Call) and (dotted(e.func) or "").split(".")[-1] == "sqrt" and len(e.args) == 1:
            o = self.occ(self.strip_cast(e.args[0]))
            return ("sqrt_occ", o[1], o[2])
        if isinstance(e, ast.Subscript) and isinstance(e.value, ast.Name):
            nm = e.value.id
            if nm == "A" and isinstance(e.slice, ast.Tuple) and len(e.slice.elts) == 2:
                return ("A", self.lin(e.slice.elts[0]), self.lin(e.slice.elts[1]))
            if nm == "b":
                return ("b", self.lin(e.slice))
            if nm == "density_matrix" and isinstance(e.slice, ast.Tuple) and len(e.slice.elts) == 2:
                return ("dm", self.index(e.slice.elts[0]), self.index(e.slice.elts[1]))
        self.fail(e, "factor outside the recurrence fragment")

    def occ(self, e: ast.AST) -> Term:  # -> ("occ", S, m)
        raise NotImplementedError

    def index(self, e: ast.AST) -> Term:
        raise NotImplementedError

    def result(self):
        if self.pivot_of is None or self.init is None or self.divisor is None:
            raise Unreadable(f"recurrence: {self.fn.qualname} has no pivot / initial term / divisor (undecided)")
        return {"pivot_of": self.pivot_of, "init": self.init, "loops": sorted(set(self.loops), key=repr), "divisor": self.divisor}


def _accumulator_name(fn: FuncInfo) -> str:
    """The local that accumulates the recurrence: the numerator of the returned quotient (`return <acc> / factor`)."""
    for s in fn.node.body:
        if isinstance(s, ast.Return) and isinstance(s.value, ast.BinOp) and isinstance(s.value.op, ast.Div) and isinstance(s.value.left, ast.Name):
            return s.value.left.id
    return "value"


class NumpyReader(_Base):
    """`x = s.copy(); x[m] -= 1; get_index_in_fock_space(x)` dialect."""

    def __init__(self, fn: FuncInfo, param_terms: Dict[str, Term]):
        super().__init__(fn)
        self.env.update(param_terms)
        self.acc = _accumulator_name(fn)

    def state(self, e: ast.AST) -> Term:
        if isinstance(e, ast.Name) and e.id in self.env and self.env[e.id][0] in ("ket", "bra", "lower"):
            return self.env[e.id]
        self.fail(e, "not a state")

    def occ(self, e: ast.AST) -> Term:
        if isinstance(e, ast.Subscript) and isinstance(e.value, ast.Name):
            return ("occ", self.state(e.value), self.mode_term(e.slice))
        self.fail(e, "not an occupation number")

    def index(self, e: ast.AST) -> Term:
        if isinstance(e, ast.Constant) and e.value == 0:
            return IDX0
        if isinstance(e, ast.Name) and e.id in self.env and self.env[e.id][0] in ("idx", "idx0"):
            return self.env[e.id]
        if isinstance(e, ast.Call) and (dotted(e.func) or "").split(".")[-1] == "get_index_in_fock_space" and len(e.args) == 1:
            return ("idx", self.state(e.args[0]))
        self.fail(e, "not a Fock-space index")

    def run(self):
        self.block(self.fn.node.body, guards=[])
        return self.result()

    def block(self, stmts: List[ast.stmt], guards: List[Term]) -> None:
        for s in stmts:
            if isinstance(s, ast.Expr) and isinstance(s.value, ast.Constant):
                continue
            if isinstance(s, ast.Assign) and len(s.targets) == 1 and isinstance(s.targets[0], ast.Name):
                t, v = s.targets[0].id, s.value
                if isinstance(v, ast.Call) and (dotted(v.func) or "").split(".")[-1] == "_first_nonzero_mode":
                    self.pivot_of = self.state(v.args[0])
                    self.env[t] = PIVOT
                elif isinstance(v, ast.Call) and isinstance(v.func, ast.Attribute) and v.func.attr == "copy" and not v.args:
                    self.env[t] = self.state(v.func.value)
                elif isinstance(v, ast.Call) and (dotted(v.func) or "").split(".")[-1] == "get_index_in_fock_space":
                    self.env[t] = self.index(v)
                elif t == self.acc:
                    self.init = self.product(v)
                else:
                    self.fail(s, "assignment outside the recurrence fragment")
                continue
            if isinstance(s, ast.AugAssign) and isinstance(s.op, ast.Sub) and isinstance(s.target, ast.Subscript) \
                    and isinstance(s.target.value, ast.Name) and isinstance(s.value, ast.Constant) and s.value.value == 1:
                nm = s.target.value.id
                self.env[nm] = ("lower", self.state(s.target.value), self.mode_term(s.target.slice))
                continue
            if isinstance(s, ast.AugAssign) and isinstance(s.op, ast.Add) and isinstance(s.target, ast.Name) and s.target.id == self.acc:
                p = self.product(s.value)
                # a guard `S[m] > 0` is redundant exactly when sqrt(S[m]) is a factor of the summand
                for g in guards:
                    if ("sqrt_occ", g[1], g[2]) not in p:
                        self.fail(s, f"summand guarded by {fmt(g)} > 0 does not contain sqrt of that occupation")
                self.loops.append(p)
                continue
            if isinstance(s, ast.For) and isinstance(s.target, ast.Name) and isinstance(s.iter, ast.Call) and dotted(s.iter.func) == "range" \
                    and len(s.iter.args) == 1 and isinstance(s.iter.args[0], ast.Name) and s.iter.args[0].id in self.d_names:
                saved = dict(self.env)
                self.env[s.target.id] = MODE
                self.block(s.body, guards)
                self.env = saved
                continue
            if isinstance(s, ast.If) and not s.orelse and isinstance(s.test, ast.Compare) and len(s.test.ops) == 1 \
                    and isinstance(s.test.ops[0], ast.Gt) and isinstance(s.test.comparators[0], ast.Constant) and s.test.comparators[0].value == 0:
                o = self.occ(s.test.left)
                saved = dict(self.env)
                self.block(s.body, guards + [o])
                self.env = saved
                continue
            if isinstance(s, ast.Return):
                v = s.value
                if isinstance(v, ast.BinOp) and isinstance(v.op, ast.Div) and isinstance(v.left, ast.Name) and v.left.id == self.acc:
                    f = self.factor(v.right)
                    self.divisor = f
                    continue
            self.fail(s, "statement outside the recurrence fragment")


class JaxReader(_Base):
    """`lowered_indices[idx, m]` / `basis[idx, m]` table dialect with fori_loop bodies."""

    def __init__(self, fn: FuncInfo, param_terms: Dict[str, Term]):
        super().__init__(fn)
        self.env.update(param_terms)
        self.occ_names: Dict[str, Term] = {}
        self.acc = _accumulator_name(fn)

    def state_of_index(self, e: ast.AST) -> Term:
        i = self.index(e)
        if i[0] == "idx":
            return i[1]
        self.fail(e, "basis row of the vacuum index is not used by the recurrence")

    def state(self, e: ast.AST) -> Term:
        if isinstance(e, ast.Name) and e.id in self.env and self.env[e.id][0] in ("ket", "bra", "lower"):
            return self.env[e.id]
        self.fail(e, "not a state")

    def occ(self, e: ast.AST) -> Term:
        if isinstance(e, ast.Name) and e.id in self.occ_names:
            return self.occ_names[e.id]
        if isinstance(e, ast.Subscript) and isinstance(e.value, ast.Name):
            if e.value.id == "basis" and isinstance(e.slice, ast.Tuple) and len(e.slice.elts) == 2:
                return ("occ", self.state_of_index(e.slice.elts[0]), self.mode_term(e.slice.elts[1]))
            if e.value.id in self.env and not isinstance(e.slice, ast.Tuple):
                return ("occ", self.state(e.value), self.mode_term(e.slice))
        self.fail(e, "not an occupation number")

    def index(self, e: ast.AST) -> Term:
        if isinstance(e, ast.Constant) and e.value == 0:
            return IDX0
        if isinstance(e, ast.Name) and e.id in self.env and self.env[e.id][0] in ("idx", "idx0"):
            return self.env[e.id]
        if isinstance(e, ast.Subscript) and isinstance(e.value, ast.Name) and e.value.id == "lowered_indices" \
                and isinstance(e.slice, ast.Tuple) and len(e.slice.elts) == 2:
            return ("idx", ("lower", self.state_of_index(e.slice.elts[0]), self.mode_term(e.slice.elts[1])))
        self.fail(e, "not a Fock-space index")

    def run(self):
        bodies: Dict[str, ast.FunctionDef] = {}
        for s in self.fn.node.body:
            if isinstance(s, ast.Expr) and isinstance(s.value, ast.Constant):
                continue
            if isinstance(s, ast.FunctionDef):
                bodies[s.name] = s
                continue
            if isinstance(s, ast.Assign) and len(s.targets) == 1 and isinstance(s.targets[0], ast.Name):
                t, v = s.targets[0].id, s.value
                if t in ("d", "real_dtype") or (isinstance(v, ast.Call) and (dotted(v.func) or "") == "len") \
                        or (isinstance(v, ast.Attribute) and v.attr in ("dtype", "shape", "real")):
                    if isinstance(v, ast.Call) and (dotted(v.func) or "") == "len":
                        self.d_names = set(self.d_names) | {t}
                    continue
                if isinstance(v, ast.Call) and (dotted(v.func) or "").split(".")[-1] == "_first_nonzero_mode":
                    self.pivot_of = self.state(v.args[0])
                    self.env[t] = PIVOT
                    continue
                if isinstance(v, ast.Subscript) and isinstance(v.value, ast.Name) and v.value.id == "basis" and not isinstance(v.slice, ast.Tuple):
                    self.env[t] = self.state_of_index(v.slice)
                    continue
                if isinstance(v, ast.Subscript) and isinstance(v.value, ast.Name) and v.value.id == "lowered_indices":
                    self.env[t] = self.index(v)
                    continue
                if t == self.acc and isinstance(v, ast.Call) and (dotted(v.func) or "").endswith("fori_loop") and len(v.args) == 4:
                    lo, hi, body, init = v.args
                    if not (isinstance(lo, ast.Constant) and lo.value == 0 and isinstance(hi, ast.Name) and hi.id in self.d_names
                            and isinstance(body, ast.Name) and body.id in bodies and isinstance(init, ast.Name) and init.id == self.acc):
                        self.fail(s, "fori_loop is not `fori_loop(0, d, body, value)`")
                    self.loop_body(bodies[body.id])
                    continue
                if t == self.acc:
                    self.init = self.product(v)
                    continue
            if isinstance(s, ast.Return):
                v = s.value
                if isinstance(v, ast.BinOp) and isinstance(v.op, ast.Div) and isinstance(v.left, ast.Name) and v.left.id == self.acc:
                    self.divisor = self.factor(v.right)
                    continue
            self.fail(s, "statement outside the recurrence fragment")
        return self.result()

    def loop_body(self, f: ast.FunctionDef) -> None:
        args = [a.arg for a in f.args.args]
        if len(args) != 2:
            self.fail(f, "loop body does not take (mode, value)")
        saved_env, saved_occ = dict(self.env), dict(self.occ_names)
        self.env[args[0]] = MODE
        acc = args[1]
        for s in f.body:
            if isinstance(s, ast.Assign) and len(s.targets) == 1 and isinstance(s.targets[0], ast.Name):
                t, v = s.targets[0].id, s.value
                if isinstance(v, ast.Subscript) and isinstance(v.value, ast.Name) and v.value.id == "lowered_indices":
                    self.env[t] = self.index(v)
                else:
                    self.occ_names[t] = self.occ(v)
                continue
            if isinstance(s, ast.Return) and isinstance(s.value, ast.BinOp) and isinstance(s.value.op, ast.Add) \
                    and isinstance(s.value.left, ast.Name) and s.value.left.id == acc:
                self.loops.append(self.product(s.value.right))
                continue
            self.fail(s, "loop-body statement outside the recurrence fragment")
        self.env, self.occ_names = saved_env, saved_occ
