"""Tables read from the tree (engine E1): simulators, instructions, connectors."""

from __future__ import annotations

import ast
import re
from dataclasses import dataclass, field
from typing import Dict, List, Optional, Tuple, Union

from .index import ClassInfo, FuncInfo, Index, ModuleInfo, dotted, norm
from .report import AnalysisError

SIM_BASE = ("piquasso.api.simulator", "Simulator")
INSTR_BASE = ("piquasso.api.instruction", "Instruction")
CONNECTOR_BASE = ("piquasso.api.connector", "BaseConnector")


@dataclass(eq=False)
class MapEntry:
    key_expr: ast.expr
    value_expr: ast.expr
    instr: Optional[ClassInfo]
    step: Optional[FuncInfo]  # resolved simulation step (None for factory calls that cannot be resolved)
    factory: Optional[FuncInfo] = None  # e.g. create_imperfect_particle_number_measurement
    factory_args: Dict[str, FuncInfo] = field(default_factory=dict)

    @property
    def line(self) -> int:
        return self.key_expr.lineno


@dataclass(eq=False)
class SimulatorInfo:
    cls: ClassInfo
    entries: List[MapEntry]
    state_class: Optional[ClassInfo]
    default_connector: Optional[ClassInfo]
    extra_connectors: List[ClassInfo]
    allowed_mid_circuit: List[ClassInfo]
    allowed_shots_none: List[ClassInfo]
    documented: Dict[str, List[Tuple[str, str]]]  # section → [(dotted path, class name)]

    @property
    def name(self) -> str:
        return self.cls.qualname

    def connectors(self) -> List[ClassInfo]:
        out = []
        for c in [self.default_connector] + self.extra_connectors:
            if c is not None and c not in out:
                out.append(c)
        return out

    def steps(self) -> List[FuncInfo]:
        out: List[FuncInfo] = []
        for e in self.entries:
            for f in [e.step, e.factory] + list(e.factory_args.values()):
                if f is not None and f not in out:
                    out.append(f)
        return out

    def classes_for_step(self, step: FuncInfo) -> List[ClassInfo]:
        return [e.instr for e in self.entries if e.instr is not None and (e.step is step or step in e.factory_args.values())]


@dataclass(eq=False)
class InstructionInfo:
    cls: ClassInfo
    ctor: Optional[FuncInfo]
    ctor_params: List[str]  # positional-or-keyword names after self, in order
    ctor_defaults: Dict[str, ast.expr]
    params_calls: List[ast.Call]  # super().__init__(params=...) calls
    params_keys: List[List[str]]  # ordered keys per call
    params_values: List[Dict[str, ast.expr]]
    computed_keys: List[str]
    number_of_modes: Optional[int]
    abstract: bool

    def all_param_keys(self) -> List[str]:
        out: List[str] = []
        for ks in self.params_keys:
            for k in ks:
                if k not in out:
                    out.append(k)
        return out


class Registry:
    def __init__(self, idx: Index):
        self.idx = idx
        self.sim_base = idx.find_class(*SIM_BASE)
        self.instr_base = idx.find_class(*INSTR_BASE)
        self.simulators: List[SimulatorInfo] = []
        self.instructions: Dict[str, InstructionInfo] = {}
        self._load_simulators()
        self._load_instructions()

    # ---- simulators --------------------------------------------------------------------------
    def _class_list(self, owner: ClassInfo, name: str) -> List[ClassInfo]:
        found = owner.find_attr(name)
        if not found:
            return []
        c, expr = found
        out = []
        if isinstance(expr, (ast.Tuple, ast.List)):
            for e in expr.elts:
                r = self.idx.resolve_expr(c.module, e)
                if isinstance(r, ClassInfo):
                    out.append(r)
                else:
                    raise AnalysisError(f"registry: cannot resolve `{norm(e)}` in {c.qualname}.{name}")
        elif isinstance(expr, ast.Call) and dotted(expr.func) in ("tuple", "list") and not expr.args:
            return []
        else:
            raise AnalysisError(f"registry: {c.qualname}.{name} is not a literal tuple/list (undecided)")
        return out

    def _class_attr(self, owner: ClassInfo, name: str) -> Optional[ClassInfo]:
        found = owner.find_attr(name)
        if not found:
            return None
        c, expr = found
        r = self.idx.resolve_expr(c.module, expr)
        return r if isinstance(r, ClassInfo) else None

    def _load_simulators(self) -> None:
        for c in self.idx.subclasses(self.sim_base):
            if "_instruction_map" not in c.attrs:
                continue  # abstract bases and aliases (SamplingSimulator inherits the map)
            expr = c.attrs["_instruction_map"]
            if not isinstance(expr, ast.Dict):
                raise AnalysisError(f"registry: {c.qualname}._instruction_map is not a dict literal (undecided)")
            entries = []
            for k, v in zip(expr.keys, expr.values):
                if k is None:
                    raise AnalysisError(f"registry: ** expansion in {c.qualname}._instruction_map (undecided)")
                instr = self.idx.resolve_expr(c.module, k)
                if not isinstance(instr, ClassInfo):
                    raise AnalysisError(f"registry: cannot resolve instruction `{norm(k)}` in {c.qualname}")
                step = self.idx.resolve_expr(c.module, v)
                entry = MapEntry(k, v, instr, step if isinstance(step, FuncInfo) else None)
                if entry.step is None:
                    if isinstance(v, ast.Call):
                        fac = self.idx.resolve_expr(c.module, v.func)
                        if isinstance(fac, FuncInfo):
                            entry.factory = fac
                            for kw in v.keywords:
                                r = self.idx.resolve_expr(c.module, kw.value)
                                if isinstance(r, FuncInfo) and kw.arg:
                                    entry.factory_args[kw.arg] = r
                            for i, a in enumerate(v.args):
                                r = self.idx.resolve_expr(c.module, a)
                                if isinstance(r, FuncInfo):
                                    entry.factory_args[str(i)] = r
                    if entry.factory is None:
                        raise AnalysisError(f"registry: cannot resolve step `{norm(v)}` in {c.qualname}")
                entries.append(entry)
            self.simulators.append(
                SimulatorInfo(
                    cls=c,
                    entries=entries,
                    state_class=self._class_attr(c, "_state_class"),
                    default_connector=self._class_attr(c, "_default_connector_class"),
                    extra_connectors=self._class_list(c, "_extra_builtin_connectors"),
                    allowed_mid_circuit=self._class_list(c, "_measurement_classes_allowed_mid_circuit"),
                    allowed_shots_none=self._class_list(c, "_measurement_classes_allowed_with_shots_none"),
                    documented=self._documented(c),
                )
            )
        self.simulators.sort(key=lambda s: s.name)

    _ROLE = re.compile(r":class:`~?([A-Za-z0-9_.]+)`")

    def _documented(self, c: ClassInfo) -> Dict[str, List[Tuple[str, str]]]:
        doc = c.docstring()
        out: Dict[str, List[Tuple[str, str]]] = {}
        cur = None
        for line in doc.splitlines():
            s = line.strip()
            m = re.match(r"^Supported ([a-z ]+):\s*$", s)
            if m:
                cur = m.group(1)
                out[cur] = []
                continue
            if cur is not None:
                if not s:
                    cur = None
                    continue
                roles = self._ROLE.findall(s)
                if not roles:
                    cur = None
                    continue
                for r in roles:
                    out[cur].append((r, r.split(".")[-1]))
        return out

    # ---- instructions ------------------------------------------------------------------------
    def _load_instructions(self) -> None:
        for c in self.idx.subclasses(self.instr_base):
            ctor = c.find_method("__init__")
            own_ctor = ctor if ctor and ctor.cls is not self.instr_base else None
            params: List[str] = []
            defaults: Dict[str, ast.expr] = {}
            calls: List[ast.Call] = []
            keys: List[List[str]] = []
            values: List[Dict[str, ast.expr]] = []
            if own_ctor is not None:
                a = own_ctor.node.args
                pos = a.posonlyargs + a.args
                params = [x.arg for x in pos[1:]] + [x.arg for x in a.kwonlyargs]
                for x, d in zip(reversed(pos), reversed(a.defaults)):
                    defaults[x.arg] = d
                for x, d in zip(a.kwonlyargs, a.kw_defaults):
                    if d is not None:
                        defaults[x.arg] = d
                for call in ast.walk(own_ctor.node):
                    if isinstance(call, ast.Call) and isinstance(call.func, ast.Attribute) and call.func.attr == "__init__":
                        recv = call.func.value
                        if isinstance(recv, ast.Call) and dotted(recv.func) == "super":
                            calls.append(call)
                            pk: List[str] = []
                            pv: Dict[str, ast.expr] = {}
                            for kw in call.keywords:
                                if kw.arg == "params":
                                    pk, pv = self._dict_items(kw.value, c, own_ctor.node)
                            keys.append(pk)
                            values.append(pv)
            computed: List[str] = []
            gcp = c.find_method("_get_computed_params")
            if gcp is not None and gcp.cls is not self.instr_base:
                for r in ast.walk(gcp.node):
                    if isinstance(r, ast.Return) and r.value is not None:
                        k, _ = self._dict_items(r.value, c, gcp.node)
                        for x in k:
                            if x not in computed:
                                computed.append(x)
            nom = None
            f = c.find_attr("NUMBER_OF_MODES")
            if f and isinstance(f[1], ast.Constant) and isinstance(f[1].value, int):
                nom = f[1].value
            abstract = (
                own_ctor is None
                or any(m.decorators and any(d.endswith("abstractmethod") for d in m.decorators) for m in c.methods.values())
                or c.name.startswith("_")
            )
            self.instructions[c.qualname] = InstructionInfo(
                c, own_ctor, params, defaults, calls, keys, values, computed, nom, abstract
            )

    def _dict_items(self, node: ast.expr, c: ClassInfo, scope: Optional[ast.AST] = None) -> Tuple[List[str], Dict[str, ast.expr]]:
        keys: List[str] = []
        vals: Dict[str, ast.expr] = {}
        # a local bound once to the dict (`params = dict(...)`; `return params`) denotes the dict
        if isinstance(node, ast.Name) and scope is not None:
            defs = [a.value for a in ast.walk(scope) if isinstance(a, ast.Assign) and len(a.targets) == 1
                    and isinstance(a.targets[0], ast.Name) and a.targets[0].id == node.id]
            if len(defs) == 1:
                node = defs[0]
        if isinstance(node, ast.Call) and dotted(node.func) == "dict" and not node.args:
            for kw in node.keywords:
                if kw.arg is None:
                    raise AnalysisError(f"registry: **-expansion in params dict of {c.qualname} (undecided)")
                keys.append(kw.arg)
                vals[kw.arg] = kw.value
            return keys, vals
        if isinstance(node, ast.Dict):
            for k, v in zip(node.keys, node.values):
                if not (isinstance(k, ast.Constant) and isinstance(k.value, str)):
                    raise AnalysisError(f"registry: non-literal key in params dict of {c.qualname} (undecided)")
                keys.append(k.value)
                vals[k.value] = v
            return keys, vals
        raise AnalysisError(f"registry: params of {c.qualname} is `{norm(node)[:60]}`, not a dict literal (undecided)")

    def instruction(self, c: ClassInfo) -> InstructionInfo:
        return self.instructions[c.qualname]

    def concrete_instructions(self) -> List[InstructionInfo]:
        return [i for i in self.instructions.values() if i.ctor is not None and not i.cls.name.startswith("_")]


_CACHE: Dict[int, Registry] = {}


def get_registry(idx: Index) -> Registry:
    if id(idx) not in _CACHE:
        _CACHE[id(idx)] = Registry(idx)
    return _CACHE[id(idx)]
