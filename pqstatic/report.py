"""Reporting: VIOLATION / KNOWN-FINDING / ANALYSIS-ERROR lines, evidence JSON, exit codes.

Exit protocol (DESIGN section 1):
  0  property held on everything analysed (KNOWN-FINDING lines for listed findings still present)
  1  VIOLATION property=<id> replay=<path>   (a violation the known-findings file does not list)
  2  ANALYSIS-ERROR ...                      (anchor vanished, instance floor missed, undecidable
                                              obligation, parser failure, internal traceback)
"""

from __future__ import annotations

import json
import os
import sys
import time
import traceback
from dataclasses import dataclass, field
from typing import Any, Dict, List, Optional

VERIF_DIR = os.path.dirname(os.path.dirname(os.path.abspath(__file__)))
KNOWN_FINDINGS_FILE = os.path.join(VERIF_DIR, "known_findings.json")
EVIDENCE_SCHEMA = "/root/.vp/EVIDENCE.schema.json"


class AnalysisError(Exception):
    """The analysis cannot give a verdict (never a silent pass)."""


@dataclass
class Finding:
    rule: str  # e.g. "C12a.restore-on-all-exits"
    key: str  # stable key: rule|module|qualified function|normalised construct
    file: str
    line: int
    message: str
    construct: str = ""
    path: Optional[List[str]] = None  # for path rules: entry → offending exit

    def as_dict(self) -> Dict[str, Any]:
        d = {
            "rule": self.rule,
            "key": self.key,
            "file": self.file,
            "line": self.line,
            "message": self.message,
            "construct": self.construct,
        }
        if self.path:
            d["path"] = self.path
        return d


@dataclass
class Context:
    property_id: str
    tier: str
    repo: str
    seed: int = 0
    level: str = "other"
    findings: List[Finding] = field(default_factory=list)
    instances: List[Dict[str, Any]] = field(default_factory=list)
    obligations: int = 0
    discharged: int = 0
    analysed: Dict[str, Any] = field(default_factory=dict)
    assumptions: List[str] = field(default_factory=list)
    errors: List[str] = field(default_factory=list)
    rules: Dict[str, str] = field(default_factory=dict)  # rule id → description
    explanation: str = ""
    trusted_base: List[str] = field(default_factory=list)
    extra: Dict[str, Any] = field(default_factory=dict)
    t0: float = field(default_factory=time.time)

    # ---- recording -----------------------------------------------------
    def rule(self, rule_id: str, description: str) -> None:
        self.rules[rule_id] = description

    def instance(self, rule: str, key: str, verdict: str, where: str = "", **more: Any) -> None:
        """One analysed rule instance (call site, function, table row, obligation)."""
        rec = {"rule": rule, "instance": key, "verdict": verdict}
        if where:
            rec["where"] = where
        rec.update(more)
        self.instances.append(rec)

    def obligation(self, rule: str, key: str, ok: bool, where: str = "", **more: Any) -> None:
        self.obligations += 1
        if ok:
            self.discharged += 1
        self.instance(rule, key, "discharged" if ok else "FAILED", where, **more)

    def violation(
        self,
        rule: str,
        key: str,
        file: str,
        line: int,
        message: str,
        construct: str = "",
        path: Optional[List[str]] = None,
    ) -> None:
        full_key = key if key.startswith(rule + "|") else rule + "|" + key
        for f in self.findings:
            if f.key == full_key:
                return
        self.findings.append(Finding(rule, full_key, self.relpath(file), line, message, construct, path))

    def error(self, message: str) -> None:
        self.errors.append(message)

    def require_floor(self, what: str, count: int, floor: int) -> None:
        """Anti-vacuity: a rule population below the confirmed floor is analysis-broken."""
        self.analysed[what] = count
        if count < floor:
            self.error(
                f"instance floor missed: {what}: found {count}, confirmed floor {floor} "
                f"(an anchor moved or the extractor no longer recognises the idiom)"
            )

    def count(self, what: str, n: Any) -> None:
        self.analysed[what] = n

    def assume(self, text: str) -> None:
        if text not in self.assumptions:
            self.assumptions.append(text)

    def relpath(self, path: str) -> str:
        try:
            if os.path.isabs(path):
                return os.path.relpath(path, self.repo)
        except ValueError:
            pass
        return path


def load_known_findings(property_id: str) -> Dict[str, Dict[str, Any]]:
    if not os.path.exists(KNOWN_FINDINGS_FILE):
        return {}
    with open(KNOWN_FINDINGS_FILE) as fh:
        data = json.load(fh)
    out = {}
    for rec in data.get("known", []):
        if rec.get("property") == property_id:
            out[rec["key"]] = rec
    return out


_IDENT = None


def canonical_key(key: str) -> str:
    """The key with the plain identifiers of its construct segments replaced by placeholders in order of appearance, so that a
    listed finding is still recognised after a local variable has been renamed (`row_sums[subset]` and `sums[s]` are both
    `$0[$1]`).  Rule and function segments, attribute names, called names and keywords are kept."""
    global _IDENT
    import keyword
    import re
    if _IDENT is None:
        _IDENT = re.compile(r"(?<![\w.])([A-Za-z_][A-Za-z0-9_]*)(?![\w(])")
    segs = key.split("|")
    if len(segs) < 3:
        return key
    names: Dict[str, str] = {}

    def sub(m):
        w = m.group(1)
        if keyword.iskeyword(w) or w in ("True", "False", "None", "np", "self", "state", "len", "int", "float", "range"):
            return w
        return names.setdefault(w, f"${len(names)}")

    return "|".join(segs[:2] + [_IDENT.sub(sub, x) for x in segs[2:]])


def finish(ctx: Context, evidence_path: Optional[str], replay_dir: str) -> int:
    """Print verdict lines, write evidence (validated), return the exit code."""
    known = load_known_findings(ctx.property_id)
    new: List[Finding] = []
    still_known: List[Finding] = []
    exact = {f.key for f in ctx.findings if f.key in known}
    # listed findings not matched exactly may be matched once each by their canonical form (locals renamed)
    spare: Dict[str, List[str]] = {}
    for k in known:
        if k not in exact:
            spare.setdefault(canonical_key(k), []).append(k)
    for f in ctx.findings:
        if f.key in known:
            still_known.append(f)
            continue
        ck = canonical_key(f.key)
        if spare.get(ck):
            listed = spare[ck].pop(0)
            known[f.key] = known[listed]
            still_known.append(f)
            continue
        new.append(f)

    for f in still_known:
        print(
            f"KNOWN-FINDING: property={ctx.property_id} {f.key} :: {f.file}:{f.line} :: "
            f"{known[f.key].get('what', f.message)}"
        )
    matched_listed = {id(known[f.key]) for f in still_known}
    absent = [k for k, v in known.items() if id(v) not in matched_listed]
    for k in absent:
        # informational; a listed finding that vanished is not an error (it may have been fixed)
        print(f"NOTE: listed known finding no longer present: property={ctx.property_id} {k}")

    code = 0
    replay_paths = []
    if ctx.errors:
        code = 2
        for e in ctx.errors:
            print(f"ANALYSIS-ERROR property={ctx.property_id} {e}")
    if new:
        os.makedirs(replay_dir, exist_ok=True)
        for i, f in enumerate(new):
            path = os.path.join(replay_dir, f"{ctx.property_id}-{i}.json")
            with open(path, "w") as fh:
                json.dump(
                    {"property": ctx.property_id, "tier": ctx.tier, "repo": ctx.repo, **f.as_dict()},
                    fh,
                    indent=1,
                )
            replay_paths.append(path)
            print(f"  {f.file}:{f.line}: [{f.rule}] {f.message}")
            print(f"      instance: {f.key}")
            if f.construct:
                print(f"      construct: {f.construct}")
            if f.path:
                print(f"      path: {' -> '.join(f.path)}")
            print(f"VIOLATION property={ctx.property_id} replay={path}")
        code = 1  # a definite violation outranks an undecided remainder

    wall = time.time() - ctx.t0
    if evidence_path:
        write_evidence(ctx, evidence_path, wall, len(new), [f.as_dict() for f in still_known], code)
    summary = (
        f"{ctx.property_id} tier={ctx.tier}: instances={len(ctx.instances)} "
        f"obligations={ctx.obligations}/{ctx.discharged} known={len(still_known)} "
        f"new-violations={len(new)} errors={len(ctx.errors)} wall={wall:.2f}s"
    )
    print(summary)
    return code


def write_evidence(ctx: Context, path: str, wall: float, violations: int, known: list, code: int) -> None:
    distinct = len({(i["rule"], i["instance"]) for i in ctx.instances})
    samples = ctx.instances[:: max(1, len(ctx.instances) // 12)][:14] or [{"note": "no instance analysed"}]
    coverage: Dict[str, Any] = {
        "evaluations": max(1, len(ctx.instances)),
        "distinct_nontrivial": distinct,
        "rule": (
            "rule instances (call sites, functions, table rows, typing obligations) are discovered from "
            "/repo's source on this run; an instance is one (rule, construct key) pair; distinct = distinct keys"
        ),
        "samples": samples,
        "explanation": ctx.explanation
        or "static analysis of /repo's current source; see rules and analysed",
        "rules": ctx.rules,
        "analysed": ctx.analysed,
        "known_findings_present": known,
        "exit_code": code,
    }
    if ctx.obligations:
        coverage["obligations"] = ctx.obligations
        coverage["discharged"] = ctx.discharged
        coverage["checker_cmd"] = f"python3-vt /verif/check {ctx.property_id} --tier {ctx.tier}"
        coverage["trusted_base"] = ctx.trusted_base or ["python ast", "this checker"]
    coverage.update(ctx.extra)
    ev = {
        "property_id": ctx.property_id,
        "tier": ctx.tier,
        "seed": ctx.seed,
        "level": ctx.level,
        "coverage": coverage,
        "assumptions": ctx.assumptions,
        "wall_s": round(wall, 3),
        "violations": violations,
    }
    os.makedirs(os.path.dirname(path), exist_ok=True)
    tmp = path + ".tmp"
    with open(tmp, "w") as fh:
        json.dump(ev, fh, indent=1, default=str)
    os.replace(tmp, path)
    # validate when the schema and jsonschema are available; an invalid file is an analysis error
    try:
        import jsonschema  # type: ignore

        if os.path.exists(EVIDENCE_SCHEMA):
            with open(EVIDENCE_SCHEMA) as fh:
                schema = json.load(fh)
            jsonschema.validate(ev, schema)
    except ImportError:
        pass


def run_guarded(fn, ctx: Context, evidence_path: Optional[str], replay_dir: str) -> int:
    try:
        fn(ctx)
    except AnalysisError as e:
        ctx.error(str(e))
    except Exception as e:  # noqa: BLE001 - every traceback is an analysis error (exit 2), never exit 1
        tb = traceback.format_exc()
        sys.stderr.write(tb)
        ctx.error(f"internal error in checker: {type(e).__name__}: {e}")
    try:
        return finish(ctx, evidence_path, replay_dir)
    except Exception as e:  # noqa: BLE001
        sys.stderr.write(traceback.format_exc())
        print(f"ANALYSIS-ERROR property={ctx.property_id} cannot write evidence: {e}")
        return 2
