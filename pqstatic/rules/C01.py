"""C01 — all bosonic simulators agree: sibling-agreement clauses between the simulators' implementations of one gate.

The statement as a whole (equal photon statistics of four numerical algorithms for every program) is numerical and NOT
decided.  What is visible in the source, and necessary, is that the implementations of one gate in different simulators
describe the *same* gate:

(a) *diagonal phase gates* (Kerr, CrossKerr): the pure-Fock, the mixed-Fock and the passive simulator each multiply
    amplitudes by exp(i g(n)); the exponents are translated to sympy (occupation numbers of the ket -> n0, n1, of the
    bra -> m0, m1) and must satisfy  g_pure = g_passive  and  g_mixed(n, m) = g_pure(n) - g_pure(m).
(b) *conventions of the active single-mode gates*: the amplitude the Gaussian displacement step adds to the mean equals
    the alpha of the Fock-space displacement matrix; the Bogoliubov coefficients implied by the scalars of the Fock-space
    squeezing matrix (S = c exp(A' a^dagger^2) g^(a^dagger a) exp(B' a^2)  =>  a -> (1/g) a + (2 A'/g) a^dagger, with
    A' = -A/2) equal the passive and active blocks of `Squeezing` that the Gaussian simulator uses.
(c) *one ladder convention*: the Fock `linear` step assembles [[P, A], [conj A, conj P]] from the same blocks the
    Gaussian update rules (C07e) are derived for, i.e. a' = P a + A a^dagger in both.
The sub-clauses for every hbar, every cutoff >= 1 and every mode order are decided under C14/C02, C13 and C16.
"""

from __future__ import annotations

import ast
from typing import Dict, List, Optional, Tuple

import sympy as sp

from .. import ladder as ld
from .. import moments as mw
from ..index import FuncInfo, dotted, get_index, norm, walk_no_nested
from ..registry import get_registry
from ..report import AnalysisError, Context
from .C07 import block_of, gate_symbols

LEVEL = "other"
PURE = "piquasso._simulators.fock.pure.simulation_steps"
GENERAL = "piquasso._simulators.fock.general.simulation_steps"
PASSIVE = "piquasso._simulators.passive.simulation_steps"
GAUSS = "piquasso._simulators.gaussian.simulation_steps"
GATEM = "piquasso._math.gate_matrices"
GATES = "piquasso.instructions.gates"
XI = sp.Symbol("xi", real=True)


class _Phase:
    """Translate the argument of the np.exp(..) of a diagonal gate step to sympy."""

    def __init__(self, fn: FuncInfo):
        self.fn = fn
        self.defs: Dict[str, ast.AST] = {}
        for n in walk_no_nested(fn.node):
            if isinstance(n, ast.Assign) and len(n.targets) == 1:
                t = n.targets[0]
                if isinstance(t, ast.Name):
                    self.defs[t.id] = n.value
                elif isinstance(t, ast.Tuple) and isinstance(n.value, ast.Attribute) and n.value.attr == "modes":
                    for i, e in enumerate(t.elts):
                        if isinstance(e, ast.Name):
                            self.defs[e.id] = ast.Subscript(value=n.value, slice=ast.Constant(i), ctx=ast.Load())

    def mode_index(self, e: ast.AST, depth: int = 0) -> Optional[int]:
        """`mode` / `modes[0]` / `instruction.modes[1]` -> position in the gate's mode tuple."""
        if isinstance(e, ast.Name) and e.id in self.defs and depth < 5:
            return self.mode_index(self.defs[e.id], depth + 1)
        if isinstance(e, ast.Subscript) and isinstance(e.slice, ast.Constant) and isinstance(e.slice.value, int):
            b = e.value
            if isinstance(b, ast.Name) and b.id in self.defs and depth < 5:
                b = self.defs[b.id]
            if isinstance(b, ast.Attribute) and b.attr == "modes":
                return e.slice.value
        return None

    def ev(self, e: ast.AST, depth: int = 0) -> sp.Expr:
        if isinstance(e, ast.Constant):
            if isinstance(e.value, complex):
                return sp.I * sp.nsimplify(e.value.imag)
            if isinstance(e.value, (int, float)):
                return sp.nsimplify(e.value)
        if isinstance(e, ast.Name):
            if e.id in self.defs and depth < 6:
                d = self.defs[e.id]
                if isinstance(d, ast.Subscript) and isinstance(d.slice, ast.Constant) and d.slice.value == "xi" \
                        and ("params" in norm(d.value) or "_get_all_params(" in norm(d.value)):
                    return XI
                return self.ev(d, depth + 1)
            if e.id == "xi":
                return XI
        if isinstance(e, ast.BinOp):
            l, r = self.ev(e.left, depth), self.ev(e.right, depth)
            if isinstance(e.op, ast.Mult):
                return l * r
            if isinstance(e.op, ast.Add):
                return l + r
            if isinstance(e.op, ast.Sub):
                return l - r
            if isinstance(e.op, ast.Pow):
                return l ** r
        if isinstance(e, ast.UnaryOp) and isinstance(e.op, ast.USub):
            return -self.ev(e.operand, depth)
        if isinstance(e, ast.Call):
            nm = (dotted(e.func) or "").split(".")[-1]
            if nm in ("array", "asarray") and e.args:
                return self.ev(e.args[0], depth)
        if isinstance(e, ast.ListComp):
            return self.ev(e.elt, depth)
        if isinstance(e, ast.Subscript):
            # <occupation vector>[<mode>]
            k = self.mode_index(e.slice)
            if k is not None:
                base = norm(e.value)
                bra = "dual" in base
                return sp.Symbol(("m" if bra else "n") + str(k), integer=True, nonnegative=True)
            if isinstance(e.slice, ast.Constant) and isinstance(e.slice.value, int):
                # modes unpacked positionally: basis[mode1] with mode1, mode2 = instruction.modes
                pass
        raise AnalysisError(f"C01a: `{norm(e)[:60]}` in {self.fn.qualname} is outside the phase fragment")

    def exponent(self) -> sp.Expr:
        exps = [n for n in walk_no_nested(self.fn.node) if isinstance(n, ast.Call) and (dotted(n.func) or "").split(".")[-1] == "exp" and n.args]
        if len(exps) != 1:
            raise AnalysisError(f"C01a: expected one np.exp(...) in {self.fn.qualname}, found {len(exps)}")
        return sp.expand(self.ev(exps[0].args[0]))


def clause_a(ctx: Context) -> None:
    ctx.rule("C01a", "the phase exponents of the diagonal gates agree between the simulators: g_pure = g_passive and "
                     "g_mixed(ket, bra) = g_pure(ket) - g_pure(bra)")
    idx = get_index(ctx.repo)
    n = 0
    for step in ("kerr", "cross_kerr"):
        fns = {}
        for label, mod in (("pure", PURE), ("mixed", GENERAL), ("passive", PASSIVE)):
            m = idx.module(mod)
            if step in m.functions:
                fns[label] = m.functions[step]
        if "pure" not in fns or len(fns) < 2:
            raise AnalysisError(f"anchor vanished: step `{step}` in the Fock simulators")
        g = {k: _Phase(f).exponent() for k, f in fns.items()}
        ket_to_bra = {sp.Symbol(f"n{i}", integer=True, nonnegative=True): sp.Symbol(f"m{i}", integer=True, nonnegative=True) for i in range(2)}
        for other, want in (("passive", g["pure"]), ("mixed", sp.expand(g["pure"] - g["pure"].subs(ket_to_bra, simultaneous=True)))):
            if other not in g:
                continue
            n += 1
            ok = sp.simplify(g[other] - want) == 0
            f = fns[other]
            key = f"{f.qualname}|phase exponent agrees with the pure-Fock step"
            ctx.obligation("C01a", key, ok, f"{ctx.relpath(f.file)}:{f.line}", got=str(g[other]), want=str(want))
            if not ok:
                ctx.violation("C01a", key, f.file, f.line,
                              f"{step} multiplies by exp({g[other]}) on the {other} simulator, but the pure-Fock simulator's step implies "
                              f"exp({want}): the simulators implement different gates", str(g[other]))
    ctx.require_floor("C01a sibling phase exponents compared", n, 3)


def _scalars(fn: FuncInfo) -> Dict[str, sp.Expr]:
    ev = ld.LadderEval({"r": ld.Sc(ld.R), "phi": ld.Sc(ld.PHI)})
    out: Dict[str, sp.Expr] = {}
    for s in fn.node.body:
        if isinstance(s, ast.Assign) and len(s.targets) == 1 and isinstance(s.targets[0], ast.Name):
            try:
                v = ev.ev(s.value)
            except ld.NotLadder:
                continue
            if isinstance(v, ld.Sc):
                ev.env[s.targets[0].id] = v
                out[s.targets[0].id] = v.e
    return out


def _same(a: sp.Expr, b: sp.Expr) -> bool:
    return sp.simplify((a - b).rewrite(sp.exp)) == 0


def clause_b(ctx: Context) -> None:
    ctx.rule("C01b", "the Gaussian displacement step adds the alpha of the Fock-space displacement matrix; the blocks of Squeezing equal "
                     "the Bogoliubov coefficients (1/g, 2A'/g) implied by the scalars of the Fock-space squeezing matrix")
    idx = get_index(ctx.repo)
    reg = get_registry(idx)
    # displacement
    fwd = idx.find_function(GATEM, "create_single_mode_displacement_matrix")
    sc = _scalars(fwd)
    alpha_f = next((v for v in sc.values() if _same(v, ld.R * sp.exp(sp.I * ld.PHI)) or _same(v, ld.R * sp.exp(-sp.I * ld.PHI))), None)
    if "displacement" in sc:
        alpha_f = sc["displacement"]
    g = idx.find_function(GAUSS, "displacement")
    added: Optional[sp.Expr] = None
    from ..algebra import local_param_env
    env0 = {"r": ld.Sc(ld.R), "phi": ld.Sc(ld.PHI)}
    for k, v in local_param_env(g.node, {"r": ld.R, "phi": ld.PHI}).items():
        if v != "<np>":
            env0[k] = ld.Sc(v)
    ev = ld.LadderEval(env0)
    for n in walk_no_nested(g.node):
        if isinstance(n, ast.BinOp) and isinstance(n.op, ast.Add) and isinstance(n.left, ast.Subscript) and "_m" in norm(n.left.value):
            try:
                v = ev.ev(n.right)
                if isinstance(v, ld.Sc):
                    added = v.e
            except ld.NotLadder:
                pass
    if alpha_f is None or added is None:
        ctx.error("C01b: the displacement amplitude of the Fock builder or of the Gaussian step is outside the scalar fragment; undecided")
    else:
        ok = _same(alpha_f, added)
        key = f"{g.qualname}|amplitude equals the Fock-space alpha"
        ctx.obligation("C01b", key, ok, f"{ctx.relpath(g.file)}:{g.line}", gaussian=str(added), fock=str(alpha_f))
        if not ok:
            ctx.violation("C01b", key, g.file, g.line,
                          f"the Gaussian simulator displaces the mean by {added} while the Fock simulators build D(alpha) with alpha = {alpha_f}",
                          str(added))
    # squeezing
    fwd = idx.find_function(GATEM, "create_single_mode_squeezing_matrix")
    sc = _scalars(fwd)
    gq = sc.get("sechr")
    Aq = sc.get("A")
    if gq is None or Aq is None:
        # the locals were renamed: take the scalars by their role - the one that is a function of r alone and tends to 1 at r = 0 while
        # decaying (g), and the one carrying the phase e^{i phi} and vanishing at r = 0 (A)
        for v in sc.values():
            if gq is None and not v.has(ld.PHI) and v.has(ld.R) and sp.simplify(v.subs(ld.R, 0) - 1) == 0 and sp.limit(v, ld.R, sp.oo) == 0:
                gq = v
            if Aq is None and v.has(ld.PHI) and v.has(ld.R) and sp.simplify(v.subs(ld.R, 0)) == 0 and sp.simplify(sp.Abs(v.subs(ld.PHI, 0)) - sp.Abs(v.subs(ld.PHI, 1))) == 0 \
                    and not v.has(sp.conjugate):
                Aq = v
    if gq is None or Aq is None:
        ctx.error("C01b: the scalars of the squeezing builder (sech r and e^{i phi} tanh r) cannot be identified; undecided")
        return
    cls = idx.find_class(GATES, "Squeezing")
    info = reg.instruction(cls)
    syms = gate_symbols(info)
    P = block_of(cls, "_get_passive_block", syms)[0, 0]
    Ab = block_of(cls, "_get_active_block", syms)[0, 0]
    sub = {syms[k]: v for k, v in (("r", ld.R), ("phi", ld.PHI)) if k in syms}
    P, Ab = P.subs(sub), Ab.subs(sub)
    for nm, got, want in (("passive", P, 1 / gq), ("active", Ab, -Aq / gq)):
        ok = _same(got, want)
        key = f"{cls.qualname}|{nm} block equals the Bogoliubov coefficient of the Fock-space squeezing matrix"
        ctx.obligation("C01b", key, ok, f"{ctx.relpath(cls.file)}:{cls.node.lineno}", block=str(got), fock=str(sp.simplify(want)))
        if not ok:
            ctx.violation("C01b", key, cls.file, cls.node.lineno,
                          f"Squeezing's {nm} block is {got}, the Fock-space squeezing matrix (sech r = {gq}, A = {Aq}) transforms a with "
                          f"{sp.simplify(want)}: the Gaussian and the Fock simulators squeeze differently", str(got))


def clause_c(ctx: Context) -> None:
    ctx.rule("C01c", "the Fock `linear` steps assemble [[P, A], [conj A, conj P]] from the gate's blocks (a' = P a + A a^dagger, the "
                     "convention the Gaussian update rules are derived for)")
    idx = get_index(ctx.repo)
    n = 0
    for mod in (PURE, GENERAL):
        m = idx.module(mod)
        f = m.functions.get("linear")
        if f is None:
            continue
        names: Dict[str, str] = {}
        for s in walk_no_nested(f.node):
            if isinstance(s, ast.Assign) and len(s.targets) == 1 and isinstance(s.targets[0], ast.Name) and isinstance(s.value, ast.Call):
                c = (dotted(s.value.func) or "").split(".")[-1]
                if c == "_get_passive_block":
                    names[s.targets[0].id] = "P"
                elif c == "_get_active_block":
                    names[s.targets[0].id] = "A"
        blocks = [c for c in walk_no_nested(f.node) if isinstance(c, ast.Call) and (dotted(c.func) or "").split(".")[-1] == "block" and c.args
                  and isinstance(c.args[0], ast.List) and len(c.args[0].elts) == 2]
        if not blocks or set(names.values()) != {"P", "A"}:
            continue
        n += 1
        rows = blocks[0].args[0].elts
        env = {k: mw.sym(v) for k, v in names.items()}
        ev = mw.WordEval(env)
        try:
            got = [[ev.ev(x) for x in row.elts] for row in rows]
        except mw.Untranslatable as u:
            ctx.error(f"C01c: {u}; undecided")
            continue
        P, A = mw.sym("P"), mw.sym("A")
        want = [[P, A], [mw.conj(A), mw.conj(P)]]
        ok = got == want
        key = f"{f.qualname}|symplectic assembled as [[P, A], [conj A, conj P]]"
        ctx.obligation("C01c", key, ok, f"{ctx.relpath(f.file)}:{blocks[0].lineno}")
        if not ok:
            ctx.violation("C01c", key, f.file, blocks[0].lineno,
                          "the complex-form symplectic matrix is not [[P, A], [conj A, conj P]]: got [[" +
                          "], [".join(", ".join(mw.fmt(x) for x in row) for row in got) + "]]", norm(blocks[0])[:160])
    ctx.require_floor("C01c Fock linear steps assembling the complex-form symplectic matrix", n, 1)


def run(ctx: Context) -> None:
    ctx.explanation = (
        "sibling agreement between the simulators' implementations of one gate, decided symbolically from source (phase exponents of "
        "the diagonal gates, conventions of displacement and squeezing, the ladder convention of the linear step); clause-level claim - "
        "equality of the simulators' results is numerical and not decided"
    )
    ctx.trusted_base = ["python ast", "sympy", "the disentangled form of the squeezing operator (a -> (1/g) a + (2A'/g) a^dagger)"]
    clause_a(ctx)
    clause_b(ctx)
    clause_c(ctx)
    clause_d(ctx)


def clause_d(ctx: Context) -> None:
    """The attenuator is implemented as a Gaussian channel (X, Y of `Attenuator._get_computed_params`, used by the Gaussian
    simulator) and as a Kraus sum on the Fock simulators.  Necessary for them to be the same channel: first moments are scaled by the
    same factor - the Fock weight of the coherence |1><0| (n, m, k = 1, 0, 0) equals the diagonal entry of X."""
    ctx.rule("C01d", "the Fock attenuator's weight for the coherence |1><0| equals the factor X by which the Gaussian attenuator scales the mean")
    import sympy as sp
    from .C08 import attenuator_weight
    from ..algebra import SymEval, to_matrix
    idx = get_index(ctx.repo)
    reg = get_registry(idx)
    att, upd, w, n_, m_, k_, th = attenuator_weight(idx)
    w10 = sp.simplify(w(upd.value, False).subs({n_: 1, m_: 0, k_: 0}))
    cls = idx.find_class("piquasso.instructions.channels", "Attenuator")
    gcp = cls.methods.get("_get_computed_params")
    if gcp is None:
        raise AnalysisError("anchor vanished: Attenuator._get_computed_params")
    theta = sp.Symbol("theta", real=True)
    ev = SymEval(gcp, {"theta": theta, "mean_thermal_excitation": sp.Symbol("N", nonnegative=True)}, env={"np": "<np>"})
    X = None
    for s_ in gcp.node.body:
        if isinstance(s_, ast.Assign) and len(s_.targets) == 1 and isinstance(s_.targets[0], ast.Name):
            try:
                v = ev.ev(s_.value)
                ev.env[s_.targets[0].id] = v
            except Exception:  # noqa: BLE001
                continue
        if isinstance(s_, ast.Return) and isinstance(s_.value, ast.Call):
            for k in s_.value.keywords:
                if k.arg == "X":
                    X = ev.ev(k.value)
    if X is None:
        ctx.error("C01d: cannot read X of Attenuator._get_computed_params (undecided)")
        return
    x00 = to_matrix(X)[0, 0]
    ok = sp.simplify((w10.subs({th: theta}) - x00).rewrite(sp.exp)) == 0
    key = f"{att.qualname}|first-moment factor equals Attenuator X"
    ctx.obligation("C01d", key, ok, f"{ctx.relpath(att.file)}:{upd.lineno}", fock=str(w10), gaussian=str(x00))
    if not ok:
        ctx.violation("C01d", key, att.file, upd.lineno,
                      f"the Fock attenuator scales the coherence |1><0| (and with it <a>) by {w10}, the Gaussian attenuator scales the mean by {x00}: "
                      f"the two simulators implement different channels (e.g. for cos(theta) < 0)", str(w10))
