"""C02 — measurement samples follow the Born rule: three structural clauses (E5, E6-linear, E1).

 (a) hbar-homogeneity of the sampling law: every sampling / conditioning step of the Gaussian simulator and the
     pure-Fock homodyne step feeds dimensionless kernels with degree-0 inputs, draws continuous outcomes with
     deg(cov) = 2 deg(mean), and returns quadrature samples of degree 1/2
 (b) the continuous-outcome law is the one the property states: the mean= / cov= arguments of the general-dyne
     multivariate_normal draw, normalised as linear forms over mu, sigma, sigma_m, equal mu and (sigma + sigma_m)/2
 (c) outcomes are concatenated previous-first in _apply_instruction_to_branches (one entry per measured quantity,
     in program order)
That the chain-rule / rejection / inverse-CDF samplers have the exact law is numerical and not decided.
"""

from __future__ import annotations

import ast
from fractions import Fraction
from typing import Dict, List, Optional, Set, Tuple

from ..callgraph import get_resolver
from ..degree import DegreeAnalysis, Interp, T, INT, ZERO, ONE, HALF, POLY, lfmt
from ..index import FuncInfo, get_index, dotted, norm, walk_no_nested
from ..report import Context, AnalysisError
from .C14 import report_issues

LEVEL = "other"
GS = "piquasso._simulators.gaussian.simulation_steps"

# documented parameter degrees (DESIGN E5): all listed instruction parameters are dimensionless
PARAM_DEGREES = {("*", k): ZERO for k in (
    "mean", "cov", "X", "Y", "detection_covariance", "r", "phi", "s", "theta", "z", "mean_photon_numbers",
    "adjacency_matrix", "mean_photon_number", "mean_thermal_excitation", "photon_counts", "detector_efficiency_matrix")}


def run(ctx: Context) -> None:
    idx = get_index(ctx.repo)
    res = get_resolver(idx)
    ctx.explanation = (
        "Three necessary structural clauses of the Born-rule property decided from source: hbar-homogeneity typing of "
        "every Gaussian sampling / conditioning step and of the pure-Fock homodyne step (dimensionless kernels get "
        "degree-0 inputs, quadrature samples have degree 1/2), a linear-form normalisation of the arguments of the "
        "general-dyne normal draw against the formula in the property statement, and the order in which outcomes "
        "are concatenated. The exactness of the sampling algorithms' laws is numerical and is not decided."
    )
    ctx.rule("C02a", "sampling steps are hbar-homogeneous: kernels get degree-0 inputs, deg(cov) = 2 deg(mean), quadrature samples have degree 1/2")
    ctx.rule("C02b", "general-dyne draw: mean == mu and cov == (sigma + sigma_m)/2 as linear forms")
    ctx.rule("C02c", "outcomes are concatenated previous-first")
    clause_a(ctx, idx, res)
    clause_b(ctx, idx)
    clause_c(ctx, idx)
    clause_c_order(ctx, idx, res)
    ctx.rule("C02d", "every sampled component has its own draw: no draw result is stored under a data-dependent key (memoised randomness makes components with equal keys perfectly correlated)")
    clause_d(ctx, idx)
    clause_f_axes(ctx)
    clause_g_position_weights(ctx)


def clause_c_order(ctx: Context, idx, res) -> None:
    """"in program order" inside one measurement: the requested mode order reaches the sampler's index construction
    (the order rule of C16, restricted to the steps registered for Measurement classes)."""
    from ..registry import get_registry
    from .C16 import scan_order
    reg = get_registry(idx)
    meas = idx.find_class("piquasso.api.instruction", "Measurement")
    roots = []
    seen = set()
    for s in reg.simulators:
        for e in s.entries:
            if not e.instr.is_subclass_of(meas):
                continue
            for st in [e.step, e.factory] + list(e.factory_args.values()):
                if st is not None and id(st.node) not in seen:
                    seen.add(id(st.node))
                    roots.append((st, set()))
                    for loc in res.local_defs(st).values():
                        roots.append((loc, set()))
    n_funcs, n_uses = scan_order(ctx, res, roots, "C02c", "C02c")
    ctx.require_floor("measurement steps and helpers followed for mode order", n_funcs, 30)
    ctx.obligation("C02c", "measurement steps|requested mode order reaches the samplers",
                   not any(f.rule == "C02c" and "previous-outcome-first" not in f.key for f in ctx.findings), functions=n_funcs, uses=n_uses)


def clause_a(ctx: Context, idx, res) -> None:
    an = DegreeAnalysis(idx, res, PARAM_DEGREES)
    gs = idx.module(GS)
    gstate = T("state", cls=an.state_cls)
    instr = T("instr")
    n = 0
    seen: set = set()

    def run_step(fn: FuncInfo, args: Dict[str, T], want: Optional[object], label: str) -> None:
        nonlocal n
        n += 1
        before = len(an.issues)
        ps_ = [p_ for p_ in fn.params() if p_ not in ("self", "cls")]
        if not set(args) <= set(ps_) and len(ps_) == len(args):
            # the abstract arguments are listed in the order of the signature: a renamed parameter is bound by its position
            args = dict(zip(ps_, args.values()))
        r = an.call_function(fn, args)
        key = f"{fn.qualname}|{label}"
        where = f"{ctx.relpath(fn.file)}:{fn.line}"
        new = an.issues[before:]
        if r.kind == "unknown":
            ctx.obligation("C02a", key, False, where, undecided=r.why)
            ctx.error(f"C02a: cannot type {fn.qualname}: {r.why} (undecided)")
            return
        ok = not new
        got = None
        if want is not None:
            got = r.deg if r.kind in ("num", "int") else (want if r.kind == "poly" else None)
            ok = ok and got == want
        ctx.obligation("C02a", key, ok, where, inferred=lfmt(got) if got is not None else r.kind)
        if want is not None and got != want and got is not None:
            ctx.violation("C02a", key + "|degree", fn.file, fn.line,
                          f"{fn.name} returns samples/values of hbar-degree {lfmt(got)}; quadrature outcomes must scale like hbar^({lfmt(want)})",
                          fn.name)

    need = {}
    for name in ("_get_particle_number_measurement_samples", "_get_generaldyne_samples", "_get_generaldyne_evolved_state",
                 "_generate_threshold_samples_using_torontonian", "homodyne_measurement", "mean", "covariance",
                 "deterministic_gaussian_channel", "displacement", "graph"):
        fn = gs.functions.get(name)
        if fn is None:
            raise AnalysisError(f"anchor vanished: {GS}:{name}")
        need[name] = fn
    det = T.num(ZERO)
    run_step(need["_get_particle_number_measurement_samples"], {"state": gstate, "instruction": instr, "shots": INT}, None,
             "dimensionless normalisation of cov/mean before williamson and the hafnian sampler")
    run_step(need["_get_generaldyne_samples"], {"state": gstate, "modes": INT, "shots": INT, "detection_covariance": det}, HALF,
             "samples have degree 1/2")
    run_step(need["_get_generaldyne_evolved_state"], {"state": gstate, "sample": T.num(HALF), "modes": INT, "detection_covariance": det}, None,
             "conditional state: setters receive degree 1 / 1/2")
    run_step(need["_generate_threshold_samples_using_torontonian"], {"state": gstate, "instruction": instr, "shots": INT}, None,
             "click probabilities get sigma/hbar and mu/sqrt(hbar)")
    run_step(need["mean"], {"state": gstate, "instruction": instr, "shots": INT}, None, "Mean(dimensionless) * sqrt(hbar) into the mean setter")
    run_step(need["covariance"], {"state": gstate, "instruction": instr, "shots": INT}, None, "Covariance(dimensionless) * hbar into the covariance setter")
    run_step(need["deterministic_gaussian_channel"], {"state": gstate, "instruction": instr, "shots": INT}, None, "X mu, X sigma X^T + hbar Y are well-typed")
    run_step(need["displacement"], {"state": gstate, "instruction": instr, "shots": INT}, None, "adds a degree-0 amplitude to _m")
    # setters fed by the steps: stores must be degree 0
    bad = [s for s in an.stores if s[2] in ("_m", "_C", "_G") and s[3].kind == "num" and s[3].deg != ZERO]
    for s in bad:
        ctx.violation("C02a", f"{s[0].qualname}|stores {s[2]}", s[0].file, getattr(s[1], "lineno", 0),
                      f"{s[0].name} stores a quantity of hbar-degree {lfmt(s[3].deg)} into the ladder moment {s[2]}", norm(s[1])[:90])
    # pure-Fock homodyne
    hm = idx.module("piquasso._simulators.fock.pure.simulation_steps.homodyne")
    hfn = hm.functions.get("homodyne_measurement")
    if hfn is None:
        raise AnalysisError("anchor vanished: pure-Fock homodyne_measurement")
    pf = idx.find_class("piquasso._simulators.fock.pure.state", "PureFockState")
    fstate = T("fockstate", cls=pf)
    n += 1
    it = Interp(an, hfn, {"state": fstate, "instruction": T("instr"), "shots": INT})
    before = len(an.issues)
    for s in hfn.node.body:
        if isinstance(s, ast.Return):
            break
        it.stmt(s)
    # the locals are found by their role, not by their name: the samples are what the returned branches iterate over, the mean
    # positions are what is handed to the one-mode sampler as `mean_position`
    ss_name, mp_name = "scaled_samples", "mean_positions"
    for s in hfn.node.body:
        if isinstance(s, ast.Return) and isinstance(s.value, ast.ListComp) and s.value.generators and isinstance(s.value.generators[0].iter, ast.Name):
            ss_name = s.value.generators[0].iter.id
    for c in ast.walk(hfn.node):
        if isinstance(c, ast.Call) and (dotted(c.func) or "").endswith("_homodyne_measurement_one_mode"):
            a = next((k.value for k in c.keywords if k.arg == "mean_position"), c.args[2] if len(c.args) > 2 else None)
            while isinstance(a, ast.Subscript):
                a = a.value
            if isinstance(a, ast.Name):
                mp_name = a.id
    ss = it.env.get(ss_name)
    mp = it.env.get(mp_name)
    key = f"{hfn.qualname}|samples have degree 1/2, kernel inputs degree 0"
    if ss is None or ss.kind in ("unknown", "poly") or mp is None or mp.kind == "unknown":
        if ss is not None and ss.kind == "poly":
            ss = T.unknown("the sample array is never filled with a typed value")
        ctx.obligation("C02a", key, False, undecided=(ss.why if ss is not None else "scaled_samples not found"))
        ctx.error(f"C02a: cannot type the pure-Fock homodyne step ({ss.why if ss is not None else 'anchor `scaled_samples` vanished'}) (undecided)")
    else:
        ok = ss.kind == "num" and ss.deg == HALF and (mp.kind == "poly" or mp.deg == ZERO) and len(an.issues) == before
        ctx.obligation("C02a", key, ok, f"{ctx.relpath(hfn.file)}:{hfn.line}", samples=lfmt(ss.deg), mean_positions=lfmt(mp.deg))
        if ss.kind == "num" and ss.deg != HALF:
            ctx.violation("C02a", key + "|degree", hfn.file, hfn.line,
                          f"pure-Fock homodyne samples have hbar-degree {lfmt(ss.deg)} instead of 1/2", "scaled_samples")
        if mp.kind == "num" and mp.deg != ZERO:
            ctx.violation("C02a", key + "|mean", hfn.file, hfn.line,
                          f"the mean positions handed to the dimensionless sampler have hbar-degree {lfmt(mp.deg)}", "mean_positions")
    report_issues(ctx, an, "C02a", seen)
    ctx.require_floor("sampling steps typed", n, 9)


# ---- (b) linear forms ------------------------------------------------------------------------------------------------

LinForm = Dict[str, Fraction]


def _lin(fn: FuncInfo, e: ast.AST, local: Dict[str, ast.AST], depth: int = 0) -> Optional[LinForm]:
    if depth > 12:
        return None
    txt = norm(e)
    if isinstance(e, ast.Subscript):
        base = norm(e.value)
        if base.endswith(".xpxp_covariance_matrix"):
            return {"sigma": Fraction(1)}
        if base.endswith(".xpxp_mean_vector"):
            return {"mu": Fraction(1)}
    if isinstance(e, ast.Name) and e.id in local:
        return _lin(fn, local[e.id], local, depth + 1)
    if isinstance(e, ast.BinOp):
        if isinstance(e.op, (ast.Add, ast.Sub)):
            a, b = _lin(fn, e.left, local, depth + 1), _lin(fn, e.right, local, depth + 1)
            if a is None or b is None:
                return None
            out = dict(a)
            sign = 1 if isinstance(e.op, ast.Add) else -1
            for k, v in b.items():
                out[k] = out.get(k, Fraction(0)) + sign * v
            return out
        if isinstance(e.op, ast.Mult):
            # sigma_m := hbar * block_diag(detection_covariance ...)
            if "hbar" in norm(e.left) + norm(e.right) and "block_diag" in txt and "detection_covariance" in txt:
                rest = e.right if "hbar" in norm(e.left) else e.left
                if "block_diag" in norm(rest) and not any(isinstance(n, ast.Constant) and isinstance(n.value, (int, float)) and n.value not in (0, 1)
                                                          for n in ast.walk(rest) if not isinstance(n, ast.Call)):
                    return {"sigma_m": Fraction(1)}
            for scalar, other in ((e.left, e.right), (e.right, e.left)):
                k = _number(scalar)
                if k is not None:
                    o = _lin(fn, other, local, depth + 1)
                    return None if o is None else {kk: vv * k for kk, vv in o.items()}
            return None
        if isinstance(e.op, ast.Div):
            k = _number(e.right)
            o = _lin(fn, e.left, local, depth + 1)
            if k and o is not None:
                return {kk: vv / k for kk, vv in o.items()}
            return None
    return None


def _number(e: ast.AST) -> Optional[Fraction]:
    if isinstance(e, ast.Constant) and isinstance(e.value, (int, float)) and not isinstance(e.value, bool):
        return Fraction(e.value).limit_denominator(10 ** 6)
    if isinstance(e, ast.BinOp) and isinstance(e.op, ast.Div):
        a, b = _number(e.left), _number(e.right)
        if a is not None and b:
            return a / b
    if isinstance(e, ast.UnaryOp) and isinstance(e.op, ast.USub):
        k = _number(e.operand)
        return -k if k is not None else None
    return None


def clause_b(ctx: Context, idx) -> None:
    gs = idx.module(GS)
    fn = gs.functions.get("_get_generaldyne_samples")
    if fn is None:
        raise AnalysisError("anchor vanished: _get_generaldyne_samples")
    local: Dict[str, ast.AST] = {}
    for n in walk_no_nested(fn.node):
        if isinstance(n, ast.Assign) and len(n.targets) == 1 and isinstance(n.targets[0], ast.Name):
            local[n.targets[0].id] = n.value
    draw = None
    for n in ast.walk(fn.node):
        if isinstance(n, ast.Call) and isinstance(n.func, ast.Attribute) and n.func.attr == "multivariate_normal":
            draw = n
    if draw is None:
        raise AnalysisError("C02b: anchor vanished: the multivariate_normal draw in _get_generaldyne_samples")
    kw = {k.arg: k.value for k in draw.keywords}
    mean_e = kw.get("mean", draw.args[0] if draw.args else None)
    cov_e = kw.get("cov", draw.args[1] if len(draw.args) > 1 else None)
    mean_f = _lin(fn, mean_e, local) if mean_e is not None else None
    cov_f = _lin(fn, cov_e, local) if cov_e is not None else None
    if mean_f is None or cov_f is None:
        ctx.error("C02b: the mean/cov arguments of the general-dyne draw are not a linear form over mu, sigma, sigma_m the normaliser can "
                  "read (undecided; e.g. a rescaled Cholesky factor)")
        return
    want_mean = {"mu": Fraction(1)}
    want_cov = {"sigma": Fraction(1, 2), "sigma_m": Fraction(1, 2)}
    clean = lambda f: {k: v for k, v in f.items() if v != 0}  # noqa: E731
    ok_m = clean(mean_f) == want_mean
    ok_c = clean(cov_f) == want_cov
    fmt = lambda f: " + ".join(f"{v}*{k}" for k, v in sorted(clean(f).items())) or "0"  # noqa: E731
    ctx.obligation("C02b", f"{fn.qualname}|mean == mu", ok_m, f"{ctx.relpath(fn.file)}:{draw.lineno}", form=fmt(mean_f))
    ctx.obligation("C02b", f"{fn.qualname}|cov == (sigma + sigma_m)/2", ok_c, f"{ctx.relpath(fn.file)}:{draw.lineno}", form=fmt(cov_f))
    if not ok_m:
        ctx.violation("C02b", f"{fn.qualname}|mean", fn.file, draw.lineno,
                      f"general-dyne outcomes are drawn with mean {fmt(mean_f)}; the outcome law has mean mu", norm(mean_e))
    if not ok_c:
        ctx.violation("C02b", f"{fn.qualname}|cov", fn.file, draw.lineno,
                      f"general-dyne outcomes are drawn with covariance {fmt(cov_f)}; the outcome law has covariance (sigma + sigma_m)/2 "
                      f"(sigma = xpxp_covariance_matrix, sigma_m = hbar * detection covariance): the sample variance is off by that factor",
                      norm(cov_e))


def clause_c(ctx: Context, idx) -> None:
    sim = idx.find_class("piquasso.api.simulator", "Simulator")
    ap = sim.methods.get("_apply_instruction_to_branches")
    if ap is None:
        raise AnalysisError("anchor vanished: Simulator._apply_instruction_to_branches")
    found = None
    for n in ast.walk(ap.node):
        if isinstance(n, ast.Assign) and any(isinstance(t, ast.Attribute) and t.attr == "outcome" for t in n.targets):
            found = n
    key = f"{ap.qualname}|previous-outcome-first"
    if found is None:
        raise AnalysisError("C02c: anchor vanished: the outcome concatenation in _apply_instruction_to_branches")
    stars = [norm(x.value) for x in ast.walk(found.value) if isinstance(x, ast.Starred)]
    parts = stars or [norm(x) for x in ast.walk(found.value) if isinstance(x, ast.Attribute) and x.attr == "outcome"]
    tgt = norm(found.targets[0].value)
    # the target is the new sub-branch; the previous (parent) branch's outcome must come first
    ok = len(parts) == 2 and not parts[0].startswith(tgt + ".") and parts[1].startswith(tgt + ".")
    ctx.obligation("C02c", key, ok, f"{ctx.relpath(ap.file)}:{found.lineno}", order=parts)
    if not ok:
        ctx.violation("C02c", key, ap.file, found.lineno,
                      f"outcomes are concatenated as {parts}: the outcome of the current measurement must follow the outcomes of the "
                      f"earlier ones (program order), with one entry per measured quantity", norm(found)[:100])


# ================================================================================================ (d)

_DRAWS = {"random", "uniform", "normal", "choice", "choices", "integers", "randint", "multivariate_normal", "binomial", "multinomial",
          "poisson", "standard_normal", "exponential", "geometric", "random_sample", "rand", "randn", "gamma", "beta"}


def _keyed_draws(tree: ast.AST):
    """(node, text) for draw calls whose result is stored in a mapping under a non-constant key."""
    def is_draw(e: ast.AST) -> bool:
        return any(isinstance(c, ast.Call) and isinstance(c.func, ast.Attribute) and c.func.attr in _DRAWS
                   and ("rng" in norm(c.func.value).lower() or "random" in norm(c.func.value).lower()) for c in ast.walk(e))

    for fn_node in ast.walk(tree):
        if not isinstance(fn_node, (ast.FunctionDef, ast.AsyncFunctionDef)):
            continue
        dicts = set()
        for n in ast.walk(fn_node):
            tgt = val = None
            if isinstance(n, ast.Assign) and len(n.targets) == 1:
                tgt, val = n.targets[0], n.value
            elif isinstance(n, ast.AnnAssign) and n.value is not None:
                tgt, val = n.target, n.value
            if isinstance(tgt, ast.Name) and (isinstance(val, (ast.Dict, ast.DictComp)) or (isinstance(val, ast.Call) and (dotted(val.func) or "") in ("dict", "defaultdict", "collections.defaultdict", "OrderedDict"))):
                dicts.add(tgt.id)
        for n in ast.walk(fn_node):
            if isinstance(n, ast.Assign) and len(n.targets) == 1 and isinstance(n.targets[0], ast.Subscript) and isinstance(n.targets[0].value, ast.Name) \
                    and n.targets[0].value.id in dicts and not isinstance(n.targets[0].slice, ast.Constant) and is_draw(n.value):
                yield n, norm(n)[:90]
            if isinstance(n, ast.DictComp) and is_draw(n.value) and not isinstance(n.key, ast.Constant):
                yield n, norm(n)[:90]
            if isinstance(n, ast.Call) and isinstance(n.func, ast.Attribute) and n.func.attr == "setdefault" and len(n.args) == 2 and is_draw(n.args[1]):
                yield n, norm(n)[:90]


def clause_d(ctx: Context, idx) -> None:
    import os
    fixture = os.path.join(os.path.dirname(os.path.dirname(os.path.dirname(os.path.abspath(__file__)))), "stubs", "keyed_draw_fixture.py")
    tree = ast.parse(open(fixture).read())
    fired = {f.name: len(list(_keyed_draws(ast.Module(body=[f], type_ignores=[])))) for f in tree.body if isinstance(f, ast.FunctionDef)}
    if fired != {"cached": 1, "per_mode": 0}:
        raise AnalysisError(f"C02d: the keyed-draw rule does not behave on its fixture ({fired})")
    n_mod = 0
    n_draw = 0
    for m in idx.modules.values():
        if not m.name.startswith("piquasso._simulators") and m.name != "piquasso._utils":
            continue
        n_mod += 1
        n_draw += sum(1 for c in ast.walk(m.tree) if isinstance(c, ast.Call) and isinstance(c.func, ast.Attribute) and c.func.attr in _DRAWS
                      and "rng" in norm(c.func.value).lower())
        for node, text in _keyed_draws(m.tree):
            fname = next((f.name for f in ast.walk(m.tree) if isinstance(f, ast.FunctionDef) and any(x is node for x in ast.walk(f))), "?")
            key = f"{m.name}:{fname}|keyed-draw"
            ctx.violation("C02d", key, m.path, node.lineno,
                          f"`{text}` stores a random draw under a data-dependent key: every component that maps to the same key reuses the "
                          f"same random numbers, so the marginals stay right but the joint law of the sample is wrong (components are "
                          f"perfectly correlated)", text)
    ctx.obligation("C02d", "simulators|no-keyed-draws", True, modules=n_mod, draws=n_draw)
    ctx.require_floor("generator draw sites scanned for keyed storage", n_draw, 10)


def clause_f_axes(ctx: Context) -> None:
    """Axis typing of the detector matrix P(detected | actual) in the exact and in the sampling treatment of imperfect detectors: a size
    read from axis k of a matrix parameter may bound only indices that run along axis k of that matrix.  Columns `M[:, c]` are vectors along
    axis 0 (one probability per detected count), rows `M[r]` / `M[r, :]` vectors along axis 1.  Checked uses of a size S = M.shape[k]:
    `rng.choice(S, p=V)` with V a vector of M (its length is the extent of V's axis); an index drawn from `range(S)` (also through
    itertools.product and enumerate) that subscripts a vector of M; a bound test `x >= S` / `x < S` on an x that subscripts M directly.
    Vectors are followed through list comprehensions, loops and the return value of helper functions of the module (by parameter)."""
    ctx.rule("C02f", "a size read from axis k of a matrix parameter bounds only indices that run along axis k of that matrix (detector efficiency "
                     "matrix: the exact and the finite-shots path agree on which axis lists the detectable counts)")
    idx = get_index(ctx.repo)
    m = idx.module("piquasso._simulators.simulation_steps")

    def vec_of(e: ast.AST, params: Set[str]) -> Optional[Tuple[str, int]]:
        """M[:, c] -> (M, 0);  M[r, :] / M[r] -> (M, 1)"""
        if isinstance(e, ast.Subscript) and isinstance(e.value, ast.Name) and e.value.id in params:
            sl = e.slice
            full = lambda x: isinstance(x, ast.Slice) and x.lower is None and x.upper is None  # noqa: E731
            if isinstance(sl, ast.Tuple) and len(sl.elts) == 2:
                if full(sl.elts[0]) and not full(sl.elts[1]):
                    return (e.value.id, 0)
                if full(sl.elts[1]) and not full(sl.elts[0]):
                    return (e.value.id, 1)
            elif not isinstance(sl, (ast.Slice, ast.Tuple)):
                return (e.value.id, 1)
        return None

    # summaries: functions returning a list of vectors of one of their parameters
    returns_veclist: Dict[str, Tuple[str, int]] = {}
    for fn in m.functions.values():
        params = set(fn.all_params())
        for r in walk_no_nested(fn.node):
            if isinstance(r, ast.Return) and isinstance(r.value, (ast.ListComp, ast.GeneratorExp)):
                v = vec_of(r.value.elt, params)
                if v is not None:
                    returns_veclist[fn.name] = v
    n_sizes = n_uses = 0
    for fn in m.functions.values():
        params = set(fn.all_params())
        sizes: Dict[str, Tuple[str, int]] = {}
        veclists: Dict[str, Tuple[str, int]] = {}
        vecs: Dict[str, Tuple[str, int]] = {}
        for a in walk_no_nested(fn.node):
            if isinstance(a, ast.Assign) and len(a.targets) == 1:
                t, v = a.targets[0], a.value
                if isinstance(t, ast.Name) and isinstance(v, ast.Subscript) and isinstance(v.value, ast.Attribute) and v.value.attr == "shape" \
                        and isinstance(v.value.value, ast.Name) and v.value.value.id in params and isinstance(v.slice, ast.Constant):
                    sizes[t.id] = (v.value.value.id, int(v.slice.value))
                if isinstance(t, ast.Tuple) and isinstance(v, ast.Attribute) and v.attr == "shape" and isinstance(v.value, ast.Name) and v.value.id in params:
                    for k, e in enumerate(t.elts):
                        if isinstance(e, ast.Name):
                            sizes[e.id] = (v.value.id, k)
                if isinstance(t, ast.Name) and isinstance(v, ast.Call) and isinstance(v.func, ast.Name) and v.func.id in returns_veclist:
                    callee = m.functions[v.func.id]
                    cp = callee.all_params()
                    bound = {p_: a_ for p_, a_ in zip(cp, v.args)}
                    bound.update({k_.arg: k_.value for k_ in v.keywords if k_.arg})
                    pm, ax = returns_veclist[v.func.id]
                    arg = bound.get(pm)
                    if isinstance(arg, ast.Name) and arg.id in params:
                        veclists[t.id] = (arg.id, ax)
                if isinstance(t, ast.Name) and isinstance(v, (ast.ListComp,)) and vec_of(v.elt, params) is not None:
                    veclists[t.id] = vec_of(v.elt, params)
        ch = True
        while ch:   # plain moves of a size
            ch = False
            for a in walk_no_nested(fn.node):
                if isinstance(a, ast.Assign) and len(a.targets) == 1 and isinstance(a.targets[0], ast.Name) and isinstance(a.value, ast.Name) \
                        and a.value.id in sizes and a.targets[0].id not in sizes:
                    sizes[a.targets[0].id] = sizes[a.value.id]
                    ch = True
        n_sizes += len(sizes)
        if not sizes:
            continue
        # loop variables: over a veclist -> vector; over range(S) / product(range(S), ...) / enumerate of such -> index bounded by S
        idx_of: Dict[str, str] = {}      # index variable -> size name
        tuple_of: Dict[str, str] = {}    # variable holding a tuple of such indices -> size name

        def range_size(e: ast.AST) -> Optional[str]:
            if isinstance(e, ast.Call) and (dotted(e.func) or "") == "range" and len(e.args) == 1 and isinstance(e.args[0], ast.Name) and e.args[0].id in sizes:
                return e.args[0].id
            return None

        changed = True
        while changed:
            changed = False
            for lp in ast.walk(fn.node):
                if not isinstance(lp, (ast.For, ast.comprehension)):
                    continue
                it, tg = lp.iter, lp.target
                if isinstance(it, ast.Name) and it.id in veclists and isinstance(tg, ast.Name) and tg.id not in vecs:
                    vecs[tg.id] = veclists[it.id]
                    changed = True
                rs = range_size(it)
                if rs and isinstance(tg, ast.Name) and tg.id not in idx_of:
                    idx_of[tg.id] = rs
                    changed = True
                if isinstance(it, ast.Call) and (dotted(it.func) or "").split(".")[-1] == "product" and it.args and range_size(it.args[0]) \
                        and isinstance(tg, ast.Name) and tg.id not in tuple_of:
                    tuple_of[tg.id] = range_size(it.args[0])
                    changed = True
                if isinstance(it, ast.Call) and (dotted(it.func) or "") == "enumerate" and it.args and isinstance(it.args[0], ast.Name) \
                        and it.args[0].id in tuple_of and isinstance(tg, ast.Tuple) and len(tg.elts) == 2 and isinstance(tg.elts[1], ast.Name) \
                        and tg.elts[1].id not in idx_of:
                    idx_of[tg.elts[1].id] = tuple_of[it.args[0].id]
                    changed = True
                if isinstance(it, ast.Name) and it.id in tuple_of and isinstance(tg, ast.Name) and tg.id not in idx_of:
                    idx_of[tg.id] = tuple_of[it.id]
                    changed = True

        def report(node: ast.AST, sname: str, vec: Tuple[str, int], how: str) -> None:
            nonlocal n_uses
            pm, k = sizes[sname]
            if vec[0] != pm:
                return
            n_uses += 1
            key = f"{fn.qualname}|{pm}.shape[{k}] {how}"
            ok = vec[1] == k
            ctx.obligation("C02f", key, ok, f"{ctx.relpath(fn.file)}:{node.lineno}")
            if not ok:
                ctx.violation("C02f", key, fn.file, node.lineno,
                              f"`{sname}` is the extent of axis {k} of `{pm}` but {how} along axis {vec[1]} of `{pm}` in {fn.name}: for a non-square "
                              f"matrix the exact and the sampled treatment of the detectors enumerate different outcome sets (or index out of range)",
                              norm(node)[:100])

        def vec_tag(e: ast.AST) -> Optional[Tuple[str, int]]:
            if isinstance(e, ast.Name) and e.id in vecs:
                return vecs[e.id]
            if isinstance(e, ast.Subscript) and isinstance(e.value, ast.Name) and e.value.id in veclists:
                return veclists[e.value.id]
            return vec_of(e, params)

        for x in ast.walk(fn.node):
            # rng.choice(S, ..., p=V)
            if isinstance(x, ast.Call) and isinstance(x.func, ast.Attribute) and x.func.attr == "choice" and x.args and isinstance(x.args[0], ast.Name) \
                    and x.args[0].id in sizes:
                pk = next((k_.value for k_ in x.keywords if k_.arg == "p"), None)
                vt = vec_tag(pk) if pk is not None else None
                if vt is not None:
                    report(x, x.args[0].id, vt, "is the number of alternatives of a draw whose probability vector runs")
            # V[i] with i bounded by S
            if isinstance(x, ast.Subscript) and isinstance(x.slice, ast.Name) and x.slice.id in idx_of:
                vt = vec_tag(x.value)
                if vt is not None:
                    report(x, idx_of[x.slice.id], vt, "bounds an index that runs")
            # x >= S / x < S with x used as a direct index of the matrix
            if isinstance(x, ast.Compare) and len(x.ops) == 1 and isinstance(x.left, ast.Name) and isinstance(x.comparators[0], ast.Name) \
                    and x.comparators[0].id in sizes and isinstance(x.ops[0], (ast.GtE, ast.Lt, ast.Gt, ast.LtE)):
                pm, k = sizes[x.comparators[0].id]
                var = x.left.id
                # the tested value and the index are the same quantity when they are the same variable, or loop / comprehension variables
                # over the same iterable (`for c in outcome: if c >= S: raise` ... `[M[:, c] for c in outcome]`)
                var_iters = {norm(lp.iter) for lp in ast.walk(fn.node) if isinstance(lp, (ast.For, ast.comprehension)) and isinstance(lp.target, ast.Name)
                             and lp.target.id == var}
                same = {var} | {lp.target.id for lp in ast.walk(fn.node) if isinstance(lp, (ast.For, ast.comprehension)) and isinstance(lp.target, ast.Name)
                                and norm(lp.iter) in var_iters}
                for sub in ast.walk(fn.node):
                    if isinstance(sub, ast.Subscript) and isinstance(sub.value, ast.Name) and sub.value.id == pm:
                        sl = sub.slice
                        elts = sl.elts if isinstance(sl, ast.Tuple) else [sl]
                        for ax, el in enumerate(elts):
                            if isinstance(el, ast.Name) and el.id in same:
                                report(x, x.comparators[0].id, (pm, ax), "is the bound tested for an index that is used")
    ctx.require_floor("C02f sizes read from an axis of a matrix parameter", n_sizes, 3)
    ctx.require_floor("C02f uses of such sizes along an axis of the same matrix", n_uses, 3)


def clause_g_position_weights(ctx: Context) -> None:
    """Pure-Fock homodyne on several modes conditions the next mode on the positions already drawn: rho' = sum rho[n, m] <x|n><m|x> ...  with
    <x|n> = H_n(x) exp(-x^2 / 2) / sqrt(2^n n! sqrt(pi)).  The factors common to all n cancel in the normalisation of rho', the factor
    1 / sqrt(2^n n!) does not: the weight stored for the Hermite index n must carry a normaliser that depends on n."""
    ctx.rule("C02g", "the position-eigenfunction weights used to condition the next mode in the multi-mode pure-Fock homodyne sampler are "
                     "H_n(x) / sqrt(2^n n!): the stored value depends on the Hermite index through a normaliser, not only through the polynomial")
    idx = get_index(ctx.repo)
    m = idx.module("piquasso._simulators.fock.pure.simulation_steps.homodyne")

    def weights_without_normaliser(fn_node: ast.AST) -> List[ast.AST]:
        out = []
        for lp in ast.walk(fn_node):
            if not (isinstance(lp, ast.For) and isinstance(lp.target, ast.Name)):
                continue
            n_var = lp.target.id
            # scalars that vary with the Hermite index: updated in the loop body from the index or from themselves
            varying = {n_var}
            changed = True
            while changed:
                changed = False
                for a in ast.walk(lp):
                    tg = None
                    if isinstance(a, ast.AugAssign) and isinstance(a.target, ast.Name):
                        tg, val = a.target.id, a.value
                        used = {x.id for x in ast.walk(val) if isinstance(x, ast.Name)} | {tg}
                    elif isinstance(a, ast.Assign) and len(a.targets) == 1 and isinstance(a.targets[0], ast.Name):
                        tg, val = a.targets[0].id, a.value
                        used = {x.id for x in ast.walk(val) if isinstance(x, ast.Name)}
                    if tg and tg not in varying and used & varying and not any(isinstance(x, ast.Subscript) for x in ast.walk(val)):
                        varying.add(tg)
                        changed = True
            for a in ast.walk(lp):
                if isinstance(a, ast.Assign) and len(a.targets) == 1 and isinstance(a.targets[0], ast.Subscript) \
                        and any(isinstance(c, ast.Call) and (dotted(c.func) or "").split(".")[-1] == "polyeval" for c in ast.walk(a.value)) \
                        and isinstance(a.targets[0].slice, ast.Tuple) and isinstance(a.targets[0].slice.elts[0], ast.Name) \
                        and a.targets[0].slice.elts[0].id == n_var:
                    # the value outside the polynomial evaluation
                    outside = set()

                    def rec(e):
                        if isinstance(e, ast.Call) and (dotted(e.func) or "").split(".")[-1] == "polyeval":
                            return
                        if isinstance(e, ast.Name):
                            outside.add(e.id)
                        for c_ in ast.iter_child_nodes(e):
                            rec(c_)
                    rec(a.value)
                    if not (outside & (varying - set())) or not any(isinstance(b, ast.BinOp) and isinstance(b.op, (ast.Div, ast.Mult)) for b in ast.walk(a.value)):
                        out.append(a)
        return out

    fx = ast.parse("def bad(h, pos, cutoff, vals):\n    for idx in range(cutoff):\n        c = h[idx]\n        for j in range(2):\n            vals[idx, j] = polyeval(c, pos[j])\n"
                   "def good(h, pos, cutoff, vals):\n    nrm = 1.0\n    for idx in range(cutoff):\n        if idx > 0:\n            nrm *= np.sqrt(2.0 * idx)\n        c = h[idx]\n"
                   "        for j in range(2):\n            vals[idx, j] = polyeval(c, pos[j]) / nrm\n")
    if [len(weights_without_normaliser(f_)) for f_ in fx.body] != [1, 0]:
        raise AnalysisError("C02g: the rule does not behave on its inline fixture")
    n = 0
    for fn in m.functions.values():
        stores = [a for lp in ast.walk(fn.node) if isinstance(lp, ast.For) for a in ast.walk(lp)
                  if isinstance(a, ast.Assign) and len(a.targets) == 1 and isinstance(a.targets[0], ast.Subscript)
                  and any(isinstance(c, ast.Call) and (dotted(c.func) or "").split(".")[-1] == "polyeval" for c in ast.walk(a.value))]
        if not stores:
            continue
        n += 1
        bad = weights_without_normaliser(fn.node)
        key = f"{fn.qualname}|position eigenfunction weight carries the normaliser of the Hermite index"
        ctx.obligation("C02g", key, not bad, f"{ctx.relpath(fn.file)}:{fn.line}")
        for a in bad[:1]:
            ctx.violation("C02g", key, fn.file, a.lineno,
                          f"`{norm(a)[:90]}` stores H_n(x) as the weight of the Fock index n when the next mode is conditioned on the positions "
                          f"already drawn; <x|n> is H_n(x) / sqrt(2^n n!) (times factors common to all n), so high photon numbers are over-weighted and "
                          f"every mode after the first one is sampled from a wrong conditional state (mean and variance of the second mode of a "
                          f"two-mode homodyne measurement disagree with the state)", norm(a)[:100])
    ctx.require_floor("C02g functions storing Hermite values per Fock index", n, 1)
