"""C03 — shot accounting and the chain rule of measurement (engine E7 + the shots-None rule).

 (a) with shots given, every Branch frequency reached from a simulation step is an exact Fraction built from
     integers over shots (or a product/sum of such); counts are int(Fraction * int shots)
 (b) every step that can run with shots=None never uses shots numerically without a dominating None test
"""

from __future__ import annotations

import ast
from typing import Dict, List, Set, Tuple

from ..callgraph import get_resolver
from ..exact import Exactness, Interp, FRAC, INT, PROB, TOP, NONE
from ..index import FuncInfo, get_index, norm, calls_in, dotted, walk_no_nested
from ..registry import get_registry
from ..report import Context, AnalysisError
from .. import shots as shotsmod

LEVEL = "other"


def _roots(reg, res) -> List[Tuple[FuncInfo, str]]:
    out: List[Tuple[FuncInfo, str]] = []
    seen: Set[int] = set()
    for s in reg.simulators:
        for e in s.entries:
            steps = []
            if e.step is not None:
                steps.append(e.step)
            if e.factory is not None:
                steps.extend(e.factory_args.values())
                for loc in res.local_defs(e.factory).values():
                    if "shots" in loc.all_params():
                        steps.append(loc)
            for st in steps:
                if id(st.node) not in seen:
                    seen.add(id(st.node))
                    out.append((st, s.cls.name))
    return out


def run(ctx: Context) -> None:
    idx = get_index(ctx.repo)
    reg = get_registry(idx)
    res = get_resolver(idx)
    ctx.explanation = (
        "Abstract interpretation of every simulation step in two worlds (shots is an int / shots is None) over the "
        "domain {Int, Frac, Prob, Top}: the kind of every value that reaches Branch(frequency=...), int(...) of a "
        "frequency product and `.frequency *=` is computed from the source, following calls with their argument kinds. "
        "Decides exactness of shot accounting (k/N fractions, integer counts) and the shots=None discipline; that "
        "weights sum to the norm and sequential = joint measurement are numerical and not decided."
    )
    ctx.rule("C03a", "with shots given, every branch frequency is a Fraction built from integers (Fraction(int, shots), products and sums of such); budgets and counts are int(Fraction * shots)")
    ctx.rule("C03b", "steps reachable with shots=None never use shots numerically without a dominating None test")
    ctx.rule("C03e", "a mapping keyed by a branch's outcome that Result fills from its branches accumulates (outcomes are not unique: several steps build one branch per sample)")
    ctx.rule("C03d", "every branch state handed on in a `shots is None` arm is the normalised projection (constructor with a normalization argument, or normalize() on the way), so that the weights read from it by the next measurement are conditional and the simulator's chain rule holds")
    ctx.rule("C03c", "in every `shots is None` arm the weights handed on are the probabilities themselves (times the parent branch's weight): no rescaling, no renormalisation")
    ex = Exactness(idx, res)
    roots = _roots(reg, res)
    ctx.require_floor("simulation steps analysed", len(roots), 60)
    for fn, sim in roots:
        for world_none in (False, True):
            params = fn.all_params()
            env = {}
            if "shots" in params:
                env["shots"] = NONE if world_none else INT
            elif len(params) >= 3:
                env[params[2]] = NONE if world_none else INT
            ex.returns(fn, world_none, env)
    # the framework's own arithmetic (Simulator, Result)
    sim = idx.find_class("piquasso.api.simulator", "Simulator")
    result = idx.find_class("piquasso.api.result", "Result")
    for cls, names in ((sim, ["_apply_instruction_to_branches", "_do_execute_instructions"]), (result, ["samples", "get_counts"])):
        for nm in names:
            fn = cls.methods.get(nm)
            if fn is None:
                raise AnalysisError(f"anchor vanished: {cls.name}.{nm}")
            ex.returns(fn, False, {"shots": INT})

    # ---- (a) -------------------------------------------------------------------------------------------
    explicit = 0
    seen_keys = set()
    undecided = []
    for (fn, call, kind, fexpr, world_none) in ex.sites:
        if world_none:
            continue
        where = f"{ctx.relpath(fn.file)}:{call.lineno}"
        key = f"{fn.qualname}|Branch(frequency={norm(fexpr) if fexpr is not None else 'default'})"
        if (key, kind) in seen_keys:
            continue
        seen_keys.add((key, kind))
        if fexpr is None:
            ctx.instance("C03a", key, "default Fraction(1)", where)
            continue
        explicit += 1
        if kind == FRAC:
            ctx.obligation("C03a", key, True, where, kind=kind)
        elif kind in (PROB,):
            ctx.obligation("C03a", key, False, where, kind=kind)
            ctx.violation("C03a", key, fn.file, call.lineno,
                          f"with shots given, the branch frequency `{norm(fexpr)}` is computed in floating point (kind {kind}), not as an "
                          f"exact Fraction k/shots: frequencies stop summing to exactly 1 and int(frequency * shots) can lose samples",
                          norm(call)[:90])
        elif kind == INT:
            ctx.obligation("C03a", key, False, where, kind=kind)
            ctx.violation("C03a", key, fn.file, call.lineno,
                          f"with shots given, the branch frequency `{norm(fexpr)}` is an integer count, not the fraction count/shots",
                          norm(call)[:90])
        else:
            undecided.append((fn, call, fexpr, kind))
    for fn, call, fexpr, kind in undecided:
        ctx.error(f"C03a: cannot decide the kind of `{norm(fexpr)}` at {ctx.relpath(fn.file)}:{call.lineno} (kind {kind}; undecided)")
    ctx.require_floor("explicit-frequency Branch sites reached with shots given", explicit, 10)
    total_sites = sum(1 for m in idx.modules.values() for c in calls_in(m.tree) if (dotted(c.func) or "").split(".")[-1] == "Branch")
    ctx.require_floor("Branch( construction sites in the package", total_sites, 60)
    # float divisions by shots on the way
    for fn, node in ex.float_divisions:
        if "shots" in norm(node):
            key = f"{fn.qualname}|{norm(node)}"
            ctx.violation("C03a", key, fn.file, node.lineno,
                          f"`{norm(node)}` divides integers in floating point on the shot-accounting path; frequencies must be Fraction(count, shots)",
                          norm(node))
    # int(frequency * shots) casts and frequency updates
    n_casts = 0
    for fn, call, kind, world_none in ex.casts:
        if world_none or "frequency" not in norm(call):
            continue
        n_casts += 1
        key = f"{fn.qualname}|{norm(call)}"
        ok = kind in (FRAC, INT)
        ctx.obligation("C03a", key, ok, f"{ctx.relpath(fn.file)}:{call.lineno}", kind=kind)
        if not ok:
            ctx.violation("C03a", key, fn.file, call.lineno,
                          f"`{norm(call)}` truncates a value of kind {kind}: the per-branch shot budget / count must be int(Fraction * shots), "
                          f"exact for k/N frequencies", norm(call))
    ctx.require_floor("int(frequency * shots) casts", n_casts, 3)
    n_upd = 0
    for fn, node, kind, world_none in ex.freq_updates:
        if world_none:
            continue
        n_upd += 1
        key = f"{fn.qualname}|{norm(node)}"
        ok = kind == FRAC
        ctx.obligation("C03a", key, ok, f"{ctx.relpath(fn.file)}:{node.lineno}", kind=kind)
        if not ok:
            ctx.violation("C03a", key, fn.file, node.lineno,
                          f"`{norm(node)}` does not multiply the sub-branch frequency by an exact Fraction (kind {kind}): the chain rule "
                          f"frequency(parent) * frequency(child) is lost or becomes inexact", norm(node))
    ctx.require_floor("branch frequency chain-rule updates", n_upd, 1)
    # the denominator of every k/N frequency is the shot budget the step received: parent frequency (cs/N) times
    # child frequency (k/cs) is then k/N, and the children of one parent sum to the parent's share
    n_den = 0
    seen_den = set()
    for fn, call, world_none in ex.fractions:
        if world_none or len(call.args) != 2:
            continue
        den = call.args[1]
        if isinstance(den, ast.Constant) and den.value == 1:
            continue  # Fraction(0, 1) / Fraction(1, 1) neutral elements
        key = f"{fn.qualname}|{norm(call)}"
        if key in seen_den:
            continue
        seen_den.add(key)
        n_den += 1
        ok = isinstance(den, ast.Name) and den.id == "shots" and "shots" in fn.all_params()
        ctx.obligation("C03a", key + "|denominator-is-shots", ok, f"{ctx.relpath(fn.file)}:{call.lineno}")
        if not ok:
            ctx.violation("C03a", key + "|denominator", fn.file, call.lineno,
                          f"`{norm(call)}` does not divide by the shot budget `shots` the step received: the branch frequencies of one "
                          f"measurement no longer sum to 1 (or to the parent branch's share after the chain-rule multiplication)",
                          norm(call))
    ctx.require_floor("Fraction(count, shots) constructions", n_den, 7)
    # outcomes are concatenated previous-first (shared with C02c)
    ap = sim.methods["_apply_instruction_to_branches"]
    # ---- (b) ----------------------------------------------------------------------------------------------
    shotsmod.check_shots_none(ctx, idx, reg, "C03b")
    clause_c(ctx, idx)
    clause_d(ctx, idx)
    clause_e(ctx, idx)
    ctx.assume("Branch.frequency of incoming branches is an exact Fraction when shots is given (the invariant this rule re-establishes at every construction site)")


# ================================================================================================ (c)


def _shots_none_polarity(test: ast.AST):
    """True: the test holds exactly when shots is None; False: exactly when it is not None; None: something else."""
    pol = True
    t = test
    while isinstance(t, ast.UnaryOp) and isinstance(t.op, ast.Not):
        pol = not pol
        t = t.operand
    if (isinstance(t, ast.Compare) and len(t.ops) == 1 and isinstance(t.left, ast.Name) and t.left.id == "shots"
            and isinstance(t.comparators[0], ast.Constant) and t.comparators[0].value is None):
        if isinstance(t.ops[0], (ast.Is, ast.Eq)):
            return pol
        if isinstance(t.ops[0], (ast.IsNot, ast.NotEq)):
            return not pol
    return None


def _none_arms(fn_node: ast.AST):
    """Statement lists that run only when shots is None."""
    for node in ast.walk(fn_node):
        body = getattr(node, "body", None)
        if not isinstance(body, list):
            continue
        for i, st in enumerate(body):
            if not isinstance(st, ast.If):
                continue
            pol = _shots_none_polarity(st.test)
            if pol is True:
                yield st.body
            elif pol is False:
                if st.orelse:
                    yield st.orelse
                elif st.body and isinstance(st.body[-1], (ast.Return, ast.Raise)):
                    yield body[i + 1:]


_VALUE_PRESERVING = {"float", "float64", "real", "Fraction", "asarray", "array", "item"}
_VALUE_CHANGING = {"round", "around", "clip", "min", "max", "floor", "ceil", "int", "abs", "sqrt", "exp", "log"}


def _weight_form(w: ast.AST, pv: str) -> str:
    """'exact': p or p * <parent>.frequency (through value-preserving wrappers); 'rescaled': arithmetic on p with
    anything else, or a value-changing function of p; 'undecided': anything the rule does not know."""
    if isinstance(w, ast.Name):
        return "exact" if w.id == pv else "undecided"
    if isinstance(w, ast.Call):
        nm = (dotted(w.func) or "").split(".")[-1]
        inner = [a for a in w.args if any(isinstance(x, ast.Name) and x.id == pv for x in ast.walk(a))]
        if nm in _VALUE_PRESERVING and len(w.args) == 1:
            return _weight_form(w.args[0], pv)
        if nm in _VALUE_CHANGING and inner:
            return "rescaled"
        return "undecided"
    if isinstance(w, ast.BinOp):
        uses_l = any(isinstance(x, ast.Name) and x.id == pv for x in ast.walk(w.left))
        uses_r = any(isinstance(x, ast.Name) and x.id == pv for x in ast.walk(w.right))
        if not (uses_l or uses_r):
            return "undecided"
        if isinstance(w.op, ast.Mult):
            for x, y in ((w.left, w.right), (w.right, w.left)):
                if isinstance(y, ast.Attribute) and y.attr == "frequency":
                    return _weight_form(x, pv)
                if isinstance(y, ast.Constant) and y.value in (1, 1.0):
                    return _weight_form(x, pv)
        return "rescaled"
    return "undecided"


def clause_c(ctx: Context, idx) -> None:
    """With shots=None the branch weights are the exact outcome probabilities, so that they sum to the norm of the
    measured state and multiply along the chain of measurements.  In each `if shots is None:` arm, every weight that
    is produced from an iteration `for outcome, p in MAP.items()` must be `p` itself or `p` times the parent branch's
    `.frequency`; anything else (p / total, p * c, round(p)) rescales the distribution."""
    n_arms = 0
    n_weights = 0
    for fn in idx.all_functions():
        if not fn.module.name.startswith("piquasso.") or "shots" not in fn.all_params():
            continue
        for arm in _none_arms(fn.node):
            comps = []
            for s in arm:
                for n in ast.walk(s):
                    if isinstance(n, (ast.DictComp, ast.ListComp)) and len(n.generators) == 1:
                        g = n.generators[0]
                        if isinstance(g.iter, ast.Call) and isinstance(g.iter.func, ast.Attribute) and g.iter.func.attr == "items" \
                                and isinstance(g.target, ast.Tuple) and len(g.target.elts) == 2 and isinstance(g.target.elts[1], ast.Name):
                            comps.append((n, g.target.elts[1].id))
            if not comps:
                continue
            n_arms += 1
            for comp, pv in comps:
                weights: List[ast.AST] = []
                if isinstance(comp, ast.DictComp):
                    weights.append(comp.value)
                else:
                    elt = comp.elt
                    if isinstance(elt, ast.Call):
                        weights.extend(k.value for k in elt.keywords if k.arg == "frequency")
                for w in weights:
                    n_weights += 1
                    verdict = _weight_form(w, pv)
                    if verdict == "undecided":
                        raise AnalysisError(f"C03c: the weight `{norm(w)[:60]}` built in the shots=None arm of {fn.qualname} has a form the rule "
                                            f"cannot classify (undecided)")
                    ok = verdict == "exact"
                    key = f"{fn.qualname}|shots-none-weight|{norm(w)[:50]}"
                    ctx.obligation("C03c", key, ok, f"{ctx.relpath(fn.file)}:{w.lineno}")
                    if not ok:
                        ctx.violation("C03c", key, fn.file, w.lineno,
                                      f"with shots=None {fn.name} hands on the weight `{norm(w)[:60]}` instead of the probability `{pv}` (times the "
                                      f"parent branch's weight): the branch weights no longer sum to the norm of the measured state and the "
                                      f"joint distribution of successive measurements is not the product of the conditionals", norm(w)[:90])
    ctx.require_floor("`shots is None` arms that build weights from a probability map", n_arms, 3)
    ctx.require_floor("weights built in `shots is None` arms", n_weights, 4)


def clause_d(ctx: Context, idx) -> None:
    """ "every branch state is the normalised projection of the pre-measurement state": the simulator multiplies the weight of a
    child branch by the weight of its parent (`subbranch.frequency *= branch.frequency`), which is the chain rule only if the
    weights a step reads from its input state are conditional on that state, i.e. if the state handed on by the previous
    measurement is normalised.  In every `shots is None` arm, a branch state that is not None must come from a constructor that
    receives a `normalization` (computed from the outcome's probability) or is normalised before it is handed on."""
    n = 0

    def scaling_params(target: FuncInfo) -> set:
        """parameters of the callee that multiply the amplitudes it copies into the new state (`p * state.state_vector[i]`): a normalisation
        by role, whatever the parameter is called"""
        ps = set(target.all_params())
        out = set()
        amp = lambda e_: any(isinstance(x_, ast.Attribute) and x_.attr.lstrip("_") in ("state_vector", "density_matrix") for x_ in ast.walk(e_))  # noqa: E731
        for st_ in ast.walk(target.node):
            if not isinstance(st_, (ast.Assign, ast.AugAssign, ast.Return, ast.Expr)):
                continue
            stored_amp = isinstance(st_, (ast.Assign, ast.AugAssign)) and any(amp(t_) for t_ in (st_.targets if isinstance(st_, ast.Assign) else [st_.target]))
            for b_ in ast.walk(st_):
                if isinstance(b_, ast.BinOp) and isinstance(b_.op, (ast.Mult, ast.Div)):
                    for a_, o_ in ((b_.left, b_.right), (b_.right, b_.left)):
                        if isinstance(a_, ast.Name) and a_.id in ps and (amp(o_) or stored_amp):
                            out.add(a_.id)
        return out

    def normalising(fn_: FuncInfo, call: ast.Call, depth: int = 0) -> Optional[bool]:
        if any(k.arg == "normalization" for k in call.keywords):
            return True
        if isinstance(call.func, ast.Name):
            r0 = idx.resolve_name(fn_.module, call.func.id)
            if isinstance(r0, FuncInfo):
                sp_ = scaling_params(r0)
                pos_ = [a.arg for a in r0.node.args.args]
                if any(k.arg in sp_ for k in call.keywords) or any(i_ < len(pos_) and pos_[i_] in sp_ for i_ in range(len(call.args))):
                    return True
        name = dotted(call.func) or ""
        last = name.split(".")[-1]
        target = None
        if isinstance(call.func, ast.Name):
            r = idx.resolve_name(fn_.module, call.func.id)
            if isinstance(r, FuncInfo):
                target = r
        elif isinstance(call.func, ast.Attribute):
            # method of some state class: look it up by name among the state classes
            for c in idx.all_classes():
                if last in c.methods and c.module.name.endswith(".state"):
                    target = c.methods[last]
                    break
        if target is None or depth > 2:
            return None
        body_calls = [c for c in ast.walk(target.node) if isinstance(c, ast.Call)]
        if any((dotted(c.func) or "").split(".")[-1] in ("normalize", "_normalize") or any(k.arg == "normalization" for k in c.keywords) for c in body_calls):
            return True
        for c in body_calls:
            r = normalising(target, c, depth + 1)
            if r:
                return True
        return False

    from ..registry import get_registry
    reg = get_registry(idx)
    none_steps = set()
    for sim in reg.simulators:
        for e in sim.entries:
            if e.instr is not None and e.step is not None and any(e.instr.is_subclass_of(c) for c in sim.allowed_shots_none):
                none_steps.add(e.step.qualname)

    def not_none_only(fn_node: ast.AST):
        """Statement lists that run only when shots is not None."""
        for node in ast.walk(fn_node):
            body = getattr(node, "body", None)
            if not isinstance(body, list):
                continue
            for i, st_ in enumerate(body):
                if not isinstance(st_, ast.If):
                    continue
                pol = _shots_none_polarity(st_.test)
                if pol is False:
                    yield st_.body
                elif pol is True:
                    if st_.orelse:
                        yield st_.orelse
                    elif st_.body and isinstance(st_.body[-1], (ast.Return, ast.Raise)):
                        yield body[i + 1:]

    for fn in idx.all_functions():
        if not fn.module.name.startswith("piquasso.") or "shots" not in fn.all_params():
            continue
        arms = list(_none_arms(fn.node))
        if not arms and fn.qualname not in none_steps:
            continue
        excluded = {id(x) for arm in not_none_only(fn.node) for s_ in arm for x in ast.walk(s_)}
        scope = [fn.node.body] if fn.qualname in none_steps else arms
        for arm in scope:
            for s in arm:
                for b in ast.walk(s):
                    if id(b) in excluded:
                        continue
                    if not (isinstance(b, ast.Call) and (dotted(b.func) or "").split(".")[-1] == "Branch"):
                        continue
                    st = next((k.value for k in b.keywords if k.arg == "state"), b.args[0] if b.args else None)
                    has_outcome = any(k.arg in ("outcome", "frequency") for k in b.keywords) or len(b.args) >= 2
                    if st is None or not has_outcome or (isinstance(st, ast.Constant) and st.value is None):
                        continue
                    src = st
                    if isinstance(st, ast.Name):
                        defs = [a.value for a in ast.walk(fn.node) if isinstance(a, ast.Assign) and len(a.targets) == 1
                                and isinstance(a.targets[0], ast.Name) and a.targets[0].id == st.id]
                        if len(defs) == 1:
                            src = defs[0]
                    if not isinstance(src, ast.Call):
                        continue
                    n += 1
                    verdict = normalising(fn, src)
                    key = f"{fn.qualname}|post-measurement state|{norm(src)[:60]}"
                    if verdict is None:
                        raise AnalysisError(f"C03d: cannot resolve the constructor of the branch state `{norm(src)[:60]}` in {fn.qualname} (undecided)")
                    ctx.obligation("C03d", key, verdict, f"{ctx.relpath(fn.file)}:{b.lineno}")
                    if not verdict:
                        ctx.violation("C03d", key, fn.file, b.lineno,
                                      f"with shots=None {fn.name} hands on the branch state `{norm(src)[:60]}`, which is not normalised (no normalization "
                                      f"argument, no normalize() on the way): the weights the next measurement reads from it already contain this "
                                      f"branch's probability, and the simulator multiplies them by the branch weight again - measuring modes one after "
                                      f"another no longer gives the joint distribution", norm(b)[:140])
    ctx.require_floor("C03d post-measurement states handed on by steps reachable with shots=None", n, 3)


def clause_e(ctx: Context, idx) -> None:
    """Outcomes are not unique among the branches of a result: several steps build one branch per sample
    (`Branch(.., outcome=o, frequency=Fraction(1, shots)) for o in samples`).  A mapping keyed by `branch.outcome` that is filled
    from the branches must therefore accumulate; a plain store keeps only the last branch of each outcome and the counts no
    longer sum to the number of shots."""
    # premise: per-sample branches exist
    per_sample = 0
    for fn in idx.all_functions():
        for n in walk_no_nested(fn.node):
            if isinstance(n, (ast.ListComp, ast.GeneratorExp)) and isinstance(n.elt, ast.Call) and (dotted(n.elt.func) or "").split(".")[-1] == "Branch":
                fr = next((k.value for k in n.elt.keywords if k.arg == "frequency"), None)
                if isinstance(fr, ast.Call) and (dotted(fr.func) or "").split(".")[-1] == "Fraction" and len(fr.args) == 2 \
                        and isinstance(fr.args[0], ast.Constant) and fr.args[0].value == 1:
                    per_sample += 1
    ctx.count("C03e steps that build one branch per sample", per_sample)
    res_cls = idx.find_class("piquasso.api.result", "Result")
    n = 0
    for m in res_cls.methods.values():
        for loop in walk_no_nested(m.node):
            if not isinstance(loop, ast.For) or not isinstance(loop.target, ast.Name):
                continue
            if "branches" not in norm(loop.iter):
                continue
            b = loop.target.id
            for st in ast.walk(loop):
                if isinstance(st, (ast.Assign, ast.AugAssign)):
                    t = st.targets[0] if isinstance(st, ast.Assign) else st.target
                    if isinstance(t, ast.Subscript) and norm(t.slice) == f"{b}.outcome" and isinstance(t.value, ast.Name):
                        n += 1
                        d = t.value.id
                        accumulates = isinstance(st, ast.AugAssign) or any(
                            (isinstance(x, ast.Subscript) and norm(x) == norm(t) and isinstance(x.ctx, ast.Load))
                            or (isinstance(x, ast.Call) and isinstance(x.func, ast.Attribute) and x.func.attr in ("get", "setdefault")
                                and isinstance(x.func.value, ast.Name) and x.func.value.id == d)
                            for x in ast.walk(st.value))
                        # `if b.outcome in d: <accumulate> else: d[b.outcome] = first` - the store only creates the entry
                        guarded = False
                        for iff in ast.walk(loop):
                            if isinstance(iff, ast.If) and isinstance(iff.test, ast.Compare) and len(iff.test.ops) == 1 \
                                    and norm(iff.test.left) == f"{b}.outcome" and norm(iff.test.comparators[0]) == d:
                                branch_ = iff.orelse if isinstance(iff.test.ops[0], ast.In) else (iff.body if isinstance(iff.test.ops[0], ast.NotIn) else [])
                                if any(st is x for s_ in branch_ for x in ast.walk(s_)):
                                    guarded = True
                        key = f"{m.qualname}|{d}[{b}.outcome]"
                        ok = accumulates or guarded or per_sample == 0
                        ctx.obligation("C03e", key, ok, f"{ctx.relpath(m.file)}:{st.lineno}")
                        if not ok:
                            ctx.violation("C03e", key, m.file, st.lineno,
                                          f"`{norm(st)[:70]}` overwrites the entry of an earlier branch with the same outcome; {per_sample} steps build one "
                                          f"branch per sample, so the counts of a result do not sum to the number of shots", norm(st)[:100])
        # a comprehension keyed by the outcome cannot accumulate
        for comp in walk_no_nested(m.node):
            if isinstance(comp, ast.DictComp) and len(comp.generators) == 1 and isinstance(comp.generators[0].target, ast.Name) \
                    and "branches" in norm(comp.generators[0].iter) and norm(comp.key) == f"{comp.generators[0].target.id}.outcome":
                n += 1
                key = f"{m.qualname}|dict comprehension keyed by the outcome"
                ok = per_sample == 0
                ctx.obligation("C03e", key, ok, f"{ctx.relpath(m.file)}:{comp.lineno}")
                if not ok:
                    ctx.violation("C03e", key, m.file, comp.lineno,
                                  f"a dictionary comprehension keyed by `{norm(comp.key)}` keeps only the last branch of each outcome; {per_sample} steps "
                                  f"build one branch per sample, so the frequency it reports for an outcome is that of one sample", norm(comp)[:100])
    ctx.require_floor("C03e stores keyed by a branch's outcome in Result", n, 1)
