"""C04 — matrix-function kernels equal their combinatorial definitions: the integer-width clause (E8b).

Decides one necessary clause: the integer types that carry binomial weights in permanent_cpp and
permanent_laplace_cpp (accumulator variables and binomialCoeff<T> instantiations) are wide enough for
every multiplicity pattern in the property's stated range (sum of multiplicities <= 40).  Signed overflow
there is undefined behaviour *and* a wrong value.  Equality of the kernels with their definitions is
numerical and is not decided.
"""

from __future__ import annotations

import ast
from typing import List, Tuple

from .. import cxx
from ..index import get_index, norm
from ..report import Context, AnalysisError

LEVEL = "other"
TOTAL = 40  # "all multiplicity vectors with total up to about 40" (property quantifier)


def run(ctx: Context) -> None:
    ctx.explanation = (
        "Width rule on the clang AST of the instantiated permanent kernels: the declared type of every variable "
        "that accumulates binomialCoeff results, and the template argument of every binomialCoeff<T> "
        "instantiation, is compared with the number of bits the largest intermediate weight needs for "
        "multiplicities summing to 40 (computed by the checker). Decides this necessary clause only; the "
        "equality of the kernels with their combinatorial definitions is numerical."
    )
    ctx.rule("C04b", "integer carriers of binomial weights in the permanent kernels have at least the bits the stated multiplicity range needs")
    cxx.check_widths(ctx, "C04b", TOTAL)
    ctx.rule("C04d", "the native kernels branch on computed floating values only through exact tests: no comparison with a non-zero floating constant (absolute tolerance)")
    cxx.check_thresholds(ctx, "C04d")
    ctx.rule("C04c", "a helper that rescales its matrix argument in place and returns (matrix, factor) returns, on every path, the factor it applied on that path (1 when it applied none)")
    clause_c(ctx)
    ctx.assume("LP64 data model (int 32 bits, long/int64_t 64 bits)")
    ctx.assume("the product of per-mode central binomial coefficients is bounded by the central coefficient of the total")


def _paths(stmts: List[ast.stmt]) -> List[List[ast.stmt]]:
    """Syntactic paths through a block up to a return (if statements fork, other statements are executed once)."""
    out: List[List[ast.stmt]] = []

    def go(rest: List[ast.stmt], seen: List[ast.stmt]) -> None:
        for i, s in enumerate(rest):
            if isinstance(s, ast.Return):
                out.append(seen + [s])
                return
            if isinstance(s, ast.If):
                go(list(s.body) + rest[i + 1:], seen)
                go(list(s.orelse) + rest[i + 1:], seen)
                return
            seen = seen + [s]

    go(list(stmts), [])
    return out


def clause_c(ctx: Context) -> None:
    idx = get_index(ctx.repo)
    n = 0
    for fn in idx.all_functions():
        if not fn.module.name.startswith("piquasso._math"):
            continue
        params = fn.all_params()
        rets = [r for r in ast.walk(fn.node) if isinstance(r, ast.Return) and isinstance(r.value, ast.Tuple) and len(r.value.elts) == 2
                and isinstance(r.value.elts[0], ast.Name) and r.value.elts[0].id in params]
        scaled = [a for a in ast.walk(fn.node) if isinstance(a, ast.AugAssign) and isinstance(a.op, (ast.Mult, ast.Div))
                  and isinstance(a.target, ast.Name) and a.target.id in params]
        if not rets or not scaled:
            continue
        n += 1
        for path in _paths(fn.node.body):
            ret = path[-1]
            if not (isinstance(ret.value, ast.Tuple) and len(ret.value.elts) == 2 and isinstance(ret.value.elts[0], ast.Name)):
                continue
            mat, fac = ret.value.elts[0].id, ret.value.elts[1]
            applied = [(i, s) for i, s in enumerate(path) if isinstance(s, ast.AugAssign) and isinstance(s.target, ast.Name) and s.target.id == mat]
            key = f"{fn.qualname}|returned-factor|line-{'unit' if isinstance(fac, ast.Constant) else norm(fac)}|{len(applied)}-scalings"
            ok = True
            why = ""
            if isinstance(fac, ast.Constant):
                if fac.value not in (1, 1.0):
                    ok, why = False, f"returns the constant factor {fac.value!r}"
                elif applied:
                    ok, why = False, f"scales `{mat}` by `{norm(applied[0][1].value)}` but reports the factor 1"
            elif isinstance(fac, ast.Name):
                if len(applied) != 1 or not isinstance(applied[0][1].op, ast.Mult) or norm(applied[0][1].value) != fac.id:
                    ok, why = False, (f"reports the factor `{fac.id}` but " + ("leaves the matrix unscaled" if not applied else
                                      f"scales `{mat}` by `{norm(applied[0][1].value)}`") + " on this path")
                else:
                    i0 = applied[0][0]
                    if any(isinstance(s, (ast.Assign, ast.AugAssign)) and any(isinstance(t, ast.Name) and t.id == fac.id for t in
                           (s.targets if isinstance(s, ast.Assign) else [s.target])) for s in path[i0 + 1:]):
                        ok, why = False, f"rebinds `{fac.id}` after applying it"
            else:
                raise AnalysisError(f"C04c: the factor returned by {fn.qualname} is neither a name nor a constant (undecided)")
            ctx.obligation("C04c", key, ok, f"{ctx.relpath(fn.file)}:{ret.lineno}")
            if not ok:
                ctx.violation("C04c", key, fn.file, ret.lineno,
                              f"{fn.name} {why}: callers undo the scaling with the returned factor (power traces are divided by it), so the "
                              f"hafnian is off by a power of the factor for the inputs that take this path", norm(ret)[:80])
    ctx.require_floor("in-place rescaling helpers returning (matrix, factor)", n, 1)
