"""C04 — matrix-function kernels equal their combinatorial definitions: the integer-width clause (E8b).

Decides one necessary clause: the integer types that carry binomial weights in permanent_cpp and
permanent_laplace_cpp (accumulator variables and binomialCoeff<T> instantiations) are wide enough for
every multiplicity pattern in the property's stated range (sum of multiplicities <= 40).  Signed overflow
there is undefined behaviour *and* a wrong value.  Equality of the kernels with their definitions is
numerical and is not decided.
"""

from __future__ import annotations

from .. import cxx
from ..report import Context

LEVEL = "other"
TOTAL = 40  # "all multiplicity vectors with total up to about 40" (property quantifier)


def run(ctx: Context) -> None:
    ctx.explanation = (
        "Width rule on the clang AST of the instantiated permanent kernels: the declared type of every variable "
        "that accumulates binomialCoeff results, and the template argument of every binomialCoeff<T> "
        "instantiation, is compared with the number of bits the largest intermediate weight needs for "
        "multiplicities summing to 40 (computed by the checker). Decides this necessary clause only; the "
        "equality of the kernels with their combinatorial definitions is numerical."
    )
    ctx.rule("C04b", "integer carriers of binomial weights in the permanent kernels have at least the bits the stated multiplicity range needs")
    cxx.check_widths(ctx, "C04b", TOTAL)
    ctx.assume("LP64 data model (int 32 bits, long/int64_t 64 bits)")
    ctx.assume("the product of per-mode central binomial coefficients is bounded by the central coefficient of the total")
