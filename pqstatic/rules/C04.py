"""C04 — matrix-function kernels equal their combinatorial definitions: the integer-width clause (E8b).

Decides one necessary clause: the integer types that carry binomial weights in permanent_cpp and
permanent_laplace_cpp (accumulator variables and binomialCoeff<T> instantiations) are wide enough for
every multiplicity pattern in the property's stated range (sum of multiplicities <= 40).  Signed overflow
there is undefined behaviour *and* a wrong value.  Equality of the kernels with their definitions is
numerical and is not decided.
"""

from __future__ import annotations

import ast
from typing import List, Tuple

from .. import cxx
from ..index import get_index, norm
from ..report import Context, AnalysisError

LEVEL = "other"
TOTAL = 40  # "all multiplicity vectors with total up to about 40" (property quantifier)


def run(ctx: Context) -> None:
    ctx.explanation = (
        "Width rule on the clang AST of the instantiated permanent kernels: the declared type of every variable "
        "that accumulates binomialCoeff results, and the template argument of every binomialCoeff<T> "
        "instantiation, is compared with the number of bits the largest intermediate weight needs for "
        "multiplicities summing to 40 (computed by the checker). Decides this necessary clause only; the "
        "equality of the kernels with their combinatorial definitions is numerical."
    )
    ctx.rule("C04b", "integer carriers of binomial weights in the permanent kernels have at least the bits the stated multiplicity range needs")
    cxx.check_widths(ctx, "C04b", TOTAL)
    ctx.rule("C04d", "the native kernels branch on computed floating values only through exact tests: no comparison with a non-zero floating constant (absolute tolerance)")
    cxx.check_thresholds(ctx, "C04d")
    clause_d_python(ctx)
    ctx.rule("C04e", "an exact zero test of a sum in the python kernels is applied to summands that cannot cancel (absolute values, squares, non-negative counts)")
    clause_e_python(ctx)
    ctx.rule("C04c", "a helper that rescales its matrix argument in place and returns (matrix, factor) returns, on every path, the factor it applied on that path (1 when it applied none)")
    clause_c(ctx)
    ctx.assume("LP64 data model (int 32 bits, long/int64_t 64 bits)")
    ctx.assume("the product of per-mode central binomial coefficients is bounded by the central coefficient of the total")


def _paths(stmts: List[ast.stmt]) -> List[List[ast.stmt]]:
    """Syntactic paths through a block up to a return (if statements fork, other statements are executed once)."""
    out: List[List[ast.stmt]] = []

    def go(rest: List[ast.stmt], seen: List[ast.stmt]) -> None:
        for i, s in enumerate(rest):
            if isinstance(s, ast.Return):
                out.append(seen + [s])
                return
            if isinstance(s, ast.If):
                go(list(s.body) + rest[i + 1:], seen)
                go(list(s.orelse) + rest[i + 1:], seen)
                return
            seen = seen + [s]

    go(list(stmts), [])
    return out


def clause_c(ctx: Context) -> None:
    idx = get_index(ctx.repo)
    n = 0
    for fn in idx.all_functions():
        if not fn.module.name.startswith("piquasso._math"):
            continue
        params = fn.all_params()
        rets = [r for r in ast.walk(fn.node) if isinstance(r, ast.Return) and isinstance(r.value, ast.Tuple) and len(r.value.elts) == 2
                and isinstance(r.value.elts[0], ast.Name) and r.value.elts[0].id in params]
        scaled = [a for a in ast.walk(fn.node) if isinstance(a, ast.AugAssign) and isinstance(a.op, (ast.Mult, ast.Div))
                  and isinstance(a.target, ast.Name) and a.target.id in params]
        if not rets or not scaled:
            continue
        n += 1
        for path in _paths(fn.node.body):
            ret = path[-1]
            if not (isinstance(ret.value, ast.Tuple) and len(ret.value.elts) == 2 and isinstance(ret.value.elts[0], ast.Name)):
                continue
            mat, fac = ret.value.elts[0].id, ret.value.elts[1]
            applied = [(i, s) for i, s in enumerate(path) if isinstance(s, ast.AugAssign) and isinstance(s.target, ast.Name) and s.target.id == mat]
            key = f"{fn.qualname}|returned-factor|line-{'unit' if isinstance(fac, ast.Constant) else norm(fac)}|{len(applied)}-scalings"
            ok = True
            why = ""
            if isinstance(fac, ast.Constant):
                if fac.value not in (1, 1.0):
                    ok, why = False, f"returns the constant factor {fac.value!r}"
                elif applied:
                    ok, why = False, f"scales `{mat}` by `{norm(applied[0][1].value)}` but reports the factor 1"
            elif isinstance(fac, ast.Name):
                if len(applied) != 1 or not isinstance(applied[0][1].op, ast.Mult) or norm(applied[0][1].value) != fac.id:
                    ok, why = False, (f"reports the factor `{fac.id}` but " + ("leaves the matrix unscaled" if not applied else
                                      f"scales `{mat}` by `{norm(applied[0][1].value)}`") + " on this path")
                else:
                    i0 = applied[0][0]
                    if any(isinstance(s, (ast.Assign, ast.AugAssign)) and any(isinstance(t, ast.Name) and t.id == fac.id for t in
                           (s.targets if isinstance(s, ast.Assign) else [s.target])) for s in path[i0 + 1:]):
                        ok, why = False, f"rebinds `{fac.id}` after applying it"
            else:
                raise AnalysisError(f"C04c: the factor returned by {fn.qualname} is neither a name nor a constant (undecided)")
            ctx.obligation("C04c", key, ok, f"{ctx.relpath(fn.file)}:{ret.lineno}")
            if not ok:
                ctx.violation("C04c", key, fn.file, ret.lineno,
                              f"{fn.name} {why}: callers undo the scaling with the returned factor (power traces are divided by it), so the "
                              f"hafnian is off by a power of the factor for the inputs that take this path", norm(ret)[:80])
    ctx.require_floor("in-place rescaling helpers returning (matrix, factor)", n, 1)


def clause_d_python(ctx: Context) -> None:
    """The numba hafnian kernels: a relational comparison of a computed floating value with a non-zero floating constant is an
    absolute tolerance - every input below it takes the degenerate path whatever its scale (a matrix with entries of 1e-4 is a valid
    input).  One idiom is accepted because the two arms are equivalent by construction: the guard of an in-place rescaling helper
    whose guarded arm returns the argument unchanged together with the factor 1 (decided under C04c)."""
    from ..index import get_index
    idx = get_index(ctx.repo)
    n_fn = n_cmp = 0
    for mname, m in sorted(idx.modules.items()):
        if not (mname.startswith("piquasso._math.hafnian") or mname == "piquasso._math.jax.hafnian"):
            continue
        consts = {k: v.value for k, v in m.assigns.items() if isinstance(v, ast.Constant) and isinstance(v.value, float)}
        for fn in m.functions.values():
            n_fn += 1
            for node in ast.walk(fn.node):
                if not isinstance(node, ast.If):
                    continue
                for c in ast.walk(node.test):
                    if not (isinstance(c, ast.Compare) and len(c.ops) == 1 and isinstance(c.ops[0], (ast.Lt, ast.Gt, ast.LtE, ast.GtE))):
                        continue
                    sides = [c.left, c.comparators[0]]
                    thr = None
                    for s_ in sides:
                        if isinstance(s_, ast.Constant) and isinstance(s_.value, float) and s_.value != 0.0:
                            thr = s_.value
                        elif isinstance(s_, ast.Name) and s_.id in consts and consts[s_.id] != 0.0:
                            thr = consts[s_.id]
                    if thr is None:
                        continue
                    n_cmp += 1
                    # accepted: `if scale < eps: return <parameter>, 1.0`
                    body = node.body
                    identity = len(body) == 1 and isinstance(body[0], ast.Return) and isinstance(body[0].value, ast.Tuple) \
                        and len(body[0].value.elts) == 2 and isinstance(body[0].value.elts[0], ast.Name) \
                        and body[0].value.elts[0].id in fn.params() and isinstance(body[0].value.elts[1], ast.Constant) \
                        and body[0].value.elts[1].value in (1, 1.0)
                    key = f"{fn.qualname}|{norm(c)}"
                    if identity:
                        ctx.instance("C04d", key, "accepted: guard of an identity rescaling arm", f"{ctx.relpath(fn.file)}:{c.lineno}")
                        continue
                    ctx.violation("C04d", key, fn.file, c.lineno,
                                  f"`{norm(c)}` compares a computed floating value with the absolute constant {thr}: inputs of small magnitude "
                                  f"take the degenerate path although they are not degenerate (the kernel's value is wrong by O(1) for them)",
                                  norm(node).split("\n")[0][:100])
    ctx.require_floor("C04d python kernel functions scanned for absolute thresholds", n_fn, 20)
    ctx.count("C04d relational comparisons with a floating constant in the python kernels", n_cmp)


def clause_e_python(ctx: Context) -> None:
    """`sum(x) == 0` decides "x is all zero" only when the summands cannot cancel: absolute values, squares of absolute values, or the
    non-negative integer counts of the kernels (occupation numbers, edge multiplicities).  A shortcut guarded by the vanishing *sum* of a
    signed or complex vector (the loop vector of a loop hafnian) is taken for vectors whose entries cancel."""
    from ..index import get_index, dotted
    idx = get_index(ctx.repo)
    COUNTS = ("occupation", "edges", "nvec", "multiplic", "particle", "photon", "rows", "cols")
    n = 0
    for mname, m in sorted(idx.modules.items()):
        if not (mname.startswith("piquasso._math.hafnian") or mname == "piquasso._math.jax.hafnian"):
            continue
        for fn in m.functions.values():
            defs = {}
            for a in ast.walk(fn.node):
                if isinstance(a, ast.Assign) and len(a.targets) == 1 and isinstance(a.targets[0], ast.Name):
                    defs.setdefault(a.targets[0].id, []).append(a.value)

            def is_sum(e):
                return isinstance(e, ast.Call) and (dotted(e.func) or "").split(".")[-1] == "sum" and (e.args or isinstance(e.func, ast.Attribute))

            def summand(e):
                if e.args:
                    return e.args[0]
                return e.func.value  # x.sum()

            def nonneg(e, depth=0) -> bool:
                if isinstance(e, ast.Call) and (dotted(e.func) or "").split(".")[-1] in ("abs", "absolute", "fabs"):
                    return True
                if isinstance(e, ast.BinOp) and isinstance(e.op, ast.Pow) and isinstance(e.right, ast.Constant) and e.right.value == 2 and nonneg(e.left, depth):
                    return True
                if isinstance(e, ast.Name):
                    if any(k in e.id.lower() for k in COUNTS):
                        return True
                    if e.id in defs and depth < 4:
                        return all(nonneg(d_, depth + 1) for d_ in defs[e.id])
                if isinstance(e, ast.Subscript):
                    return nonneg(e.value, depth)
                if isinstance(e, ast.Call) and (dotted(e.func) or "").split(".")[-1] in ("match_occupation_numbers", "copy", "array", "asarray") and e.args:
                    return any(nonneg(a, depth) for a in e.args) or (dotted(e.func) or "").endswith("match_occupation_numbers")
                return False

            for c in ast.walk(fn.node):
                if not (isinstance(c, ast.Compare) and len(c.ops) == 1 and isinstance(c.ops[0], (ast.Eq, ast.NotEq))):
                    continue
                sides = [c.left, c.comparators[0]]
                zero = [s_ for s_ in sides if isinstance(s_, ast.Constant) and s_.value in (0, 0.0)]
                if not zero:
                    continue
                other = sides[1] if sides[0] is zero[0] else sides[0]
                src = other
                if isinstance(other, ast.Name) and other.id in defs and len(defs[other.id]) == 1:
                    src = defs[other.id][0]
                if not is_sum(src):
                    continue
                n += 1
                ok = nonneg(summand(src))
                key = f"{fn.qualname}|{norm(c)}"
                ctx.obligation("C04e", key, ok, f"{ctx.relpath(fn.file)}:{c.lineno}", summand=norm(summand(src))[:60])
                if not ok:
                    ctx.violation("C04e", key, fn.file, c.lineno,
                                  f"`{norm(c)}` tests the vanishing of the sum of `{norm(summand(src))[:50]}`, whose entries can cancel: a vector with "
                                  f"entries (+g, -g) takes the all-zero shortcut although it is not zero", norm(c))
    ctx.require_floor("C04e exact zero tests of a sum in the python kernels", n, 2)
