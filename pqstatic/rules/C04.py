"""C04 — matrix-function kernels equal their combinatorial definitions: the integer-width clause (E8b).

Decides one necessary clause: the integer types that carry binomial weights in permanent_cpp and
permanent_laplace_cpp (accumulator variables and binomialCoeff<T> instantiations) are wide enough for
every multiplicity pattern in the property's stated range (sum of multiplicities <= 40).  Signed overflow
there is undefined behaviour *and* a wrong value.  Equality of the kernels with their definitions is
numerical and is not decided.
"""

from __future__ import annotations

import ast
from typing import Dict, List, Set, Tuple

from .. import cxx
from ..index import get_index, norm
from ..report import Context, AnalysisError

LEVEL = "other"
TOTAL = 40  # "all multiplicity vectors with total up to about 40" (property quantifier)


def run(ctx: Context) -> None:
    ctx.explanation = (
        "Width rule on the clang AST of the instantiated permanent kernels: the declared type of every variable "
        "that accumulates binomialCoeff results, and the template argument of every binomialCoeff<T> "
        "instantiation, is compared with the number of bits the largest intermediate weight needs for "
        "multiplicities summing to 40 (computed by the checker). Decides this necessary clause only; the "
        "equality of the kernels with their combinatorial definitions is numerical."
        " Further clauses decided on the python (numba) kernels and on the clang AST: no absolute floating thresholds; zero tests of sums only on "
        "summands that cannot cancel; in-place rescaling helpers return the factor they applied; norms of the input are never divisors without a zero "
        "test; entries of input arrays are updated, not overwritten; shift widths."
    )
    ctx.rule("C04b", "integer carriers of binomial weights in the permanent kernels have at least the bits the stated multiplicity range needs")
    cxx.check_widths(ctx, "C04b", TOTAL)
    ctx.rule("C04d", "the native kernels branch on computed floating values only through exact tests: no comparison with a non-zero floating constant (absolute tolerance)")
    cxx.check_thresholds(ctx, "C04d")
    clause_d_python(ctx)
    ctx.rule("C04e", "an exact zero test of a sum in the python kernels is applied to summands that cannot cancel (absolute values, squares, non-negative counts)")
    clause_e_python(ctx)
    ctx.rule("C04f", "a scale factor computed as a norm of the input (sum of absolute values) is never used as a divisor without a zero test: the all-zero matrix is a legal input")
    clause_f_python(ctx)
    ctx.rule("C04g", "an element of a kernel's input array (or of a copy of it) is only updated from its old value, never overwritten with a value that ignores it: the result depends on every entry of the multiplicity vector")
    clause_g_python(ctx)
    ctx.rule("C04c", "a helper that rescales its matrix argument in place and returns (matrix, factor) returns, on every path, the factor it applied on that path (1 when it applied none)")
    clause_c(ctx)
    ctx.assume("LP64 data model (int 32 bits, long/int64_t 64 bits)")
    ctx.assume("the product of per-mode central binomial coefficients is bounded by the central coefficient of the total")


def _paths(stmts: List[ast.stmt]) -> List[List[ast.stmt]]:
    """Syntactic paths through a block up to a return (if statements fork, other statements are executed once)."""
    out: List[List[ast.stmt]] = []

    def go(rest: List[ast.stmt], seen: List[ast.stmt]) -> None:
        for i, s in enumerate(rest):
            if isinstance(s, ast.Return):
                out.append(seen + [s])
                return
            if isinstance(s, ast.If):
                go(list(s.body) + rest[i + 1:], seen)
                go(list(s.orelse) + rest[i + 1:], seen)
                return
            seen = seen + [s]

    go(list(stmts), [])
    return out


def clause_c(ctx: Context) -> None:
    idx = get_index(ctx.repo)
    n = 0
    for fn in idx.all_functions():
        if not fn.module.name.startswith("piquasso._math"):
            continue
        params = fn.all_params()
        rets = [r for r in ast.walk(fn.node) if isinstance(r, ast.Return) and isinstance(r.value, ast.Tuple) and len(r.value.elts) == 2
                and isinstance(r.value.elts[0], ast.Name) and r.value.elts[0].id in params]
        scaled = [a for a in ast.walk(fn.node) if isinstance(a, ast.AugAssign) and isinstance(a.op, (ast.Mult, ast.Div))
                  and isinstance(a.target, ast.Name) and a.target.id in params]
        if not rets or not scaled:
            continue
        n += 1
        for path in _paths(fn.node.body):
            ret = path[-1]
            if not (isinstance(ret.value, ast.Tuple) and len(ret.value.elts) == 2 and isinstance(ret.value.elts[0], ast.Name)):
                continue
            mat, fac = ret.value.elts[0].id, ret.value.elts[1]
            applied = [(i, s) for i, s in enumerate(path) if isinstance(s, ast.AugAssign) and isinstance(s.target, ast.Name) and s.target.id == mat]
            key = f"{fn.qualname}|returned-factor|line-{'unit' if isinstance(fac, ast.Constant) else norm(fac)}|{len(applied)}-scalings"
            ok = True
            why = ""
            if isinstance(fac, ast.Constant):
                if fac.value not in (1, 1.0):
                    ok, why = False, f"returns the constant factor {fac.value!r}"
                elif applied:
                    ok, why = False, f"scales `{mat}` by `{norm(applied[0][1].value)}` but reports the factor 1"
            elif isinstance(fac, ast.Name):
                if len(applied) != 1 or not isinstance(applied[0][1].op, ast.Mult) or norm(applied[0][1].value) != fac.id:
                    ok, why = False, (f"reports the factor `{fac.id}` but " + ("leaves the matrix unscaled" if not applied else
                                      f"scales `{mat}` by `{norm(applied[0][1].value)}`") + " on this path")
                else:
                    i0 = applied[0][0]
                    if any(isinstance(s, (ast.Assign, ast.AugAssign)) and any(isinstance(t, ast.Name) and t.id == fac.id for t in
                           (s.targets if isinstance(s, ast.Assign) else [s.target])) for s in path[i0 + 1:]):
                        ok, why = False, f"rebinds `{fac.id}` after applying it"
            else:
                raise AnalysisError(f"C04c: the factor returned by {fn.qualname} is neither a name nor a constant (undecided)")
            ctx.obligation("C04c", key, ok, f"{ctx.relpath(fn.file)}:{ret.lineno}")
            if not ok:
                ctx.violation("C04c", key, fn.file, ret.lineno,
                              f"{fn.name} {why}: callers undo the scaling with the returned factor (power traces are divided by it), so the "
                              f"hafnian is off by a power of the factor for the inputs that take this path", norm(ret)[:80])
    ctx.require_floor("in-place rescaling helpers returning (matrix, factor)", n, 1)


def clause_d_python(ctx: Context) -> None:
    """The numba hafnian kernels: a relational comparison of a computed floating value with a non-zero floating constant is an
    absolute tolerance - every input below it takes the degenerate path whatever its scale (a matrix with entries of 1e-4 is a valid
    input).  One idiom is accepted because the two arms are equivalent by construction: the guard of an in-place rescaling helper
    whose guarded arm returns the argument unchanged together with the factor 1 (decided under C04c)."""
    from ..index import get_index
    idx = get_index(ctx.repo)
    n_fn = n_cmp = 0
    for mname, m in sorted(idx.modules.items()):
        if not (mname.startswith("piquasso._math.hafnian") or mname == "piquasso._math.jax.hafnian"):
            continue
        consts = {k: v.value for k, v in m.assigns.items() if isinstance(v, ast.Constant) and isinstance(v.value, float)}
        for fn in m.functions.values():
            n_fn += 1
            for node in ast.walk(fn.node):
                if not isinstance(node, ast.If):
                    continue
                for c in ast.walk(node.test):
                    if not (isinstance(c, ast.Compare) and len(c.ops) == 1 and isinstance(c.ops[0], (ast.Lt, ast.Gt, ast.LtE, ast.GtE))):
                        continue
                    sides = [c.left, c.comparators[0]]
                    thr = None
                    for s_ in sides:
                        if isinstance(s_, ast.Constant) and isinstance(s_.value, float) and s_.value != 0.0:
                            thr = s_.value
                        elif isinstance(s_, ast.Name) and s_.id in consts and consts[s_.id] != 0.0:
                            thr = consts[s_.id]
                    if thr is None:
                        continue
                    n_cmp += 1
                    # accepted: `if scale < eps: return <parameter>, 1.0`
                    body = node.body
                    identity = len(body) == 1 and isinstance(body[0], ast.Return) and isinstance(body[0].value, ast.Tuple) \
                        and len(body[0].value.elts) == 2 and isinstance(body[0].value.elts[0], ast.Name) \
                        and body[0].value.elts[0].id in fn.params() and isinstance(body[0].value.elts[1], ast.Constant) \
                        and body[0].value.elts[1].value in (1, 1.0)
                    key = f"{fn.qualname}|{norm(c)}"
                    if identity:
                        ctx.instance("C04d", key, "accepted: guard of an identity rescaling arm", f"{ctx.relpath(fn.file)}:{c.lineno}")
                        continue
                    ctx.violation("C04d", key, fn.file, c.lineno,
                                  f"`{norm(c)}` compares a computed floating value with the absolute constant {thr}: inputs of small magnitude "
                                  f"take the degenerate path although they are not degenerate (the kernel's value is wrong by O(1) for them)",
                                  norm(node).split("\n")[0][:100])
    ctx.require_floor("C04d python kernel functions scanned for absolute thresholds", n_fn, 20)
    ctx.count("C04d relational comparisons with a floating constant in the python kernels", n_cmp)


def clause_e_python(ctx: Context) -> None:
    """`sum(x) == 0` decides "x is all zero" only when the summands cannot cancel: absolute values, squares of absolute values, or the
    non-negative integer counts of the kernels (occupation numbers, edge multiplicities).  A shortcut guarded by the vanishing *sum* of a
    signed or complex vector (the loop vector of a loop hafnian) is taken for vectors whose entries cancel."""
    from ..index import get_index, dotted
    idx = get_index(ctx.repo)
    COUNTS = ("occupation", "edges", "nvec", "multiplic", "particle", "photon", "rows", "cols")
    n = 0
    for mname, m in sorted(idx.modules.items()):
        if not (mname.startswith("piquasso._math.hafnian") or mname == "piquasso._math.jax.hafnian"):
            continue
        for fn in m.functions.values():
            defs = {}
            for a in ast.walk(fn.node):
                if isinstance(a, ast.Assign) and len(a.targets) == 1 and isinstance(a.targets[0], ast.Name):
                    defs.setdefault(a.targets[0].id, []).append(a.value)

            def is_sum(e):
                return isinstance(e, ast.Call) and (dotted(e.func) or "").split(".")[-1] == "sum" and (e.args or isinstance(e.func, ast.Attribute))

            def summand(e):
                if e.args:
                    return e.args[0]
                return e.func.value  # x.sum()

            def nonneg(e, depth=0) -> bool:
                if isinstance(e, ast.Call) and (dotted(e.func) or "").split(".")[-1] in ("abs", "absolute", "fabs"):
                    return True
                if isinstance(e, ast.BinOp) and isinstance(e.op, ast.Pow) and isinstance(e.right, ast.Constant) and e.right.value == 2 and nonneg(e.left, depth):
                    return True
                if isinstance(e, ast.Name):
                    if any(k in e.id.lower() for k in COUNTS):
                        return True
                    if e.id in defs and depth < 4:
                        return all(nonneg(d_, depth + 1) for d_ in defs[e.id])
                if isinstance(e, ast.Subscript):
                    return nonneg(e.value, depth)
                if isinstance(e, ast.Call) and (dotted(e.func) or "").split(".")[-1] in ("match_occupation_numbers", "copy", "array", "asarray") and e.args:
                    return any(nonneg(a, depth) for a in e.args) or (dotted(e.func) or "").endswith("match_occupation_numbers")
                return False

            for c in ast.walk(fn.node):
                if not (isinstance(c, ast.Compare) and len(c.ops) == 1 and isinstance(c.ops[0], (ast.Eq, ast.NotEq))):
                    continue
                sides = [c.left, c.comparators[0]]
                zero = [s_ for s_ in sides if isinstance(s_, ast.Constant) and s_.value in (0, 0.0)]
                if not zero:
                    continue
                other = sides[1] if sides[0] is zero[0] else sides[0]
                src = other
                if isinstance(other, ast.Name) and other.id in defs and len(defs[other.id]) == 1:
                    src = defs[other.id][0]
                if not is_sum(src):
                    continue
                n += 1
                ok = nonneg(summand(src))
                key = f"{fn.qualname}|{norm(c)}"
                ctx.obligation("C04e", key, ok, f"{ctx.relpath(fn.file)}:{c.lineno}", summand=norm(summand(src))[:60])
                if not ok:
                    ctx.violation("C04e", key, fn.file, c.lineno,
                                  f"`{norm(c)}` tests the vanishing of the sum of `{norm(summand(src))[:50]}`, whose entries can cancel: a vector with "
                                  f"entries (+g, -g) takes the all-zero shortcut although it is not zero", norm(c))
    ctx.require_floor("C04e exact zero tests of a sum in the python kernels", n, 2)


def _hafnian_modules(idx):
    for mname, m in sorted(idx.modules.items()):
        if mname.startswith("piquasso._math.hafnian") or mname == "piquasso._math.jax.hafnian":
            yield mname, m


def clause_f_python(ctx: Context) -> None:
    """norm-valued locals: bound to an expression that contains sum(abs(X)) (possibly squared, scaled by constants and sizes).  Such a value
    is 0 for the all-zero matrix.  Using it as a divisor (x / s, 1 / s) - in the same function, or in a callee that receives it, or after it
    was returned to a caller - needs a dominating test of s against zero / a small threshold whose zero side leaves or rebinds s."""
    from ..index import get_index, dotted
    from .. import cfg as cfgmod
    idx = get_index(ctx.repo)

    def is_norm_expr(e: ast.AST, norms: Set[str]) -> bool:
        for x in ast.walk(e):
            if isinstance(x, ast.Call) and (dotted(x.func) or "").split(".")[-1] == "sum" and x.args:
                inner = x.args[0]
                if any(isinstance(y, ast.Call) and (dotted(y.func) or "").split(".")[-1] in ("abs", "absolute") for y in ast.walk(inner)):
                    return True
            if isinstance(x, ast.Name) and x.id in norms:
                return True
        return False

    def only_scaling(e: ast.AST, norms: Set[str]) -> bool:
        """e is a norm times / divided by things (no additive constant that would keep it away from zero)"""
        if isinstance(e, ast.BinOp) and isinstance(e.op, (ast.Add, ast.Sub)):
            return False
        if isinstance(e, ast.BinOp):
            return only_scaling(e.left, norms) if is_norm_expr(e.left, norms) else (only_scaling(e.right, norms) if isinstance(e.op, ast.Mult) else False)
        if isinstance(e, ast.Call) and (dotted(e.func) or "").split(".")[-1] in ("sqrt", "abs", "float", "real"):
            return bool(e.args) and only_scaling(e.args[0], norms)
        return is_norm_expr(e, norms)

    n_norms = 0
    # summaries: functions returning an unguarded norm; parameters used as unguarded divisors
    returns_norm: Dict[str, bool] = {}
    divides_by_param: Dict[str, Set[int]] = {}
    per_fn = []
    for mname, m in _hafnian_modules(idx):
        for fn in m.functions.values():
            per_fn.append((mname, m, fn))
    for round_ in (0, 1):
        for mname, m, fn in per_fn:
            params = fn.params()
            norms: Set[str] = set()
            changed = True
            while changed:
                changed = False
                for a in ast.walk(fn.node):
                    if isinstance(a, ast.Assign) and len(a.targets) == 1 and isinstance(a.targets[0], ast.Name) and a.targets[0].id not in norms:
                        v = a.value
                        callee = (dotted(v.func) or "").split(".")[-1] if isinstance(v, ast.Call) else None
                        if (only_scaling(v, norms)) or (callee is not None and returns_norm.get(callee)):
                            norms.add(a.targets[0].id)
                            changed = True
            if round_ == 0:
                n_norms += len(norms)
            g = cfgmod.build(fn.node)

            def guard_for(name: str):
                def is_guard(nd) -> bool:
                    if nd.kind != "test" or not isinstance(nd.stmt, ast.If):
                        return False
                    t = nd.stmt.test
                    if not (isinstance(t, ast.Compare) and len(t.ops) == 1 and isinstance(t.left, ast.Name) and t.left.id == name
                            and isinstance(t.ops[0], (ast.Eq, ast.Lt, ast.LtE)) and isinstance(t.comparators[0], ast.Constant)):
                        return False
                    body = nd.stmt.body
                    leaves = isinstance(body[-1], (ast.Return, ast.Raise))
                    rebinds = any(isinstance(b, ast.Assign) and isinstance(b.targets[0], ast.Name) and b.targets[0].id == name
                                  and isinstance(b.value, ast.Constant) and b.value.value not in (0, 0.0) for b in body)
                    return leaves or rebinds
                return is_guard

            parents_: Dict[int, ast.AST] = {}
            for x_ in ast.walk(fn.node):
                for ch_ in ast.iter_child_nodes(x_):
                    parents_[id(ch_)] = x_

            def under_test_of(node: ast.AST, name: str) -> bool:
                """the use sits in a branch of an `if` / conditional expression whose test looks at the name (`if s != 0: m = m / s`,
                `m / s if s else m`): the programmer handled the zero case explicitly"""
                cur = node
                while id(cur) in parents_:
                    par = parents_[id(cur)]
                    if isinstance(par, (ast.If, ast.IfExp)) and cur is not par.test \
                            and any(isinstance(y, ast.Name) and y.id == name for y in ast.walk(par.test)):
                        return True
                    cur = par
                return False

            def unguarded(nd, name: str) -> bool:
                # a guard that rebinds the name does not dominate in the CFG sense (both branches continue): accept it when it precedes
                # the use in the same block chain, i.e. the use is not reachable from ENTRY without passing the guard's test node
                return not g.dominates(guard_for(name), nd.id)

            divs = []
            for nd in g.nodes:
                if nd.stmt is None:
                    continue
                for x in cfgmod.own_nodes(nd):
                    if isinstance(x, ast.BinOp) and isinstance(x.op, (ast.Div, ast.FloorDiv)) and isinstance(x.right, ast.Name):
                        divs.append((nd, x, x.right.id))
            divs = [(nd, x, name) for nd, x, name in divs if not under_test_of(x, name)]
            for nd, x, name in divs:
                if name in norms and unguarded(nd, name):
                    if round_ == 1:
                        key = f"{fn.qualname}|division by the norm `{name}`"
                        ctx.violation("C04f", key, fn.file, x.lineno,
                                      f"`{norm(x)[:70]}` divides by `{name}`, a norm of the input matrix (sum of absolute values, rescaled): for the "
                                      f"all-zero matrix it is 0 and the kernel returns nan / raises ZeroDivisionError instead of the value of the "
                                      f"defining sum", norm(x)[:100])
                if name in params and unguarded(nd, name):
                    divides_by_param.setdefault(fn.name, set()).add(params.index(name))
            # returned norms
            rn = False
            for nd in g.nodes:
                if nd.kind == "return" and isinstance(nd.stmt, ast.Return) and nd.stmt.value is not None:
                    v = nd.stmt.value
                    if (isinstance(v, ast.Name) and v.id in norms and unguarded(nd, v.id)) or (not isinstance(v, ast.Name) and only_scaling(v, norms)):
                        rn = True
            returns_norm[fn.name] = rn
            # norms handed to callees that divide by the parameter
            if round_ == 1:
                for nd in g.nodes:
                    if nd.stmt is None:
                        continue
                    for c in cfgmod.own_nodes(nd):
                        if isinstance(c, ast.Call) and isinstance(c.func, ast.Name) and c.func.id in divides_by_param:
                            for i, a in enumerate(c.args):
                                if i in divides_by_param[c.func.id] and isinstance(a, ast.Name) and a.id in norms and unguarded(nd, a.id):
                                    key = f"{fn.qualname}|{c.func.id} divides by the norm `{a.id}`"
                                    ctx.violation("C04f", key, fn.file, c.lineno,
                                                  f"`{a.id}` is a norm of the input matrix (0 for the all-zero matrix) and {c.func.id} divides by the "
                                                  f"parameter it is passed as, without a zero test on the way: the kernel returns nan / raises "
                                                  f"ZeroDivisionError for an all-zero matrix of this size", norm(c)[:100])
    ctx.require_floor("C04f norm-valued locals in the hafnian kernels", n_norms, 3)
    ctx.obligation("C04f", "hafnian kernels|norm divisors guarded", not any(f.rule == "C04f" for f in ctx.findings), norms=n_norms)


def clause_g_python(ctx: Context) -> None:
    from ..index import get_index, dotted
    idx = get_index(ctx.repo)
    n_stores = 0
    for mname, m in _hafnian_modules(idx):
        for fn in m.functions.values():
            params = set(fn.params())
            copies: Dict[str, str] = {}
            for a in ast.walk(fn.node):
                if isinstance(a, ast.Assign) and len(a.targets) == 1 and isinstance(a.targets[0], ast.Name) and isinstance(a.value, ast.Call):
                    nm = (dotted(a.value.func) or "").split(".")[-1]
                    src = None
                    if nm in ("copy", "array", "asarray") and a.value.args and isinstance(a.value.args[0], ast.Name):
                        src = a.value.args[0].id
                    elif nm == "copy" and isinstance(a.value.func, ast.Attribute) and isinstance(a.value.func.value, ast.Name):
                        src = a.value.func.value.id
                    if src in params:
                        copies[a.targets[0].id] = src
            tracked = params | set(copies)
            for a in ast.walk(fn.node):
                if isinstance(a, ast.AugAssign) and isinstance(a.target, ast.Subscript) and isinstance(a.target.value, ast.Name) and a.target.value.id in tracked:
                    n_stores += 1
                if isinstance(a, ast.Assign) and len(a.targets) == 1 and isinstance(a.targets[0], ast.Subscript) and isinstance(a.targets[0].value, ast.Name) \
                        and a.targets[0].value.id in tracked:
                    n_stores += 1
                    arr = a.targets[0].value.id
                    origin = copies.get(arr, arr)
                    reads = {x.id for x in ast.walk(a.value) if isinstance(x, ast.Name)}
                    if arr not in reads and origin not in reads:
                        key = f"{fn.qualname}|{norm(a)[:60]}"
                        ctx.violation("C04g", key, fn.file, a.lineno,
                                      f"`{norm(a)[:80]}` overwrites an entry of `{arr}`" + (f" (a copy of the argument `{origin}`)" if arr in copies else " (an argument)")
                                      + " with a value that does not depend on what the entry held: the kernel gives the same result for inputs that "
                                      "differ in that entry, which the defining sum does not", norm(a)[:100])
    ctx.require_floor("C04g element stores into input arrays of the hafnian kernels", n_stores, 8)
    ctx.obligation("C04g", "hafnian kernels|input entries updated, not overwritten", not any(f.rule == "C04g" for f in ctx.findings), stores=n_stores)
