"""C05 — passive-state probability interfaces agree: three structural necessary clauses.

(a) *feature honouring*: the optional features of a boson-sampling state are the fields the state initialises to
    "absent" (`None`, `{}`): partial distinguishability (`_particle_overlap`) and post-selection
    (`_postselections`).  Every interface that hands the interferometer to an algorithm (a repository function
    that computes probabilities, samples or amplitudes from it) must, on that path, either pass the feature's
    data to the algorithm or have established that the feature is absent (or raise).  An interface that runs
    an algorithm blind to a feature that may be present cannot agree with the interfaces that honour it.
(b) *post-selection bookkeeping*: mode counts and cutoffs are affine in (T, P) / (C, N) - total modes,
    post-selected modes, original cutoff, post-selected photons.  `self.d` is T - P, the configured cutoff is
    C - N once `_set_postselection` has run.  A basis / dimension function must never see a count in which the
    post-selection correction was applied twice (coefficient of P or N below -1).
(c) *probability conservation of the coefficient-extraction kernels*: with B_m = G o outer(T[m, I], conj T[m, I]) the
    loss kernel must be the complement, B_loss + sum_m B_m = G o 1, as an identity in index notation; otherwise
    the generating polynomial does not sum to the input norm.

Numerical agreement of the five algorithms is not decided.
"""

from __future__ import annotations

import ast
from typing import Dict, FrozenSet, List, Optional, Set, Tuple

from ..index import ClassInfo, FuncInfo, ModuleInfo, dotted, get_index, norm
from ..pathwalk import PState, TooManyPaths, Walker
from ..registry import get_registry
from ..report import AnalysisError, Context

LEVEL = "other"
STATE_MODULE = "piquasso._simulators.passive.state"
STATE_CLASS = "PassiveState"
PACKAGE = "piquasso._simulators.passive"
CORE_FIELD = "interferometer"


def optional_features(cls: ClassInfo) -> Dict[str, str]:
    """field -> atom key that states its absence; read from the initialisers of the class."""
    out: Dict[str, str] = {}
    for name in ("_reset_state", "__init__"):
        f = cls.methods.get(name)
        if f is None:
            continue
        me = f.params()[0]
        for n in ast.walk(f.node):
            tgt = val = None
            if isinstance(n, ast.Assign) and len(n.targets) == 1:
                tgt, val = n.targets[0], n.value
            elif isinstance(n, ast.AnnAssign) and n.value is not None:
                tgt, val = n.target, n.value
            if isinstance(tgt, ast.Attribute) and isinstance(tgt.value, ast.Name) and tgt.value.id == me:
                if isinstance(val, ast.Constant) and val.value is None:
                    out[tgt.attr] = f"isnone:S.{tgt.attr}"
                elif isinstance(val, ast.Dict) and not val.keys:
                    out[tgt.attr] = f"empty:S.{tgt.attr}"
    return out


def dispatchers(idx, cls: ClassInfo) -> List[Tuple[FuncInfo, Set[str]]]:
    out: List[Tuple[FuncInfo, Set[str]]] = []
    for f in cls.methods.values():
        ps = f.params()
        if ps and not any(d.endswith("staticmethod") for d in f.decorators):
            out.append((f, {ps[0]}))
    for mname, m in sorted(idx.modules.items()):
        if not mname.startswith(PACKAGE):
            continue
        for f in m.functions.values():
            recvs = set()
            a = f.node.args
            for p in a.posonlyargs + a.args + a.kwonlyargs:
                ann = p.annotation
                txt = ast.unparse(ann) if ann is not None else ""
                if txt.strip("'\"").split(".")[-1] == cls.name:
                    recvs.add(p.arg)
            if recvs:
                out.append((f, recvs))
    return out


def is_repo_function(idx, m: ModuleInfo, fn: FuncInfo, callee: str, local_partials: Dict[str, str]) -> Optional[str]:
    if not callee:
        return None
    head = callee.split(".")[0]
    if "." not in callee:
        r = idx.resolve_name(m, callee)
        if isinstance(r, FuncInfo):
            return r.qualname
    else:
        r = idx.resolve_name(m, head)
        if isinstance(r, ModuleInfo):
            node = ast.parse(callee, mode="eval").body
            r2 = idx.resolve_expr(m, node)
            if isinstance(r2, FuncInfo):
                return r2.qualname
    return None


def clause_a(ctx: Context) -> None:
    ctx.rule("C05a", "every interface of the passive state that hands the interferometer to an algorithm passes the data of "
                     "each optional feature (partial distinguishability, post-selection) to it or has established the "
                     "feature's absence on that path (or raises)")
    idx = get_index(ctx.repo)
    cls = idx.find_class(STATE_MODULE, STATE_CLASS)
    feats = optional_features(cls)
    ctx.require_floor("optional feature fields of PassiveState", len(feats), 2)
    if CORE_FIELD not in {t.attr for f in cls.methods.values() for t in ast.walk(f.node) if isinstance(t, ast.Attribute)}:
        raise AnalysisError(f"anchor vanished: PassiveState.{CORE_FIELD}")
    disp = dispatchers(idx, cls)
    by_node = {id(f.node): (f, r) for f, r in disp}
    by_qual = {f.qualname: (f, r) for f, r in disp}
    reg = get_registry(idx)
    registered = {st.qualname for sim in reg.simulators for st in sim.steps()}

    def inline_target(call: ast.Call, w: Walker):
        """A call that hands the receiver to another function of the package / a method of the state: walk it in context."""
        fn_ = call.func
        if isinstance(fn_, ast.Attribute) and isinstance(fn_.value, ast.Name) and fn_.value.id in w.recvs:
            m = cls.find_method(fn_.attr)
            if m is not None and m.qualname in by_qual and fn_.attr not in w.carriers and w.predicate_body(fn_.attr) is None:
                return (m, set(by_qual[m.qualname][1]))
            return None
        passes = [a for a in list(call.args) + [k.value for k in call.keywords] if isinstance(a, ast.Name) and a.id in w.recvs]
        if passes and isinstance(fn_, ast.Name):
            owner_mod = None
            for f0, _ in disp:
                if f0.qualname == w.owner or f0.name == w.owner:
                    owner_mod = f0.module
                    break
            if owner_mod is not None:
                r = idx.resolve_name(owner_mod, fn_.id)
                if isinstance(r, FuncInfo) and r.qualname in by_qual:
                    return (r, set(by_qual[r.qualname][1]))
        return None

    # entry points: public interfaces of the state, registered simulation steps, and functions nobody inlines
    inlined_somewhere: Set[str] = set()
    for f, recvs in disp:
        probe = Walker(cls, f.node, recvs)
        probe.owner = f.qualname
        for n in ast.walk(f.node):
            if isinstance(n, (ast.Assign, ast.AnnAssign, ast.Return, ast.Expr)) and isinstance(getattr(n, "value", None), ast.Call):
                r = inline_target(n.value, probe)
                if r is not None and r[0].qualname != f.qualname:
                    inlined_somewhere.add(r[0].qualname)
    entries = [(f, r) for f, r in disp
               if f.qualname in registered or not f.name.startswith("_") or f.qualname not in inlined_somewhere]
    ctx.count("C05a entry points walked (public state interfaces, registered steps, un-inlined helpers)", len(entries))
    n_paths = n_events = n_funcs = 0
    for f, recvs in entries:
        w = Walker(cls, f.node, recvs)
        w.owner = f.qualname
        w.inline = inline_target

        def strip(call: ast.Call, fs: FrozenSet[str], _f=f) -> FrozenSet[str]:
            # the result of a repository function that received the interferometer is its product, not the interferometer
            callee = dotted(call.func) or ""
            if CORE_FIELD in fs and is_repo_function(idx, _f.module, _f, callee, {}) is not None:
                return fs - {CORE_FIELD}
            return fs

        w.strip = strip
        try:
            paths = list(w.paths())
        except TooManyPaths:
            ctx.error(f"C05a: too many paths in {f.qualname}; undecided")
            continue
        had = False
        seen: Set[Tuple[str, str]] = set()
        for out, st in paths:
            n_paths += 1
            if out == "raise":
                continue
            for ev in st.events:
                if ev.in_test or CORE_FIELD not in ev.arg_fields:
                    continue
                of = by_qual.get(ev.owner, (f, None))[0]
                q = is_repo_function(idx, of.module, of, ev.callee, {})
                if q is None or q in by_qual:
                    continue
                had = True
                n_events += 1
                for field, absent_key in feats.items():
                    ok = field in ev.arg_fields or ev.facts.get(absent_key) is True
                    key = f"{of.qualname}|{q.split(':')[-1]}|{field}"
                    if ok:
                        if (key, "ok") not in seen:
                            seen.add((key, "ok"))
                        continue
                    if (key, "bad") in seen:
                        continue
                    seen.add((key, "bad"))
                    ctx.violation(
                        "C05a", key, of.file, ev.call.lineno,
                        f"{of.qualname.split(':')[-1]} (reached from {f.qualname.split(':')[-1]}) runs {q.split(':')[-1]} on the interferometer without the state's "
                        f"`{field}` and without having established its absence on this path",
                        construct=ast.unparse(ev.call)[:160], path=list(ev.trail)[-8:],
                    )
        if had:
            n_funcs += 1
            for (key, v) in sorted(seen):
                if v == "ok" and (key, "bad") not in seen:
                    ctx.instance("C05a", key, "honoured", where=f"{ctx.relpath(f.file)}:{f.line}")
                elif v == "bad":
                    ctx.instance("C05a", key, "VIOLATED", where=f"{ctx.relpath(f.file)}:{f.line}")
    ctx.require_floor("C05a functions that hand the interferometer to an algorithm", n_funcs, 5)
    ctx.require_floor("C05a (path, algorithm call) pairs examined", n_events, 20)
    ctx.count("C05a paths enumerated", n_paths)
    ctx.count("C05a optional features", sorted(feats))


def run(ctx: Context) -> None:
    ctx.explanation = (
        "static analysis of the passive simulator's state interfaces: path enumeration with condition splitting and "
        "inlined state predicates (clause a); clause-level claim - numerical agreement of the algorithms is not decided"
    )
    clause_a(ctx)
    clause_b(ctx)
    clause_c(ctx)
    clause_d(ctx)
    clause_e(ctx)
    clause_f(ctx)
    clause_g(ctx)


# ---------------------------------------------------------------------------------------------------------------
# clause (b): post-selection bookkeeping (affine kinds)
# ---------------------------------------------------------------------------------------------------------------
from fractions import Fraction  # noqa: E402


class Aff:
    """a.T + b.P + c.C + n.N + sum(opaque) + const; symbols: T total modes, P post-selected modes, C cutoff before
    post-selection, N post-selected photons."""

    def __init__(self, coef: Optional[Dict[str, Fraction]] = None, const: Fraction = Fraction(0)):
        self.coef = {k: v for k, v in (coef or {}).items() if v != 0}
        self.const = const

    def __add__(self, o: "Aff") -> "Aff":
        c = dict(self.coef)
        for k, v in o.coef.items():
            c[k] = c.get(k, Fraction(0)) + v
        return Aff(c, self.const + o.const)

    def scale(self, k: Fraction) -> "Aff":
        return Aff({s: v * k for s, v in self.coef.items()}, self.const * k)

    def __sub__(self, o: "Aff") -> "Aff":
        return self + o.scale(Fraction(-1))

    def is_const(self) -> bool:
        return not self.coef

    def __repr__(self) -> str:
        parts = []
        for k in sorted(self.coef):
            v = self.coef[k]
            parts.append(f"{'+' if v > 0 else '-'}{'' if abs(v) == 1 else abs(v)}{k}")
        if self.const or not parts:
            parts.append(f"{'+' if self.const >= 0 else '-'}{abs(self.const)}")
        return "".join(parts).lstrip("+")


def sym(s: str) -> Aff:
    return Aff({s: Fraction(1)})


class Tag:
    """A container value with a known meaning."""

    def __init__(self, kind: str, items: Optional[list] = None, mapping: Optional[dict] = None):
        self.kind = kind  # psmodes | psphotons | occvec | interferometer | tuple | dict | state
        self.items = items
        self.mapping = mapping


class Bookkeeping:
    def __init__(self, ctx: Context, idx, cls: ClassInfo):
        self.ctx = ctx
        self.idx = idx
        self.cls = cls
        self.keys_acc: Set[str] = set()
        self.vals_acc: Set[str] = set()
        self.checked = 0
        self.sites: List[str] = []
        self._opq = 0
        # accessors of the post-selection dict: tuple(self._postselections.keys()) / .values()
        for c in cls.mro():
            for name, f in c.methods.items():
                body = [s for s in f.node.body if not (isinstance(s, ast.Expr) and isinstance(s.value, ast.Constant))]
                if len(body) == 1 and isinstance(body[0], ast.Return) and body[0].value is not None:
                    txt = ast.unparse(body[0].value)
                    if "_postselections.keys()" in txt:
                        self.keys_acc.add(name)
                    if "_postselections.values()" in txt:
                        self.vals_acc.add(name)
        # the configured cutoff is reduced by the post-selected photons iff the only writer of the dict does so
        self.cutoff_reduced = False
        w = cls.find_method("_set_postselection")
        if w is None:
            raise AnalysisError("anchor vanished: PassiveState._set_postselection")
        for n in ast.walk(w.node):
            if isinstance(n, ast.AugAssign) and isinstance(n.op, ast.Sub) and ast.unparse(n.target).endswith("_config.cutoff") \
                    and isinstance(n.value, ast.Call) and (dotted(n.value.func) or "").split(".")[-1] == "sum":
                self.cutoff_reduced = True

    def opaque(self, hint: str) -> Aff:
        self._opq += 1
        return sym(f"<{hint}#{self._opq}>")

    # ---- evaluation ------------------------------------------------------------------------------------------
    def ev(self, e: ast.AST, env: Dict[str, object], recvs: Set[str], fn: FuncInfo, chain: Tuple[str, ...], depth: int):
        """-> Aff | Tag | None (unknown)."""
        if isinstance(e, ast.Constant):
            if isinstance(e.value, bool) or not isinstance(e.value, int):
                return None
            return Aff(const=Fraction(e.value))
        if isinstance(e, ast.Name):
            if e.id in recvs:
                return Tag("state")
            return env.get(e.id)
        if isinstance(e, ast.Attribute):
            base = e.value
            if isinstance(base, ast.Name) and base.id in recvs:
                if e.attr == "interferometer":
                    return Tag("interferometer")
                if e.attr == "_occupation_numbers":
                    return Tag("occlist")
                m = self.cls.find_method(e.attr)
                if m is not None and any(d.split(".")[-1] == "property" for d in m.decorators):
                    return self.inline(m, [], {}, fn, chain, depth)
                return None
            if e.attr == "cutoff" and ast.unparse(base).endswith("_config") and isinstance(base, ast.Attribute) \
                    and isinstance(base.value, ast.Name) and base.value.id in recvs:
                return (sym("C") - sym("N")) if self.cutoff_reduced else sym("C")
            return None
        if isinstance(e, ast.Subscript):
            b = self.ev(e.value, env, recvs, fn, chain, depth)
            if isinstance(b, Tag):
                if b.kind == "occlist":
                    return Tag("occvec")
                if b.kind == "tuple" and b.items is not None and isinstance(e.slice, ast.Constant) and isinstance(e.slice.value, int) \
                        and -len(b.items) <= e.slice.value < len(b.items):
                    return b.items[e.slice.value]
                if b.kind == "dict" and b.mapping is not None and isinstance(e.slice, ast.Constant):
                    return b.mapping.get(e.slice.value)
            return None
        if isinstance(e, (ast.Tuple, ast.List)):
            return Tag("tuple", items=[self.ev(x, env, recvs, fn, chain, depth) for x in e.elts])
        if isinstance(e, ast.UnaryOp) and isinstance(e.op, ast.USub):
            v = self.ev(e.operand, env, recvs, fn, chain, depth)
            return v.scale(Fraction(-1)) if isinstance(v, Aff) else None
        if isinstance(e, ast.BinOp):
            l = self.ev(e.left, env, recvs, fn, chain, depth)
            r = self.ev(e.right, env, recvs, fn, chain, depth)
            out = None
            if isinstance(l, Aff) and isinstance(r, Aff):
                if isinstance(e.op, ast.Add):
                    out = l + r
                elif isinstance(e.op, ast.Sub):
                    out = l - r
                elif isinstance(e.op, ast.Mult) and (l.is_const() or r.is_const()):
                    out = r.scale(l.const) if l.is_const() else l.scale(r.const)
            elif isinstance(e.op, (ast.Add, ast.Sub)) and (isinstance(l, Aff) or isinstance(r, Aff)):
                known = l if isinstance(l, Aff) else r
                other = self.opaque("n")
                out = (known + other) if (isinstance(e.op, ast.Add) or known is r) else (known - other)
                if isinstance(e.op, ast.Sub) and known is r:
                    out = other - known
            if isinstance(out, Aff) and not any(isinstance(x, Aff) and self.bad(x) for x in (l, r)):
                self.check(out, e, fn, chain)
            return out
        if isinstance(e, ast.IfExp):
            a = self.ev(e.body, env, recvs, fn, chain, depth)
            b = self.ev(e.orelse, env, recvs, fn, chain, depth)
            return a if repr(a) == repr(b) else None
        if isinstance(e, ast.Call):
            return self.call(e, env, recvs, fn, chain, depth)
        return None

    def call(self, e: ast.Call, env, recvs, fn: FuncInfo, chain, depth):
        name = dotted(e.func) or ""
        last = name.split(".")[-1]
        args = [self.ev(a, env, recvs, fn, chain, depth) for a in e.args]
        kwargs: Dict[str, object] = {}
        for k in e.keywords:
            v = self.ev(k.value, env, recvs, fn, chain, depth)
            if k.arg is None:
                if isinstance(v, Tag) and v.kind == "dict" and v.mapping:
                    kwargs.update(v.mapping)
            else:
                kwargs[k.arg] = v
        if last == "len" and len(args) == 1:
            a = args[0]
            if isinstance(a, Tag):
                if a.kind in ("interferometer", "occvec"):
                    return sym("T")
                if a.kind in ("psmodes", "psphotons"):
                    return sym("P")
                if a.kind == "tuple" and a.items is not None:
                    return Aff(const=Fraction(len(a.items)))
            return self.opaque("len")
        if last in ("int", "asarray", "array", "tuple", "list") and len(args) >= 1:
            return args[0]
        if last == "sum" and args:
            a = args[0]
            if isinstance(a, Tag) and a.kind == "psphotons":
                return sym("N")
            return self.opaque("sum")
        if last == "dict" and not e.args:
            return Tag("dict", mapping=dict(kwargs))
        if last == "partial" and e.args:
            # partial(f, **kw): remember the bound keywords
            return Tag("partial", items=[e.args[0]], mapping=dict(kwargs))
        # receiver methods
        if isinstance(e.func, ast.Attribute) and isinstance(e.func.value, ast.Name) and e.func.value.id in recvs:
            attr = e.func.attr
            if attr in self.keys_acc:
                return Tag("psmodes")
            if attr in self.vals_acc:
                return Tag("psphotons")
            m = self.cls.find_method(attr)
            if m is not None and depth < 4:
                return self.inline(m, args, kwargs, fn, chain, depth, bound_self=True)
            return None
        # repository functions
        callee = None
        if isinstance(e.func, ast.Name):
            loc = env.get(e.func.id)
            if isinstance(loc, Tag) and loc.kind == "partial":
                r = self.idx.resolve_expr(fn.module, loc.items[0]) if isinstance(loc.items[0], (ast.Name, ast.Attribute)) else None
                if isinstance(r, FuncInfo):
                    callee = r
                    kwargs = {**(loc.mapping or {}), **kwargs}
            else:
                r = self.idx.resolve_name(fn.module, e.func.id)
                if isinstance(r, FuncInfo):
                    callee = r
                elif isinstance(r, tuple) and r[0] == "expr" and isinstance(r[2], ast.Call):
                    # f = functools.lru_cache(...)(g)
                    inner = r[2]
                    if inner.args and isinstance(inner.func, ast.Call):
                        r2 = self.idx.resolve_expr(r[1], inner.args[0])
                        if isinstance(r2, FuncInfo):
                            callee = r2
        if callee is not None and depth < 4:
            return self.inline(callee, args, kwargs, fn, chain, depth)
        return None

    def inline(self, callee: FuncInfo, args: list, kwargs: dict, fn: FuncInfo, chain, depth, bound_self: bool = False):
        params = callee.params()
        env: Dict[str, object] = {}
        recvs: Set[str] = set()
        if callee.cls is not None and params:
            recvs = {params[0]}
            params = params[1:]
        for p, a in zip(params, args):
            env[p] = a
        a_ = callee.node.args
        for p in [x.arg for x in a_.args + a_.kwonlyargs]:
            if p in kwargs:
                env[p] = kwargs[p]
        # parameters annotated with the state class are receivers
        for p in a_.posonlyargs + a_.args + a_.kwonlyargs:
            if p.annotation is not None and ast.unparse(p.annotation).strip("'\"").split(".")[-1] == self.cls.name:
                recvs.add(p.arg)
            if isinstance(env.get(p.arg), Tag) and env[p.arg].kind == "state":
                recvs.add(p.arg)
        return self.body(callee, env, recvs, chain + (callee.qualname.split(":")[-1],), depth + 1)

    def body(self, f: FuncInfo, env: Dict[str, object], recvs: Set[str], chain, depth):
        """Walk the statements in order (branches are walked one after the other; a name bound to two different
        abstract values becomes unknown).  Returns the value of the (single-valued) return expression."""
        ret: List[object] = []

        def walk(stmts: List[ast.stmt]) -> None:
            for s in stmts:
                if isinstance(s, ast.Assign) and len(s.targets) == 1:
                    v = self.ev(s.value, env, recvs, f, chain, depth)
                    t = s.targets[0]
                    if isinstance(t, ast.Name):
                        env[t.id] = v
                    elif isinstance(t, (ast.Tuple, ast.List)) and isinstance(v, Tag) and v.kind == "tuple" and v.items is not None \
                            and len(v.items) == len(t.elts):
                        for tt, vv in zip(t.elts, v.items):
                            if isinstance(tt, ast.Name):
                                env[tt.id] = vv
                    elif isinstance(t, (ast.Tuple, ast.List)):
                        for tt in t.elts:
                            if isinstance(tt, ast.Name):
                                env[tt.id] = None
                elif isinstance(s, ast.AnnAssign) and s.value is not None and isinstance(s.target, ast.Name):
                    env[s.target.id] = self.ev(s.value, env, recvs, f, chain, depth)
                elif isinstance(s, ast.AugAssign):
                    self.ev(s.value, env, recvs, f, chain, depth)
                    if isinstance(s.target, ast.Name):
                        env[s.target.id] = None
                elif isinstance(s, ast.Expr):
                    self.ev(s.value, env, recvs, f, chain, depth)
                elif isinstance(s, ast.Return):
                    if s.value is not None:
                        ret.append(self.ev(s.value, env, recvs, f, chain, depth))
                elif isinstance(s, ast.If):
                    self.ev(s.test, env, recvs, f, chain, depth)
                    before = dict(env)
                    walk(s.body)
                    after_body = dict(env)
                    env.clear()
                    env.update(before)
                    walk(s.orelse)
                    for k in set(after_body) | set(env):
                        a, b = after_body.get(k), env.get(k)
                        env[k] = a if repr_of(a) == repr_of(b) else None
                elif isinstance(s, (ast.For, ast.While)):
                    if isinstance(s, ast.For):
                        self.ev(s.iter, env, recvs, f, chain, depth)
                        for n in ast.walk(s.target):
                            if isinstance(n, ast.Name):
                                env[n.id] = None
                    walk(s.body)
                    walk(s.orelse)
                elif isinstance(s, (ast.With,)):
                    walk(s.body)
                elif isinstance(s, ast.Try):
                    walk(s.body)
                    for h in s.handlers:
                        walk(h.body)
                    walk(s.orelse)
                    walk(s.finalbody)
                elif isinstance(s, ast.Raise):
                    pass
                # compare tests inside comprehension / other statements are not evaluated

        walk(list(f.node.body))
        vals = {repr_of(v) for v in ret}
        if len(ret) >= 1 and len(vals) == 1:
            return ret[0]
        return None

    @staticmethod
    def bad(v: Aff):
        if v.coef.get("T", 0) == 1 and v.coef.get("P", 0) not in (0, -1):
            return ("P", "the number of post-selected modes")
        if v.coef.get("C", 0) == 1 and v.coef.get("N", 0) not in (0, -1):
            return ("N", "the number of post-selected photons")
        return None

    def check(self, v: Aff, e: ast.AST, fn: FuncInfo, chain) -> None:
        self.checked += 1
        bad = self.bad(v)
        if bad:
            entry = chain[0] if chain else fn.qualname.split(":")[-1]
            core = Aff({k: c for k, c in v.coef.items() if k in ("T", "P", "C", "N")})
            key = f"{fn.qualname}|{ast.unparse(e)}|{core!r}"
            self.ctx.violation(
                "C05b", key, fn.file, getattr(e, "lineno", fn.line),
                f"`{ast.unparse(e)}` evaluates to {v!r} when reached from {' -> '.join(chain) or entry}: {bad[1]} is "
                f"corrected for {'twice' if v.coef.get(bad[0], 0) < -1 else 'in the wrong direction'} "
                f"(T total modes, P post-selected modes, C cutoff before post-selection, N post-selected photons)",
                construct=ast.unparse(e), path=list(chain),
            )


def repr_of(v: object) -> str:
    if isinstance(v, Tag):
        return f"Tag({v.kind},{[repr_of(x) for x in (v.items or [])]},{sorted((k, repr_of(x)) for k, x in (v.mapping or {}).items())})"
    return repr(v)


def clause_b(ctx: Context) -> None:
    ctx.rule("C05b", "mode counts and cutoffs are affine in (T, P) and (C, N); self.d = T - P and the configured cutoff is "
                     "C - N after _set_postselection; no expression reached from a state interface or a simulation step "
                     "corrects a count for post-selection twice or in the wrong direction")
    idx = get_index(ctx.repo)
    cls = idx.find_class(STATE_MODULE, STATE_CLASS)
    bk = Bookkeeping(ctx, idx, cls)
    ctx.count("C05b configured cutoff is reduced by the post-selected photons in _set_postselection", bk.cutoff_reduced)
    if not bk.keys_acc or not bk.vals_acc:
        raise AnalysisError("anchor vanished: accessors of PassiveState._postselections (keys / values)")
    n = 0
    for f, recvs in dispatchers(idx, cls):
        before = bk.checked
        bk.body(f, {}, set(recvs), (f.qualname.split(":")[-1],), 0)
        if bk.checked > before:
            n += 1
            ctx.instance("C05b", f.qualname, f"{bk.checked - before} count expressions typed", where=f"{ctx.relpath(f.file)}:{f.line}")
    ctx.require_floor("C05b entry functions with typed count expressions", n, 4)
    ctx.require_floor("C05b count expressions typed (with call-site context)", bk.checked, 15)


# ---------------------------------------------------------------------------------------------------------------
# clause (c): probability conservation of the coefficient-extraction kernels (index notation)
# ---------------------------------------------------------------------------------------------------------------
from ..tensoridx import Env, Translator, Untranslatable, normal_form, show, sum_over  # noqa: E402

KERNEL_MODULE = "piquasso._simulators.passive.probabilities"
KERNEL_FUNCTION = "get_lossy_partially_distinguishable_detection_probabilities"


def clause_c(ctx: Context) -> None:
    ctx.rule("C05c", "in the coefficient-extraction formula P(s) = [x^s] Per(B_loss + sum_m x_m B_m) / Z the matrices handed to the "
                     "subset-row-sum precomputation add up, at x = 1, to (Gram matrix) o (identity on the input modes): "
                     "B_loss + sum_m B_m = G o 1 as an identity in index notation - otherwise the probabilities do not sum to one")
    idx = get_index(ctx.repo)
    f = idx.find_function(KERNEL_MODULE, KERNEL_FUNCTION)
    tr = Translator()
    env = Env()
    direct: List[Tuple[ast.AST, Env]] = []
    looped: List[Tuple[ast.AST, Env, str]] = []  # (matrix expr, env, loop variable)
    lists: Dict[str, List[Tuple[ast.AST, Env, str]]] = {}

    def is_pre(call: ast.AST) -> bool:
        return isinstance(call, ast.Call) and (dotted(call.func) or "").split(".")[-1].endswith("subset_row_sums") and len(call.args) >= 1

    def scan_value(v: ast.AST, e: Env) -> None:
        for n in ast.walk(v):
            if is_pre(n):
                arg = n.args[0]
                # inside a comprehension over a list built in a loop?
                comp = None
                for c in ast.walk(v):
                    if isinstance(c, (ast.ListComp, ast.GeneratorExp)) and any(x is n for x in ast.walk(c.elt)):
                        comp = c
                if comp is not None and isinstance(arg, ast.Name) and len(comp.generators) == 1 \
                        and isinstance(comp.generators[0].target, ast.Name) and comp.generators[0].target.id == arg.id \
                        and isinstance(comp.generators[0].iter, ast.Name) and comp.generators[0].iter.id in lists:
                    looped.extend(lists[comp.generators[0].iter.id])
                elif comp is None:
                    direct.append((arg, e.copy()))
                else:
                    raise AnalysisError("C05c: unrecognised way of feeding matrices to the subset-row-sum precomputation")

    def assigned_names(stmts: List[ast.stmt]) -> Set[str]:
        out: Set[str] = set()
        for s in stmts:
            for n in ast.walk(s):
                if isinstance(n, ast.Name) and isinstance(n.ctx, ast.Store):
                    out.add(n.id)
        return out

    for s in f.node.body:
        if isinstance(s, ast.Assign) and len(s.targets) == 1 and isinstance(s.targets[0], ast.Name):
            scan_value(s.value, env)
            if isinstance(s.value, ast.List) and not s.value.elts:
                lists[s.targets[0].id] = []
                continue
            env.defs[s.targets[0].id] = (s.value, env.copy())
        elif isinstance(s, ast.For) and isinstance(s.target, ast.Name):
            local = env.copy()
            for b in s.body:
                if isinstance(b, ast.Assign) and len(b.targets) == 1 and isinstance(b.targets[0], ast.Name):
                    local.defs[b.targets[0].id] = (b.value, local.copy())
                elif isinstance(b, ast.Expr) and isinstance(b.value, ast.Call) and isinstance(b.value.func, ast.Attribute) \
                        and b.value.func.attr == "append" and isinstance(b.value.func.value, ast.Name) \
                        and b.value.func.value.id in lists and len(b.value.args) == 1:
                    lists[b.value.func.value.id].append((b.value.args[0], local.copy(), s.target.id))
            for nme in assigned_names(s.body) | {s.target.id}:
                env.defs.pop(nme, None)
        elif isinstance(s, (ast.If, ast.While, ast.With, ast.Try)):
            for nme in assigned_names([s]):
                env.defs.pop(nme, None)
        elif isinstance(s, ast.Expr):
            scan_value(s.value, env)
    ctx.require_floor("C05c matrices fed to the subset-row-sum precomputation (direct / per output mode)", len(direct) + len(looped), 2)
    if not direct or not looped:
        raise AnalysisError("C05c: expected one constant (loss) matrix and one list of per-mode matrices")
    ix = ("j", "k")
    try:
        total: list = []
        for expr, e in direct:
            total += tr.ev(expr, ix, e)
        for expr, e, var in looped:
            total += sum_over(tr.ev(expr, ix, e), var)
        nf = normal_form(total)
    except Untranslatable as u:
        ctx.error(f"C05c: kernel matrices outside the translatable fragment ({u}); undecided")
        return
    # oracle: exactly one term, coefficient 1: X[j, k] * delta(I[j], I[k]) for one opaque matrix X and one index map I
    ok = False
    if len(nf) == 1:
        (factors, nd), c = next(iter(nf.items()))
        deltas = [fa for fa in factors if fa[0] == "δ"]
        others = [fa for fa in factors if fa[0] != "δ"]
        if c == 1 and nd == 0 and len(deltas) == 1 and len(others) == 1 and others[0][2] == ix and not others[0][1]:
            a, b = deltas[0][2]
            if a.endswith("[j]") and b.endswith("[k]") and a[:-3] == b[:-3]:
                ok = True
    ctx.obligation("C05c", f"{f.qualname}|loss kernel + sum of detection kernels = Gram o identity", ok,
                   where=f"{ctx.relpath(f.file)}:{f.line}", normal_form=show(nf))
    if not ok:
        shape = sorted((str(c), nd, sum(1 for fa in factors if fa[1]), sum(1 for fa in factors if fa[0] == "δ"), len(factors))
                       for (factors, nd), c in nf.items())
        sig = ";".join(f"{c}:{'S' if nd else ''}{nf_}f{nc}c{ndl}d" for c, nd, nc, ndl, nf_ in shape)
        ctx.violation(
            "C05c", f"{f.qualname}|conservation|residual {sig}", f.file, f.line,
            "the loss kernel and the per-mode detection kernels do not add up to (Gram matrix) o (identity on the input modes): "
            f"element [j, k] of their sum is {show(nf)} - the probabilities of this interface do not sum to one and disagree with "
            "the other probability interfaces when T^dagger T has complex off-diagonal entries",
            construct=show(nf),
        )


# ---------------------------------------------------------------------------------------------------------------
# clause (d): index space of mode tuples (active positions vs original mode labels)
# ---------------------------------------------------------------------------------------------------------------
ACTIVE, ORIGINAL = "active", "original"


def _param_kinds(cls: ClassInfo) -> Dict[Tuple[str, str], str]:
    """(method, parameter) -> index space, inferred from how the parameter is used:
    ACTIVE   it indexes the tuple of active modes (`np.array(self._get_active_modes())[modes,]`) or is handed to an ACTIVE parameter
    ORIGINAL it is combined (set operation, concatenation, membership) with the post-selected modes - the keys of
             `_postselections`, which `_set_postselection` stores as original labels - or handed to an ORIGINAL parameter."""
    kinds: Dict[Tuple[str, str], str] = {}
    originals = {"_get_postselected_modes", "_postselections"}
    changed = True
    while changed:
        changed = False
        for name, f in cls.methods.items():
            params = [p for p in f.params()[1:]]
            if not params:
                continue
            me = f.params()[0]
            # locals bound to ORIGINAL sources
            orig_names: Set[str] = set()
            for n in ast.walk(f.node):
                if isinstance(n, ast.Assign) and len(n.targets) == 1 and isinstance(n.targets[0], ast.Name):
                    if any(isinstance(x, ast.Attribute) and x.attr in originals for x in ast.walk(n.value)):
                        orig_names.add(n.targets[0].id)
            for p in params:
                if (name, p) in kinds:
                    continue
                k = None
                for n in ast.walk(f.node):
                    # X[..p..] with X derived from _get_active_modes()
                    if isinstance(n, ast.Subscript) and any(isinstance(x, ast.Name) and x.id == p for x in ast.walk(n.slice)) \
                            and any(isinstance(x, ast.Attribute) and x.attr == "_get_active_modes" for x in ast.walk(n.value)):
                        k = ACTIVE
                    # set(p).intersection(set(orig)) / orig + p / p in orig
                    if isinstance(n, (ast.Call, ast.BinOp, ast.Compare)):
                        names = {x.id for x in ast.walk(n) if isinstance(x, ast.Name)}
                        attrs = {x.attr for x in ast.walk(n) if isinstance(x, ast.Attribute)}
                        is_comb = (isinstance(n, ast.Call) and isinstance(n.func, ast.Attribute) and n.func.attr in ("intersection", "union", "difference", "isdisjoint", "issubset")) \
                            or (isinstance(n, ast.BinOp) and isinstance(n.op, ast.Add)) or (isinstance(n, ast.Compare) and any(isinstance(o, (ast.In, ast.NotIn)) for o in n.ops))
                        if is_comb and p in names and (names & orig_names or attrs & originals):
                            k = ORIGINAL
                    # handed to another method of the class whose parameter kind is known
                    if isinstance(n, ast.Call) and isinstance(n.func, ast.Attribute) and isinstance(n.func.value, ast.Name):
                        # any receiver: a copy of the state made in the method is an object of the same class
                        callee = cls.find_method(n.func.attr)
                        if callee is not None:
                            cps = callee.params()[1:]
                            for i, a in enumerate(n.args):
                                if isinstance(a, ast.Name) and a.id == p and i < len(cps) and (callee.name, cps[i]) in kinds:
                                    k = kinds[(callee.name, cps[i])]
                            for kw in n.keywords:
                                if isinstance(kw.value, ast.Name) and kw.value.id == p and (callee.name, kw.arg) in kinds:
                                    k = kinds[(callee.name, kw.arg)]
                if k is not None:
                    kinds[(name, p)] = k
                    changed = True
    return kinds


def clause_d(ctx: Context) -> None:
    ctx.rule("C05d", "mode tuples live in one of two index spaces - positions among the still-active modes (instruction.modes as the simulator "
                     "hands them to a step) or original mode labels (keys of the post-selection dict, arguments of the probability algorithms); "
                     "a step hands each state method the space its parameter is used in, converting with map_to_original_modes where needed")
    idx = get_index(ctx.repo)
    cls = idx.find_class(STATE_MODULE, STATE_CLASS)
    kinds = _param_kinds(cls)
    ctx.count("C05d state-method parameters with an inferred index space", {f"{m}.{p}": k for (m, p), k in sorted(kinds.items())})
    ctx.require_floor("C05d state-method parameters with an inferred index space (count)", len(kinds), 3)
    n_calls = 0
    for f, recvs in dispatchers(idx, cls):
        if f.cls is not None:
            continue
        # tags of locals in the step
        tags: Dict[str, str] = {}
        for s in ast.walk(f.node):
            if isinstance(s, ast.Assign) and len(s.targets) == 1 and isinstance(s.targets[0], ast.Name):
                v = s.value
                if isinstance(v, ast.Attribute) and v.attr == "modes" and isinstance(v.value, ast.Name) and v.value.id not in recvs:
                    tags[s.targets[0].id] = ACTIVE
                elif isinstance(v, ast.Call) and (dotted(v.func) or "").split(".")[-1] == "map_to_original_modes":
                    tags[s.targets[0].id] = ORIGINAL

        def tag_of(e: ast.AST) -> Optional[str]:
            if isinstance(e, ast.Name):
                return tags.get(e.id)
            if isinstance(e, ast.Attribute) and e.attr == "modes" and isinstance(e.value, ast.Name) and e.value.id not in recvs:
                return ACTIVE
            if isinstance(e, ast.Call):
                nm = (dotted(e.func) or "").split(".")[-1]
                if nm == "map_to_original_modes":
                    return ORIGINAL
                if nm in ("tuple", "list", "array", "asarray") and e.args:
                    return tag_of(e.args[0])
            return None

        for c in ast.walk(f.node):
            if isinstance(c, ast.Call) and (dotted(c.func) or "").split(".")[-1] == "map_to_original_modes" and c.args:
                n_calls += 1
                t = tag_of(c.args[0])
                if t == ORIGINAL:
                    ctx.violation("C05d", f"{f.qualname}|conversion applied twice|{ast.unparse(c)[:60]}", f.file, c.lineno,
                                  "map_to_original_modes is applied to a tuple that already holds original mode labels", ast.unparse(c)[:120])
            if isinstance(c, ast.Call) and isinstance(c.func, ast.Attribute) and isinstance(c.func.value, ast.Name) and c.func.value.id in recvs:
                m = cls.find_method(c.func.attr)
                if m is None:
                    continue
                cps = m.params()[1:]
                pairs = [(cps[i], a) for i, a in enumerate(c.args) if i < len(cps)] + [(k.arg, k.value) for k in c.keywords if k.arg]
                for pname, a in pairs:
                    want = kinds.get((m.name, pname))
                    got = tag_of(a)
                    if want is None or got is None:
                        continue
                    n_calls += 1
                    ok = want == got
                    key = f"{f.qualname}|{m.name}({pname}=...)|{ast.unparse(a)[:50]}"
                    ctx.obligation("C05d", key, ok, f"{ctx.relpath(f.file)}:{c.lineno}", parameter_space=want, argument_space=got)
                    if not ok:
                        ctx.violation("C05d", key, f.file, c.lineno,
                                      f"{f.name} hands {m.name} the {got}-space tuple `{ast.unparse(a)[:50]}`, but `{pname}` is used there as {want} mode "
                                      f"labels (combined with the post-selected modes): after an earlier measurement or post-selection the wrong modes "
                                      f"are addressed, or a valid program is refused", ast.unparse(c)[:140])
    ctx.require_floor("C05d calls from simulation steps into state methods with a typed mode argument", n_calls, 3)


# ---------------------------------------------------------------------------------------------------------------
# clause (e): carried cursors; clause (f): who may write the effective interferometer
# ---------------------------------------------------------------------------------------------------------------
def clause_e(ctx: Context) -> None:
    """A loop that walks consecutive blocks with a cursor (`stop = start + n; ...; start = stop`) must advance the cursor on every
    path through its body: a `continue` before the advance makes every later block start at a stale offset."""
    ctx.rule("C05e", "a cursor carried from one loop iteration to the next (read before it is re-assigned in the body) is advanced on every "
                     "path through the body: no `continue` precedes its assignment")
    idx = get_index(ctx.repo)
    n = 0
    for mname, m in sorted(idx.modules.items()):
        if not (mname.startswith(PACKAGE) or mname.startswith("piquasso._math")):
            continue
        for fn in list(m.functions.values()) + [f for c in m.classes.values() for f in c.methods.values()]:
            for loop in ast.walk(fn.node):
                if not isinstance(loop, (ast.For, ast.While)):
                    continue
                body = loop.body
                # cursors: names assigned at the top level of the body from another local, and read earlier in the same body
                for i, st in enumerate(body):
                    if not (isinstance(st, ast.Assign) and len(st.targets) == 1 and isinstance(st.targets[0], ast.Name)):
                        if isinstance(st, ast.AugAssign) and isinstance(st.target, ast.Name):
                            cur, val = st.target.id, st.value
                        else:
                            continue
                    else:
                        cur, val = st.targets[0].id, st.value
                    loop_targets = {x.id for x in ast.walk(loop.target) if isinstance(x, ast.Name)} if isinstance(loop, ast.For) else set()
                    if cur in loop_targets:
                        continue
                    read_before = any(isinstance(x, ast.Name) and x.id == cur and isinstance(x.ctx, ast.Load)
                                      for s_ in body[:i] for x in ast.walk(s_))
                    assigned_before = any(isinstance(x, ast.Name) and x.id == cur and isinstance(x.ctx, ast.Store)
                                          for s_ in body[:i] for x in ast.walk(s_))
                    # the value advances the cursor by something computed in this iteration (`start = stop`, `cur += n`)
                    advances = isinstance(st, ast.AugAssign) or (isinstance(val, ast.Name) and any(
                        isinstance(a, ast.Assign) and len(a.targets) == 1 and isinstance(a.targets[0], ast.Name) and a.targets[0].id == val.id
                        and any(isinstance(x, ast.Name) and x.id == cur for x in ast.walk(a.value)) for a in body[:i]))
                    if not (read_before and not assigned_before and advances):
                        continue
                    # is the cursor also used as a slice bound / index in the body (a position, not a plain accumulator)?
                    positional = any(isinstance(x, ast.Slice) and any(isinstance(y, ast.Name) and y.id == cur for y in ast.walk(x))
                                     for s_ in body for x in ast.walk(s_))
                    if not positional:
                        continue
                    n += 1
                    skips = [c for s_ in body[:i] for c in ast.walk(s_) if isinstance(c, ast.Continue)
                             and not any(isinstance(p_, (ast.For, ast.While)) and any(c is y for y in ast.walk(p_)) for p_ in ast.walk(s_) if p_ is not loop)]
                    key = f"{fn.qualname}|cursor {cur}"
                    ctx.obligation("C05e", key, not skips, f"{ctx.relpath(fn.file)}:{st.lineno}")
                    if skips:
                        ctx.violation("C05e", key, fn.file, skips[0].lineno,
                                      f"the cursor `{cur}` marks the start of the next block (`{ast.unparse(st)}` at the end of the loop body), but a `continue` "
                                      f"before it skips the advance: every block after a skipped element is read from a stale offset",
                                      ast.unparse(skips[0]))
    ctx.require_floor("C05e loops with a carried positional cursor", n, 1)


def clause_f(ctx: Context) -> None:
    """The effective interferometer is indexed by original mode labels, while a simulation step receives positions among the active
    modes.  `_apply_matrix_on_modes` is the one place that converts; a step that writes `state.interferometer` itself (for
    instance a shortcut for "all modes") acts on the rows of already post-selected modes too."""
    ctx.rule("C05f", "only the state's own initialiser and `_apply_matrix_on_modes` assign `interferometer`; simulation steps go through the latter")
    idx = get_index(ctx.repo)
    allowed = {"_reset_state", "__init__", "_apply_matrix_on_modes"}
    n = 0
    for mname, m in sorted(idx.modules.items()):
        if not mname.startswith(PACKAGE):
            continue
        for fn in list(m.functions.values()) + [f for c in m.classes.values() for f in c.methods.values()]:
            for a in ast.walk(fn.node):
                tgts = a.targets if isinstance(a, ast.Assign) else ([a.target] if isinstance(a, (ast.AugAssign, ast.AnnAssign)) else [])
                for t in tgts:
                    base = t
                    while isinstance(base, ast.Subscript):
                        base = base.value
                    if isinstance(base, ast.Attribute) and base.attr == CORE_FIELD:
                        n += 1
                        ok = fn.name in allowed
                        key = f"{fn.qualname}|writes {CORE_FIELD}"
                        ctx.obligation("C05f", key, ok, f"{ctx.relpath(fn.file)}:{a.lineno}")
                        if not ok:
                            ctx.violation("C05f", key, fn.file, a.lineno,
                                          f"{fn.name} assigns `{ast.unparse(t)}` itself instead of going through _apply_matrix_on_modes, which maps the "
                                          f"positions among the active modes to original mode labels: with post-selected modes present the rows of "
                                          f"those modes are transformed too", ast.unparse(a)[:120])
    ctx.require_floor("C05f assignments of the effective interferometer", n, 2)


def clause_g(ctx: Context) -> None:
    """Pairing of the Gram matrix with the amplitudes in the general partial-distinguishability kernel.  For the documented convention
    G[i, j] = <phi_i|phi_j>, the term  amplitude(i) * conj(amplitude(j))  carries the overlap <phi_j|phi_i> = conj(G[i, j]) (= G^T[i, j]):
    `G' * outer(v, conj(v))` needs G' = conj(G) or G^T, `G' * outer(conj(v), v)` needs G' = G.  With two photons only |G[i, j]|^2 enters;
    from three photons on a wrong pairing gives the statistics of the complex-conjugate internal states."""
    ctx.rule("C05g", "in the general Gram-matrix kernel the overlap matrix is paired with the amplitudes as <phi_j|phi_i> for amplitude(i) conj(amplitude(j)): "
                     "outer(v, conj(v)) goes with conj(G) / G^T, outer(conj(v), v) with G")
    idx = get_index(ctx.repo)
    fn = idx.find_function("piquasso._simulators.passive.probabilities", "get_lossy_partially_distinguishable_detection_probabilities")
    params = fn.params()
    defs: Dict[str, List[ast.AST]] = {}
    for a in ast.walk(fn.node):
        if isinstance(a, ast.Assign) and len(a.targets) == 1 and isinstance(a.targets[0], ast.Name):
            defs.setdefault(a.targets[0].id, []).append(a.value)

    def conj_state(e: ast.AST, depth: int = 0) -> Optional[bool]:
        """True: conjugated / transposed overlap parameter; False: the plain parameter; None: something else (e.g. the scalar form)"""
        if isinstance(e, ast.Name) and e.id in params:
            return False
        if isinstance(e, ast.Call) and (dotted(e.func) or "").split(".")[-1] in ("conj", "conjugate", "transpose") and e.args:
            r = conj_state(e.args[0], depth)
            return None if r is None else not r
        if isinstance(e, ast.Call) and isinstance(e.func, ast.Attribute) and e.func.attr in ("conj", "conjugate", "transpose") and not e.args:
            r = conj_state(e.func.value, depth)
            return None if r is None else not r
        if isinstance(e, ast.Attribute) and e.attr == "T":
            r = conj_state(e.value, depth)
            return None if r is None else not r
        if isinstance(e, ast.Name) and e.id in defs and depth < 4:
            rs = {conj_state(d_, depth + 1) for d_ in defs[e.id]} - {None}
            return next(iter(rs)) if len(rs) == 1 else None
        return None

    def is_conj(e: ast.AST) -> bool:
        return (isinstance(e, ast.Call) and (dotted(e.func) or "").split(".")[-1] in ("conj", "conjugate")) or \
               (isinstance(e, ast.Call) and isinstance(e.func, ast.Attribute) and e.func.attr in ("conj", "conjugate") and not e.args)

    n = 0
    for b in ast.walk(fn.node):
        if not (isinstance(b, ast.BinOp) and isinstance(b.op, ast.Mult)):
            continue
        for g_, o_ in ((b.left, b.right), (b.right, b.left)):
            if isinstance(o_, ast.Call) and (dotted(o_.func) or "").split(".")[-1] == "outer" and len(o_.args) == 2:
                gs = conj_state(g_)
                if gs is None:
                    continue
                first_conj, second_conj = is_conj(o_.args[0]), is_conj(o_.args[1])
                if first_conj == second_conj:
                    ctx.error(f"C05g: `{norm(o_)[:60]}` is not an outer product of a vector with its conjugate (undecided)")
                    continue
                n += 1
                want_conj = second_conj      # outer(v, conj(v)): amplitude(i) conj(amplitude(j))  ->  conj(G)
                ok = gs == want_conj
                key = f"{fn.qualname}|{norm(b)[:50]}"
                ctx.obligation("C05g", key, ok, f"{ctx.relpath(fn.file)}:{b.lineno}")
                if not ok:
                    ctx.violation("C05g", key, fn.file, b.lineno,
                                  f"`{norm(b)[:80]}` pairs amplitude(i) {'conj(amplitude(j))' if second_conj else ''} with "
                                  f"{'the plain' if not gs else 'the conjugated'} overlap matrix: for G[i, j] = <phi_i|phi_j> this term carries "
                                  f"{'conj(G[i, j])' if want_conj else 'G[i, j]'}; with three or more photons whose internal states have a non-trivial "
                                  f"triad phase the probabilities are those of the complex-conjugate internal states", norm(b)[:100])
    ctx.require_floor("C05g products of the overlap matrix with an outer product of amplitudes", n, 1)
