"""C06 — Fock-basis enumeration and index functions are mutually inverse: three structural necessary clauses.

 (a) twin agreement: the vectorised index functions are the scalar ones applied along the last axis
     (`get_index_in_fock_space[_array]`, `get_index_in_fock_subspace[_array]`), and the array dimension functions
     evaluate the scalar formula elementwise; compared as normalised syntax trees
 (b) the enumeration writes exactly the rows it allocates: `nb_get_fock_space_basis` allocates
     `cutoff_fock_space_dim(cutoff, d)` rows and fills one slice of `symmetric_subspace_cardinality(d, n)` rows per
     particle number n < cutoff, contiguously; the sum of the slice lengths equals the allocation for all d >= 1,
     cutoff >= 0 (induction on the cutoff, both steps decided by sympy on binomials)
 (c) the full index is the sector offset plus the index within the sector: the bosonic index function is the
     subspace index function plus one more iteration whose term is the dimension formula at cutoff = total particle
     number; the fermionic one adds `get_cutoff_fock_space_dimension(d, n)` = sum of the sector sizes below n
That the ranking formulas are the inverse of the enumeration order is an arithmetic fact about all occupation vectors
and is not decided.
"""

from __future__ import annotations

import ast
import copy
from typing import Dict, List, Optional, Tuple

import sympy as sp

from ..index import FuncInfo, get_index, dotted, norm
from ..report import Context, AnalysisError

LEVEL = "other"
IND = "piquasso._math.indices"
FOCK = "piquasso._math.fock"
FERM = "piquasso.fermionic._utils"


def _body(fn: FuncInfo) -> List[ast.stmt]:
    b = list(fn.node.body)
    if b and isinstance(b[0], ast.Expr) and isinstance(b[0].value, ast.Constant) and isinstance(b[0].value.value, str):
        b = b[1:]
    return b


class _ArrayToScalar(ast.NodeTransformer):
    """basis[..., k] -> element[k];  basis.shape[-1] -> len(element);  np.zeros(shape=basis.shape[:-1], ...) -> 0;  arr_comb -> comb"""

    def __init__(self, arr: str, scalar: str):
        self.arr, self.scalar = arr, scalar

    def visit_Subscript(self, n: ast.Subscript):
        n = self.generic_visit(n)
        if isinstance(n.value, ast.Name) and n.value.id == self.arr and isinstance(n.slice, ast.Tuple) and len(n.slice.elts) == 2 \
                and isinstance(n.slice.elts[0], ast.Constant) and n.slice.elts[0].value is Ellipsis:
            return ast.Subscript(value=ast.Name(id=self.scalar, ctx=ast.Load()), slice=n.slice.elts[1], ctx=n.ctx)
        # basis.shape[-1]
        if isinstance(n.value, ast.Attribute) and n.value.attr == "shape" and isinstance(n.value.value, ast.Name) and n.value.value.id == self.arr \
                and norm(n.slice) == "-1":
            return ast.Call(func=ast.Name(id="len", ctx=ast.Load()), args=[ast.Name(id=self.scalar, ctx=ast.Load())], keywords=[])
        return n

    def visit_Call(self, n: ast.Call):
        n = self.generic_visit(n)
        name = dotted(n.func) or ""
        if name.split(".")[-1] == "zeros" and any(k.arg == "shape" and norm(k.value) == f"{self.arr}.shape[:-1]" for k in n.keywords):
            return ast.Constant(value=0)
        if isinstance(n.func, ast.Name) and n.func.id == "arr_comb":
            n.func = ast.Name(id="comb", ctx=ast.Load())
        return n


def _shape(stmts: List[ast.stmt]):
    """Statement kinds and assignment targets, recursively (expressions on the right-hand sides are not part of the shape)."""
    out = []
    for s in stmts:
        if isinstance(s, ast.For):
            out.append(("For", norm(s.target), _shape(s.body)))
        elif isinstance(s, ast.If):
            out.append(("If", _shape(s.body), _shape(s.orelse)))
        elif isinstance(s, ast.Assign):
            out.append(("Assign", tuple(norm(t) for t in s.targets)))
        elif isinstance(s, ast.AugAssign):
            out.append(("AugAssign", norm(s.target), type(s.op).__name__))
        else:
            out.append((type(s).__name__,))
    return out


def _dump(stmts: List[ast.stmt]) -> List[str]:
    return [ast.dump(s, annotate_fields=False, include_attributes=False) for s in stmts]


def _binom(fn: FuncInfo, subs: Dict[str, sp.Expr]) -> sp.Expr:
    """`return comb(a, b)` as sympy binomial."""
    rets = [s for s in _body(fn) if isinstance(s, ast.Return)]
    if len(rets) != 1 or not (isinstance(rets[0].value, ast.Call) and (dotted(rets[0].value.func) or "").split(".")[-1] == "comb" and len(rets[0].value.args) == 2):
        raise AnalysisError(f"C06: {fn.qualname} is not `return comb(a, b)` (undecided)")
    return sp.binomial(_arith(rets[0].value.args[0], subs), _arith(rets[0].value.args[1], subs))


def _arith(e: ast.AST, subs: Dict[str, sp.Expr]) -> sp.Expr:
    if isinstance(e, ast.Constant) and isinstance(e.value, int):
        return sp.Integer(e.value)
    if isinstance(e, ast.Name) and e.id in subs:
        return subs[e.id]
    if isinstance(e, ast.BinOp) and isinstance(e.op, (ast.Add, ast.Sub, ast.Mult)):
        a, b = _arith(e.left, subs), _arith(e.right, subs)
        return a + b if isinstance(e.op, ast.Add) else (a - b if isinstance(e.op, ast.Sub) else a * b)
    if isinstance(e, ast.UnaryOp) and isinstance(e.op, ast.USub):
        return -_arith(e.operand, subs)
    raise AnalysisError(f"C06: `{norm(e)}` is outside the integer-arithmetic fragment (undecided)")


def run(ctx: Context) -> None:
    idx = get_index(ctx.repo)
    ctx.explanation = (
        "Three structural clauses decided from source: the vectorised index and dimension functions are the scalar ones "
        "(normalised syntax trees of the twins are compared); the basis enumeration fills exactly the rows it allocates "
        "(the sector sizes sum to the dimension formula, by induction on the cutoff with sympy deciding both steps); the "
        "full index is the sector offset plus the index within the sector. That the ranking formula inverts the "
        "enumeration order for every occupation vector is arithmetic over runtime values and is not decided."
        " Further clauses: literal integer dtypes of the vectorised accumulators; loop invariant of the binomial accumulators (sympy)."
    )
    ctx.trusted_base = ["python ast", "sympy's simplification of binomial identities", "the normalisation map array->scalar listed in the rule"]
    ctx.rule("C06a", "each vectorised index / dimension function is its scalar twin applied elementwise (normalised syntax trees equal)")
    ctx.rule("C06b", "nb_get_fock_space_basis fills contiguous slices whose lengths sum to the allocated number of rows, for all d >= 1 and cutoff >= 0")
    ctx.rule("C06c", "full index = sector offset + index within the sector (bosonic: one more iteration of the subspace loop whose term is the dimension formula; fermionic: dimension below n plus subspace index)")
    mi, mf, me = idx.module(IND), idx.module(FOCK), idx.module(FERM)
    clause_e(ctx, idx)

    def need(m, name) -> FuncInfo:
        f = m.functions.get(name)
        if f is None:
            raise AnalysisError(f"anchor vanished: {m.name}:{name}")
        return f

    # ---------------- (a) twins ------------------------------------------------------------------------------------------------
    n_twins = 0
    for scalar, array in (("get_index_in_fock_space", "get_index_in_fock_space_array"), ("get_index_in_fock_subspace", "get_index_in_fock_subspace_array")):
        fs, fa = need(mi, scalar), need(mi, array)
        ps, pa = fs.params()[0], fa.params()[0]
        tb = [_ArrayToScalar(pa, ps).visit(copy.deepcopy(s)) for s in _body(fa)]
        for s in tb:
            ast.fix_missing_locations(s)
        ds, da = _dump(_body(fs)), _dump(tb)
        ok = ds == da
        n_twins += 1
        key = f"{IND}:{array}|twin-of-{scalar}"
        if not ok and _shape(_body(fs)) != _shape(tb):
            # a twin that was rewritten with a different statement structure (another algorithm) cannot be compared
            # syntactically: undecided, not a violation
            raise AnalysisError(f"C06a: {array} and {scalar} no longer have the same statement structure; the twin comparison cannot decide "
                                f"whether they agree (undecided)")
        ctx.obligation("C06a", key, ok, f"{ctx.relpath(fa.file)}:{fa.line}")
        if not ok:
            i = next((k for k in range(min(len(ds), len(da))) if ds[k] != da[k]), min(len(ds), len(da)))
            s_txt = norm(_body(fs)[i]) if i < len(ds) else "<end>"
            a_txt = norm(_body(fa)[i]) if i < len(da) else "<end>"
            ctx.violation("C06a", key, fa.file, (_body(fa)[i].lineno if i < len(da) else fa.line),
                          f"{array} is not {scalar} applied along the last axis: statement {i + 1} is `{a_txt[:70]}` where the scalar version has "
                          f"`{s_txt[:70]}`; at most one of the two can agree with the enumeration", a_txt[:90])
    # (d) the accumulators of the vectorised index have a fixed integer dtype of at least 32 bits: the scalar twin computes
    #     with Python integers, so the width of the index must not depend on how the occupation numbers happen to be stored
    ctx.rule("C06d", "the accumulators of the vectorised index functions are allocated with a literal integer dtype of at least 32 bits "
                     "(np.int32 / np.int64 / np.intp / int), never with a dtype taken from the argument")
    WIDE = {"np.int32", "np.int64", "np.intp", "int", "np.int_", "np.uint32", "np.uint64", "numpy.int32", "numpy.int64"}
    n_alloc = 0
    for array in ("get_index_in_fock_space_array", "get_index_in_fock_subspace_array"):
        fa = need(mi, array)
        for n in ast.walk(fa.node):
            if isinstance(n, ast.Call) and (dotted(n.func) or "").split(".")[-1] in ("zeros", "empty", "zeros_like", "empty_like", "full"):
                n_alloc += 1
                dt = next((k.value for k in n.keywords if k.arg == "dtype"), None)
                txt = norm(dt) if dt is not None else "<default>"
                like = (dotted(n.func) or "").endswith("_like") and dt is None
                ok = (dt is not None and txt in WIDE)
                key = f"{IND}:{array}|accumulator dtype|{norm(n)[:60]}"
                ctx.obligation("C06d", key, ok, f"{ctx.relpath(fa.file)}:{n.lineno}", dtype=txt)
                if not ok:
                    ctx.violation("C06d", key, fa.file, n.lineno,
                                  f"the index accumulator is allocated with dtype `{txt}`{' (the dtype of the argument)' if like or 'dtype' in txt else ''}: "
                                  "for occupation numbers stored in a narrow integer type the positions wrap around (position 128 of an int8 basis "
                                  "comes back as -128), while the scalar twin computes with Python integers", norm(n)[:100])
    ctx.require_floor("C06d accumulator allocations in the vectorised index functions", n_alloc, 4)
    # dimension twins: the array versions evaluate the scalar formula elementwise
    for m, scalar, array in ((mf, "cutoff_fock_space_dim", "cutoff_fock_space_dim_array"), (me, "get_cutoff_fock_space_dimension", "cutoff_fock_space_dim_array")):
        fs, fa = need(m, scalar), need(m, array)
        n_twins += 1
        key = f"{m.name}:{array}|elementwise-{scalar}"
        stores = [s for s in ast.walk(fa.node) if isinstance(s, ast.Assign) and isinstance(s.targets[0], ast.Subscript)]
        ok = False
        detail = "no element store found"
        if len(stores) == 1:
            v = stores[0].value
            cut_p = fa.params()[0]
            elem = f"{cut_p}[{norm(stores[0].targets[0].slice)}]"
            if isinstance(v, ast.Call) and isinstance(v.func, ast.Name) and v.func.id == scalar:
                # the scalar function called with (d, cutoff[i]) in its own parameter order
                sp_params = fs.params()
                bound = {}
                for p_, a_ in zip(sp_params, v.args):
                    bound[p_] = norm(a_)
                for k_ in v.keywords:
                    bound[k_.arg] = norm(k_.value)
                ok = sorted(bound.values()) == sorted([elem, "d"]) and bound.get("d") == "d"
                detail = f"calls {scalar}({bound})"
            else:
                # inlined formula: must be the scalar's return expression with cutoff -> cutoff[i]
                rets = [s for s in _body(fs) if isinstance(s, ast.Return)]
                if len(rets) == 1:
                    want = norm(rets[0].value).replace(fs.params()[0], elem) if fs.params()[0] != "d" else None
                    ok = want is not None and norm(v) == want
                    detail = f"stores `{norm(v)}`, scalar formula with the element substituted is `{want}`"
        ctx.obligation("C06a", key, ok, f"{ctx.relpath(fa.file)}:{fa.line}", detail=detail)
        if not ok:
            ctx.violation("C06a", key, fa.file, fa.line,
                          f"{array} does not evaluate {scalar} elementwise ({detail}): the vectorised and the scalar dimension disagree", detail[:120])
    ctx.require_floor("scalar/vectorised twins compared", n_twins, 4)

    # ---------------- (b) rows written = rows allocated ----------------------------------------------------------------------------
    d = sp.Symbol("d", integer=True, positive=True)
    c = sp.Symbol("c", integer=True, nonnegative=True)
    gb = need(mf, "nb_get_fock_space_basis")
    dim_f, card_f = need(mf, "cutoff_fock_space_dim"), need(mf, "symmetric_subspace_cardinality")
    body = _body(gb)
    cur = None
    loop = None
    # locals bound exactly once are read through their definition, so that the reader does not depend on which sub-expression has a name
    once: Dict[str, ast.AST] = {}
    counts: Dict[str, int] = {}
    for n_ in ast.walk(gb.node):
        if isinstance(n_, ast.Name) and isinstance(n_.ctx, ast.Store):
            counts[n_.id] = counts.get(n_.id, 0) + 1
    for n_ in ast.walk(gb.node):
        if isinstance(n_, ast.Assign) and len(n_.targets) == 1 and isinstance(n_.targets[0], ast.Name) and counts.get(n_.targets[0].id) == 1:
            once[n_.targets[0].id] = n_.value

    def resolve(e: ast.AST) -> ast.AST:
        seen_ = set()
        while isinstance(e, ast.Name) and e.id in once and e.id not in seen_:
            seen_.add(e.id)
            e = once[e.id]
        return e

    def is_call_to(e: ast.AST, f) -> bool:
        e = resolve(e)
        return isinstance(e, ast.Call) and isinstance(e.func, ast.Name) and e.func.id == f.name

    for s in body:
        if isinstance(s, ast.For):
            loop = s
    alloc_name = None
    for s in body:
        if isinstance(s, ast.Assign) and isinstance(s.value, ast.Call) and (dotted(s.value.func) or "").endswith("empty") \
                and s.value.args and isinstance(s.value.args[0], ast.Tuple) and is_call_to(s.value.args[0].elts[0], dim_f) \
                and isinstance(s.targets[0], ast.Name):
            alloc_name = s.targets[0].id
    if loop is None or alloc_name is None:
        raise AnalysisError("C06b: nb_get_fock_space_basis no longer allocates `cutoff_fock_space_dim(...)` rows and fills them in a loop (undecided)")
    if not (isinstance(loop.iter, ast.Call) and dotted(loop.iter.func) == "range" and len(loop.iter.args) == 1 and norm(loop.iter.args[0]) == "cutoff"):
        raise AnalysisError("C06b: the sector loop is not `for n in range(cutoff)` (undecided)")
    nvar = norm(loop.target)
    card_call = None
    contiguous = False
    advanced = False
    for s in loop.body:
        for sub_ in ast.walk(s):
            if isinstance(sub_, ast.Subscript) and isinstance(sub_.value, ast.Name) and sub_.value.id == alloc_name and isinstance(sub_.slice, ast.Tuple) \
                    and isinstance(sub_.slice.elts[0], ast.Slice):
                sl = sub_.slice.elts[0]
                cur = norm(sl.lower) if sl.lower is not None else None
                up = sl.upper
                if cur is not None and isinstance(up, ast.BinOp) and isinstance(up.op, ast.Add) and norm(up.left) == cur and is_call_to(up.right, card_f):
                    contiguous = True
                    card_call = resolve(up.right)
    for s in loop.body:
        if isinstance(s, ast.AugAssign) and isinstance(s.op, ast.Add) and cur is not None and norm(s.target) == cur and card_call is not None \
                and is_call_to(s.value, card_f) and norm(resolve(s.value)) == norm(card_call):
            advanced = True
    init_zero = any(isinstance(s, ast.Assign) and cur is not None and norm(s.targets[0]) == cur and isinstance(s.value, ast.Constant) and s.value.value == 0 for s in body)
    key = f"{FOCK}:nb_get_fock_space_basis|slices-contiguous-from-0"
    ok = bool(contiguous and advanced and init_zero and card_call is not None)
    ctx.obligation("C06b", key, ok, f"{ctx.relpath(gb.file)}:{loop.lineno}")
    if not ok:
        ctx.violation("C06b", key, gb.file, loop.lineno,
                      "the sectors are not written to contiguous slices `ret[current : current + num_rows]` starting at 0 and advanced by num_rows: "
                      "rows are overwritten or left uninitialised", norm(loop).split("\n")[0])
    else:
        # bind the call's arguments to the cardinality function's parameters
        cp = card_f.params()
        amap = {}
        for p_, a_ in zip(cp, card_call.args):
            amap[p_] = a_
        for k_ in card_call.keywords:
            amap[k_.arg] = k_.value
        sub_card = {}
        for p_, a_ in amap.items():
            sub_card[p_] = c if norm(a_) == nvar else (d if norm(a_) == "d" else None)
        if None in sub_card.values() or set(sub_card) != set(cp):
            raise AnalysisError("C06b: cannot bind the arguments of symmetric_subspace_cardinality in the sector loop (undecided)")
        card = _binom(card_f, sub_card)
        size = lambda cv: _binom(dim_f, {"cutoff": cv, "d": d})  # noqa: E731
        base = sp.simplify(size(sp.Integer(0)))
        step = sp.simplify(size(c + 1) - size(c) - card)
        okb = base == 0 and step == 0
        keyb = f"{FOCK}:nb_get_fock_space_basis|sum-of-sector-sizes == allocation"
        ctx.obligation("C06b", keyb, okb, f"{ctx.relpath(gb.file)}:{gb.line}", base=str(base), step=str(step), allocation=str(size(c)), sector=str(card))
        if not okb:
            ctx.violation("C06b", keyb, gb.file, gb.line,
                          f"the enumeration allocates {size(c)} rows but writes sum over n < c of {card} rows: allocation at cutoff 0 is {base} "
                          f"(must be 0) and allocation(c+1) - allocation(c) - sector(c) = {step} (must be 0); the basis has uninitialised or "
                          f"missing rows for some (d, cutoff)", f"{size(c)} vs sum {card}")

    # ---------------- (c) full index = sector offset + index within the sector ----------------------------------------------------------
    full, sub = need(mi, "get_index_in_fock_space"), need(mi, "get_index_in_fock_subspace")
    bf, bs = _body(full), _body(sub)
    lf = next((s for s in bf if isinstance(s, ast.For)), None)
    ls = next((s for s in bs if isinstance(s, ast.For)), None)
    keyc = f"{IND}:get_index_in_fock_space|sector-offset-plus-subspace-index"
    okc = False
    why = "loops not found"
    if lf is not None and ls is not None:
        el = full.params()[0]
        same_body = _dump(lf.body) == _dump([_Rename(sub.params()[0], el).visit(copy.deepcopy(s)) for s in ls.body])
        bound_f, bound_s = norm(lf.iter), norm(ls.iter).replace(sub.params()[0], el)
        one_more = bound_f == f"range(len({el}))" and bound_s == f"range(len({el}) - 1)"
        # the extra iteration i = d - 1 adds comb(sum_ + i, i + 1) with sum_ = total particle number n
        term = None
        for s in lf.body:
            if isinstance(s, ast.AugAssign) and isinstance(s.value, ast.Call) and (dotted(s.value.func) or "") == "comb":
                term = s.value
        if term is not None and same_body and one_more:
            n = sp.Symbol("n", integer=True, nonnegative=True)
            ivar = norm(lf.target)
            sum_name = next((norm(s.target) for s in lf.body if isinstance(s, ast.AugAssign) and isinstance(s.value, ast.Subscript)), None)
            t = sp.binomial(_arith(term.args[0], {sum_name: n, ivar: d - 1}), _arith(term.args[1], {sum_name: n, ivar: d - 1}))
            off = _binom(dim_f, {"cutoff": n, "d": d})
            okc = sp.simplify(t - off) == 0
            why = f"last term {t}, sector offset {off}"
        else:
            why = f"same loop body: {same_body}; bounds {bound_f} / {bound_s}"
    ctx.obligation("C06c", keyc, okc, f"{ctx.relpath(full.file)}:{full.line}", detail=why)
    if not okc:
        ctx.violation("C06c", keyc, full.file, full.line,
                      f"get_index_in_fock_space is not get_index_in_fock_subspace plus the offset of the particle-number sector ({why}): vectors "
                      f"are not ranked by particle number first, or the two index functions disagree inside a sector", why[:120])
    ff = need(me, "_get_fock_space_index_first_quantized")
    rets = [s for s in _body(ff) if isinstance(s, ast.Return)]
    okf = False
    if len(rets) == 1 and isinstance(rets[0].value, ast.BinOp) and isinstance(rets[0].value.op, ast.Add):
        parts = sorted((dotted(x.func) or "") for x in (rets[0].value.left, rets[0].value.right) if isinstance(x, ast.Call))
        okf = parts == ["get_cutoff_fock_space_dimension", "get_fock_subspace_index_first_quantized"]
        dim = need(me, "get_cutoff_fock_space_dimension")
        sums = [s for s in ast.walk(dim.node) if isinstance(s, ast.AugAssign) and isinstance(s.value, ast.Call) and (dotted(s.value.func) or "") == "get_fock_subspace_dimension"]
        loops = [s for s in ast.walk(dim.node) if isinstance(s, ast.For) and norm(s.iter) == f"range({dim.params()[1]})"]
        okf = okf and len(sums) == 1 and len(loops) == 1
    keyf = f"{FERM}:_get_fock_space_index_first_quantized|sector-offset-plus-subspace-index"
    ctx.obligation("C06c", keyf, okf, f"{ctx.relpath(ff.file)}:{ff.line}")
    if not okf:
        ctx.violation("C06c", keyf, ff.file, ff.line,
                      "the fermionic full index is not `dimension of the sectors below n` (a sum of get_fock_subspace_dimension(d, k) over k < n) plus the "
                      "subspace index", norm(rets[0])[:100] if rets else "")


class _Rename(ast.NodeTransformer):
    def __init__(self, a: str, b: str):
        self.a, self.b = a, b

    def visit_Name(self, n: ast.Name):
        if n.id == self.a:
            return ast.Name(id=self.b, ctx=n.ctx)
        return n


def clause_e(ctx: Context, idx) -> None:
    """The index functions are sums of binomial coefficients computed by `comb` / `arr_comb` in 64-bit integers (C06a replaces arr_comb by
    comb; this clause is what justifies it).  Decided with sympy:
      * loop invariant - the accumulator starts at 1 = C(n, 0) and one (executed) iteration maps C(n, i) to C(n, i + 1), so the floor
        division inside the loop is exact and the intermediates are binomial coefficients;
      * symmetric reduction - the number of executed iterations is min(k, n - k) (a scalar `k = min(k, n - k)` before the loop, or an
        elementwise guard `i < minimum(k, n - k)` on the update), so no intermediate exceeds n times the *result*: without it the running
        product runs through the central binomial coefficients and overflows 64 bits for arguments whose result is tiny (C(64, 62));
      * the accumulator itself is returned (possibly masked to 0 where n < k)."""
    ctx.rule("C06e", "comb / arr_comb keep the invariant accumulator == C(n, i) through their loop (exact division inside the loop), run it "
                     "min(k, n - k) times (symmetric reduction) and return the accumulator itself")
    mod = idx.module("piquasso._math.combinatorics")
    n_sym, i_sym = sp.Symbol("n", integer=True, nonnegative=True), sp.Symbol("i", integer=True, nonnegative=True)
    n_fn = 0
    for name in ("comb", "arr_comb"):
        fn = mod.functions.get(name)
        if fn is None:
            raise AnalysisError(f"anchor vanished: piquasso._math.combinatorics:{name}")
        n_fn += 1
        loops = [x for x in fn.node.body if isinstance(x, ast.For)]
        rets = [x for x in fn.node.body if isinstance(x, ast.Return)]
        key = f"{fn.qualname}|accumulator is C(n, i)"
        if len(loops) != 1 or not rets:
            ctx.error(f"C06e: {name} no longer has one top-level loop followed by a return (undecided)")
            continue
        loop = loops[0]
        acc_names = {t.id for st in loop.body for t in ([st.target] if isinstance(st, ast.AugAssign) else (st.targets if isinstance(st, ast.Assign) else []))
                     if isinstance(t, ast.Name)}
        ret = rets[-1].value
        # `np.where(n < k, 0, acc)`: the accumulator masked where the coefficient vanishes
        if isinstance(ret, ast.Call) and (dotted(ret.func) or "").split(".")[-1] == "where" and len(ret.args) == 3 \
                and isinstance(ret.args[1], ast.Constant) and ret.args[1].value == 0:
            ret = ret.args[2]
        params = fn.params()
        npar, kpar = params[0], params[1]
        ivar = loop.target.id if isinstance(loop.target, ast.Name) else None

        def is_min_k_nk(e: ast.AST) -> bool:
            """min(k, n - k) / np.minimum(k, n - k) / np.minimum(k, np.abs(n - k))"""
            if isinstance(e, ast.Call) and (dotted(e.func) or "").split(".")[-1] in ("min", "minimum") and len(e.args) == 2:
                a, b = e.args
                for x, y in ((a, b), (b, a)):
                    if isinstance(y, ast.Call) and (dotted(y.func) or "").split(".")[-1] in ("abs", "absolute") and y.args:
                        y = y.args[0]
                    if norm(x) == kpar and norm(y).replace(" ", "") == f"{npar}-{kpar}":
                        return True
            return False

        guard_name = None
        if not (isinstance(ret, ast.Name) and ret.id in acc_names) or ivar is None:
            ok = False
            why = f"returns `{norm(ret)}`, not the loop's accumulator"
            reduced = True
        else:
            acc = ret.id
            env: Dict[str, sp.Expr] = {npar: n_sym, ivar: i_sym, acc: sp.binomial(n_sym, i_sym)}

            def ev(e: ast.AST) -> sp.Expr:
                if isinstance(e, ast.Name):
                    if e.id not in env:
                        raise AnalysisError(f"C06e: free name `{e.id}` in the loop of {name} (undecided)")
                    return env[e.id]
                if isinstance(e, ast.Constant) and isinstance(e.value, int):
                    return sp.Integer(e.value)
                if isinstance(e, ast.BinOp):
                    a, b = ev(e.left), ev(e.right)
                    if isinstance(e.op, ast.Add):
                        return a + b
                    if isinstance(e.op, ast.Sub):
                        return a - b
                    if isinstance(e.op, ast.Mult):
                        return a * b
                    if isinstance(e.op, ast.FloorDiv):
                        return a / b   # exactness is part of what is proved: the quotient must be the (integer) binomial
                raise AnalysisError(f"C06e: `{norm(e)[:40]}` in the loop of {name} is outside the integer-arithmetic fragment (undecided)")

            for st in loop.body:
                val = None
                tgt = None
                if isinstance(st, ast.AugAssign) and isinstance(st.target, ast.Name):
                    tgt, val = st.target.id, ast.BinOp(left=ast.Name(st.target.id, ast.Load()), op=st.op, right=st.value)
                elif isinstance(st, ast.Assign) and len(st.targets) == 1 and isinstance(st.targets[0], ast.Name):
                    tgt, val = st.targets[0].id, st.value
                else:
                    raise AnalysisError(f"C06e: statement `{norm(st)[:50]}` in the loop of {name} (undecided)")
                # guarded update: acc = where(i < G, step, acc)
                if isinstance(val, ast.Call) and (dotted(val.func) or "").split(".")[-1] == "where" and len(val.args) == 3 \
                        and isinstance(val.args[2], ast.Name) and val.args[2].id == tgt:
                    g = val.args[0]
                    if isinstance(g, ast.Compare) and len(g.ops) == 1 and isinstance(g.ops[0], ast.Lt) and norm(g.left) == ivar \
                            and isinstance(g.comparators[0], ast.Name):
                        guard_name = g.comparators[0].id
                    else:
                        raise AnalysisError(f"C06e: guard `{norm(g)[:40]}` of the update in {name} (undecided)")
                    val = val.args[1]
                env[tgt] = ev(val)
            step = sp.simplify(sp.gammasimp(sp.combsimp(env[acc] / sp.binomial(n_sym, i_sym + 1))))
            inits = [a for a in fn.node.body if isinstance(a, ast.Assign) and isinstance(a.targets[0], ast.Name) and a.targets[0].id == acc]
            init_ok = bool(inits) and (norm(inits[0].value) == "1" or "ones" in norm(inits[0].value))
            ok = step == 1 and init_ok
            why = f"one iteration maps C(n, i) to {sp.simplify(env[acc])} (ratio to C(n, i + 1): {step}); initial value {'1' if init_ok else 'not 1'}"
            # symmetric reduction
            pre = [a for a in fn.node.body if isinstance(a, ast.Assign) and len(a.targets) == 1 and isinstance(a.targets[0], ast.Name)]
            if guard_name is not None:
                reduced = any(a.targets[0].id == guard_name and is_min_k_nk(a.value) for a in pre)
            else:
                reduced = any(a.targets[0].id == kpar and is_min_k_nk(a.value) and a.lineno < loop.lineno for a in pre)
        ctx.obligation("C06e", key, ok, f"{ctx.relpath(fn.file)}:{fn.line}", detail=why)
        if not ok:
            ctx.violation("C06e", key, fn.file, fn.line,
                          f"{name}: {why}; the intermediates are not binomial coefficients, so the 64-bit accumulator overflows for arguments whose "
                          f"result is well within range (from about 17 modes on) and the vectorised index disagrees with the enumeration", why[:120])
        key2 = f"{fn.qualname}|symmetric reduction min(k, n - k)"
        ctx.obligation("C06e", key2, reduced, f"{ctx.relpath(fn.file)}:{fn.line}")
        if not reduced:
            ctx.violation("C06e", key2, fn.file, loop.lineno,
                          f"{name} runs its loop k times instead of min(k, n - k) times: the running product passes through the central binomial "
                          f"coefficients and overflows 64 bits although the result is small (C(64, 62) = 2016 comes out as -304), so indices and "
                          f"dimensions of bases with about 62 modes or more disagree with the enumeration", norm(loop).split(chr(10))[0])
    ctx.require_floor("C06e binomial accumulators", n_fn, 2)
