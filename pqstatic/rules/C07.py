"""C07 — built-in linear gates are physical and act as documented (engine E6, plus E1 tables).

 (a) for every concrete closed-form passive gate P P^dagger = 1; for every closed-form active gate
     P P^dagger - A A^dagger = 1 and P A^T = A P^T, as identities in the real constructor parameters;
     gates that return user matrices validate them before use
 (b) documented identities: Fourier = Phaseshifter(pi/2); Beamsplitter5050 = Beamsplitter(pi/4, 0);
     MachZehnder = B(pi/4,pi/2)(R(int) (+) 1)B(pi/4,pi/2)(R(ext) (+) 1); Squeezing2 = B(pi/4,0)[S(-z) (x) S(z)]B(-pi/4,0);
     Position/MomentumDisplacement computed parameters = Displacement(r=x, phi=0) / (r=p, phi=pi/2)
 (c) the Gaussian displacement step adds r e^{i phi} to the ladder mean (degree 0 in hbar; the sqrt(2 hbar)
     factor of the quadrature shift is decided under C14's typing of xxpp_mean_vector)
 (d) exhaustiveness: every gate registered with a linear step defines the block methods that step calls (C13c shares it)
The congruence S sigma S^T on arbitrary mode subsets is not decided.
"""

from __future__ import annotations

import ast
from typing import Any, Dict, List, Optional, Tuple

import sympy as sp

from ..algebra import local_param_env, HBAR, SymEval, Untranslatable, dagger, is_zero, residual_text, to_matrix, normal_form
from ..index import ClassInfo, FuncInfo, get_index, dotted, norm, calls_in, walk_no_nested
from ..registry import get_registry
from ..report import Context, AnalysisError
from ..texmatrix import TexUnreadable, documented_matrices, read_matrix

LEVEL = "proof"
GATES = "piquasso.instructions.gates"


def gate_symbols(info) -> Dict[str, sp.Symbol]:
    return {p: sp.Symbol(p.rstrip("_") if p != "int_" else "phi_int", real=True) for p in info.ctor_params}


def block_of(cls: ClassInfo, method: str, params: Dict[str, Any]) -> sp.Matrix:
    m = cls.find_method(method)
    if m is None:
        raise AnalysisError(f"anchor vanished: {cls.qualname}.{method}")
    return to_matrix(SymEval(m, params).run())


def returns_user_matrix(cls: ClassInfo, method: str) -> bool:
    m = cls.find_method(method)
    if m is None:
        return False
    rets = [n for n in ast.walk(m.node) if isinstance(n, ast.Return)]
    return len(rets) == 1 and isinstance(rets[0].value, ast.Subscript) and "params" in norm(rets[0].value.value)


def run(ctx: Context) -> None:
    idx = get_index(ctx.repo)
    reg = get_registry(idx)
    ctx.explanation = (
        "The closed-form blocks of every built-in linear gate are translated from gates.py into sympy matrices over "
        "real parameter symbols (syntax-directed, no execution) and the defining equations of the symplectic group "
        "and the documented identities are decided by normal form (rewrite to exponentials, expand, simplify). Each "
        "identity is one obligation, discharged for all real parameter values."
    )
    ctx.trusted_base = ["python ast", "the translation table of pqstatic/algebra.py", "sympy's rewrite/expand/simplify",
                        "the docstring formulas of gates.py transcribed as oracles"]
    ctx.rule("C07a", "P P^dagger = 1 for closed-form passive gates; P P^dagger - A A^dagger = 1 and P A^T = A P^T for closed-form active gates; user-matrix gates validate before use")
    ctx.rule("C07b", "documented gate identities hold for all parameter values")
    ctx.rule("C07c", "the Gaussian displacement step adds r*exp(i*phi) to the ladder-operator mean of the addressed mode")
    ctx.rule("C07d", "every gate registered with a linear step defines the block methods the step calls")
    ctx.rule("C07e", "the Gaussian update of m, C, G on the addressed modes (and of the cross blocks with the other modes) equals the update derived from a' = P a + A a^dagger and the table of second moments")
    ctx.rule("C07f", "the steps registered for linear gates address the blocks of the requested modes in the requested order (the order rule of C16 restricted to gate steps): no sorted/unique image, no order-insensitive shortcut")
    passive_base = idx.find_class(GATES, "_PassiveLinearGate")
    active_base = idx.find_class(GATES, "_ActiveLinearGate")
    blocks: Dict[str, Dict[str, Any]] = {}
    n_closed = 0
    for c in idx.subclasses(passive_base) + idx.subclasses(active_base):
        info = reg.instruction(c)
        syms = gate_symbols(info)
        is_active = c.is_subclass_of(active_base)
        key = f"{c.qualname}"
        where = f"{ctx.relpath(c.file)}:{c.node.lineno}"
        if returns_user_matrix(c, "_get_passive_block"):
            v = c.methods.get("_validate")
            ok = v is not None and any(isinstance(n, ast.Raise) for n in ast.walk(v.node)) and any(
                (dotted(x.func) or "").split(".")[-1] in ("is_square", "is_symplectic", "is_unitary") for x in calls_in(v.node))
            ctx.obligation("C07a", key + "|user-matrix-validated", ok, where)
            if not ok:
                ctx.violation("C07a", key + "|user-matrix-validated", c.file, c.node.lineno,
                              f"{c.name} returns the user's matrix as its block but _validate does not test its shape/symplecticity and raise",
                              "_validate")
            continue
        try:
            P = block_of(c, "_get_passive_block", syms)
            A = block_of(c, "_get_active_block", syms) if is_active else None
        except Untranslatable as e:
            ctx.error(str(e))
            continue
        n_closed += 1
        blocks[c.name] = {"P": P, "A": A, "syms": syms}
        # ladder operators are dimensionless: the blocks may not depend on config.hbar
        for nm, blk, meth in (("P", P, "_get_passive_block"), ("A", A, "_get_active_block")):
            if blk is None:
                continue
            free = HBAR not in blk.free_symbols
            ctx.obligation("C07a", key + f"|{nm} independent of hbar", free, where)
            if not free:
                ctx.violation("C07a", key + f"|{nm}-depends-on-hbar", c.file, c.find_method(meth).line,
                              f"{c.name}.{meth} depends on config.hbar: the ladder-operator transformation a -> P a + A a^dagger is "
                              f"dimensionless (x and p both scale with sqrt(hbar)), so the documented gate is the same matrix for every hbar; "
                              f"block = {blk}", str(blk)[:120])
        if HBAR in P.free_symbols or (A is not None and HBAR in A.free_symbols):
            P = P.subs(HBAR, 2)
            A = A.subs(HBAR, 2) if A is not None else None
            blocks[c.name] = {"P": P, "A": A, "syms": syms}
        n = P.shape[0]
        I = sp.eye(n)
        if not is_active:
            res = P * dagger(P) - I
            ok = is_zero(res)
            ctx.obligation("C07a", key + "|P P^dagger = 1", ok, where, block=str(P))
            if not ok:
                ctx.violation("C07a", key + "|unitary", c.file, c.find_method("_get_passive_block").line,
                              f"{c.name}._get_passive_block is not unitary for all parameter values: P P^dagger - 1 = {residual_text(res)}",
                              str(P)[:120])
        else:
            r1 = P * dagger(P) - A * dagger(A) - I
            r2 = P * A.T - A * P.T
            ok1, ok2 = is_zero(r1), is_zero(r2)
            ctx.obligation("C07a", key + "|P P^dagger - A A^dagger = 1", ok1, where, P=str(P), A=str(A))
            ctx.obligation("C07a", key + "|P A^T = A P^T", ok2, where)
            if not ok1:
                ctx.violation("C07a", key + "|symplectic-1", c.file, c.find_method("_get_active_block").line,
                              f"{c.name}: P P^dagger - A A^dagger - 1 = {residual_text(r1)} (the ladder-operator transformation is not symplectic: "
                              f"canonical commutation relations are not preserved)", f"P={P}, A={A}"[:160])
            if not ok2:
                ctx.violation("C07a", key + "|symplectic-2", c.file, c.find_method("_get_active_block").line,
                              f"{c.name}: P A^T - A P^T = {residual_text(r2)} (not symplectic)", f"P={P}, A={A}"[:160])
    ctx.require_floor("closed-form gate classes", n_closed, 10)

    # ---------------- (b) documented identities ------------------------------------------------------------------
    def need(name):
        if name not in blocks:
            raise AnalysisError(f"anchor vanished: closed-form blocks of {name}")
        return blocks[name]

    def inst(name, **vals):
        b = need(name)
        sub = {b["syms"][k]: v for k, v in vals.items()}
        P = b["P"].subs(sub)
        A = b["A"].subs(sub) if b["A"] is not None else None
        return P, A

    def oblige(key, residual, file_cls, text):
        ok = is_zero(residual)
        c = idx.find_class(GATES, file_cls)
        ctx.obligation("C07b", f"{GATES}:{file_cls}|{key}", ok, f"{ctx.relpath(c.file)}:{c.node.lineno}")
        if not ok:
            ctx.violation("C07b", f"{GATES}:{file_cls}|{key}", c.file, c.node.lineno,
                          f"documented identity fails: {text}; residual = {residual_text(residual)}", text)

    phi, th, r, s_ = sp.Symbol("phi", real=True), sp.Symbol("theta", real=True), sp.Symbol("r", real=True), sp.Symbol("s", real=True)
    fint, fext = sp.Symbol("phi_int", real=True), sp.Symbol("phi_ext", real=True)
    # Fourier = Phaseshifter(pi/2)
    oblige("Fourier = Phaseshifter(pi/2)", inst("Fourier")[0] - inst("Phaseshifter", phi=sp.pi / 2)[0], "Fourier", "Fourier == Phaseshifter(phi=pi/2)")
    # Beamsplitter5050 = Beamsplitter(pi/4, 0)
    oblige("Beamsplitter5050 = Beamsplitter(pi/4, 0)", inst("Beamsplitter5050")[0] - inst("Beamsplitter", theta=sp.pi / 4, phi=0)[0],
           "Beamsplitter5050", "Beamsplitter5050 == Beamsplitter(theta=pi/4, phi=0)")
    # Beamsplitter block is the documented [[t, -conj(r)], [r, t]]
    t_, r_ = sp.cos(th), sp.exp(sp.I * phi) * sp.sin(th)
    bs = need("Beamsplitter")
    doc = sp.Matrix([[t_, -sp.conjugate(r_)], [r_, t_]]).subs({th: bs["syms"]["theta"], phi: bs["syms"]["phi"]})
    oblige("block = [[t, -conj(r)], [r, t]]", bs["P"] - doc, "Beamsplitter", "U = [[t, -conj(r)], [r, t]], t = cos(theta), r = e^{i phi} sin(theta)")
    # MachZehnder
    B = lambda a, b: inst("Beamsplitter", theta=a, phi=b)[0]  # noqa: E731
    R1 = lambda x: sp.diag(inst("Phaseshifter", phi=x)[0][0, 0], 1)  # noqa: E731
    mz = need("MachZehnder")
    a_int, a_ext = mz["syms"]["int_"], mz["syms"]["ext"]
    rhs = B(sp.pi / 4, sp.pi / 2) * R1(a_int) * B(sp.pi / 4, sp.pi / 2) * R1(a_ext)
    oblige("MZ = B(pi/4,pi/2)(R(int)+1)B(pi/4,pi/2)(R(ext)+1)", mz["P"] - rhs, "MachZehnder",
           "MZ(int, ext) == B(pi/4, pi/2) (R(int) (+) 1) B(pi/4, pi/2) (R(ext) (+) 1)")
    # Squeezing2 = B(pi/4,0) [S(-z) (x) S(z)] B(-pi/4,0) in the 4x4 complex form [[P, A],[conj A, conj P]]
    def cform(P, A):
        return sp.Matrix(sp.BlockMatrix([[P, A], [A.applyfunc(sp.conjugate), P.applyfunc(sp.conjugate)]]).as_explicit())
    s2 = need("Squeezing2")
    rr, pp = s2["syms"]["r"], s2["syms"]["phi"]
    sq = need("Squeezing")
    def S1(rv, pv):
        sub = {sq["syms"]["r"]: rv, sq["syms"]["phi"]: pv}
        return sq["P"].subs(sub)[0, 0], sq["A"].subs(sub)[0, 0]
    # S(-z): z -> -z means phi -> phi + pi (r stays >= 0); S(-z) (x) S(z) acts as diag on modes (i, j)
    p1, a1 = S1(rr, pp + sp.pi)
    p2, a2 = S1(rr, pp)
    Pm, Am = sp.diag(p1, p2), sp.diag(a1, a2)
    Bp, Bm = B(sp.pi / 4, 0), B(-sp.pi / 4, 0)
    Z = sp.zeros(2, 2)
    lhs = cform(s2["P"], s2["A"])
    rhs4 = cform(Bp, Z) * cform(Pm, Am) * cform(Bm, Z)
    oblige("S2(z) = B(pi/4,0)[S(-z) x S(z)]B(-pi/4,0)", lhs - rhs4, "Squeezing2", "S_ij(z) == B_ij(pi/4, 0) [S_i(-z) (x) S_j(z)] B_ij(-pi/4, 0)")
    # the matrices printed in the class docstrings, S_(c) = [[P, A], [conj A, conj P]]  (Eq. linearity)
    n_doc = 0
    for cname, b in sorted(blocks.items()):
        c = idx.find_class(GATES, cname)
        doc = ast.get_docstring(c.node) or ""
        for lhs, pre, body in documented_matrices(doc):
            if lhs.replace(" ", "") != "S_{(c)}":
                continue

            def symbol(name, _b=b, _c=cname):
                for p_, sy in _b["syms"].items():
                    base = p_.rstrip("_")
                    if name in (p_, base, "phi_" + base):
                        return sy
                raise TexUnreadable(f"tex: symbol `{name}` in the docstring of {_c} names no constructor parameter")
            try:
                S_doc = read_matrix(pre, body, symbol)
            except TexUnreadable as e:
                ctx.error(f"C07b: documented matrix of {cname}: {e}")
                continue
            P_, A_ = b["P"], b["A"] if b["A"] is not None else sp.zeros(*b["P"].shape)
            S_code = cform(P_, A_)
            if S_doc.shape != S_code.shape:
                ctx.error(f"C07b: documented matrix of {cname} is {S_doc.shape}, the blocks give {S_code.shape}")
                continue
            n_doc += 1
            oblige("S_(c) of the docstring = [[P, A], [conj A, conj P]]", S_code - S_doc, cname,
                   f"the matrix S_(c) printed in the docstring of {cname} equals the one assembled from its blocks")
    ctx.require_floor("docstring matrices compared with the blocks", n_doc, 7)
    # displacement variants: computed params
    for cname, key, want in (("PositionDisplacement", "x", (None, sp.Integer(0))), ("MomentumDisplacement", "p", (None, sp.pi / 2))):
        c = idx.find_class(GATES, cname)
        g = c.methods.get("_get_computed_params")
        if g is None:
            raise AnalysisError(f"anchor vanished: {cname}._get_computed_params")
        sym = sp.Symbol(key, real=True)
        ev = SymEval(g, {key: sym})
        ret = None
        for n in ast.walk(g.node):
            if isinstance(n, ast.Return) and isinstance(n.value, ast.Call) and dotted(n.value.func) == "dict":
                for st in g.node.body:
                    if isinstance(st, ast.Assign):
                        ev.stmt(st)
                ret = {kw.arg: ev.ev(kw.value) for kw in n.value.keywords}
        if ret is None:
            raise AnalysisError(f"C07b: {cname}._get_computed_params has a shape the checker cannot read (undecided)")
        alpha = ret.get("r", sp.nan) * sp.exp(sp.I * ret.get("phi", sp.nan))
        target = sym * sp.exp(sp.I * want[1])
        ok = is_zero(alpha - target)
        ctx.obligation("C07b", f"{c.qualname}|alpha = {key} * exp(i*{want[1]})", ok, f"{ctx.relpath(c.file)}:{g.line}")
        if not ok:
            ctx.violation("C07b", f"{c.qualname}|computed-params", c.file, g.line,
                          f"{cname}({key}) is documented as Displacement(r={key}, phi={want[1]}) but computes alpha = {alpha}", str(ret))

    # ---------------- (c) the Gaussian displacement step ------------------------------------------------------------
    gs = idx.module("piquasso._simulators.gaussian.simulation_steps")
    disp = gs.functions.get("displacement")
    if disp is None:
        raise AnalysisError("anchor vanished: gaussian displacement step")
    ok = False
    for c in calls_in(disp.node):
        if isinstance(c.func, ast.Attribute) and c.func.attr == "assign" and len(c.args) == 3:
            val = c.args[2]
            # state._m[idx] + r * exp(1j * phi)
            if isinstance(val, ast.BinOp) and isinstance(val.op, ast.Add):
                a, b = val.left, val.right
                side = b if "_m" in norm(a) else (a if "_m" in norm(b) else None)
                if side is not None and "_m" in norm(c.args[0]):
                    rs, ps = sp.Symbol("r", real=True), sp.Symbol("phi", real=True)
                    env_ = {"r": rs, "phi": ps, "np": "<np>"}
                    env_.update(local_param_env(disp.node, {"r": rs, "phi": ps}))
                    ev = SymEval(disp, {}, env=env_)
                    try:
                        got = ev.ev(side)
                        ok = is_zero(got - rs * sp.exp(sp.I * ps))
                    except Untranslatable as e:
                        ctx.error(str(e))
    ctx.obligation("C07c", f"{disp.qualname}|m += r*exp(i*phi)", ok, f"{ctx.relpath(disp.file)}:{disp.line}")
    if not ok:
        ctx.violation("C07c", f"{disp.qualname}|m += r*exp(i*phi)", disp.file, disp.line,
                      "the Gaussian displacement step does not add r*exp(i*phi) to the ladder-operator mean of the addressed modes",
                      "state._m[indices] + r * np.exp(1j * phi)")

    clause_e(ctx, idx)
    clause_f(ctx, idx, reg)
    clause_g(ctx, idx, reg)

    # ---------------- (d) exhaustiveness ------------------------------------------------------------------------------------
    n_reg = 0
    for s in reg.simulators:
        for e in s.entries:
            if e.step is None:
                continue
            needed = {n.func.attr for n in ast.walk(e.step.node) if isinstance(n, ast.Call) and isinstance(n.func, ast.Attribute)
                      and n.func.attr in ("_get_passive_block", "_get_active_block") and isinstance(n.func.value, ast.Name)
                      and n.func.value.id in e.step.params()[:2]}
            for meth in sorted(needed):
                n_reg += 1
                m = e.instr.find_method(meth)
                concrete = m is not None and not any(d.endswith("abstractmethod") for d in m.decorators)
                key = f"{s.name}|{e.instr.name}|{e.step.name}|{meth}"
                ctx.obligation("C07d", key, concrete)
                if not concrete:
                    ctx.violation("C07d", key, s.cls.file, e.line,
                                  f"{e.instr.name} is registered with {e.step.name} in {s.cls.name}, which calls instruction.{meth}(), but "
                                  f"{e.instr.name} does not define it", f"{e.instr.name}: {e.step.name}")
    ctx.require_floor("(simulator, gate, block method) registrations", n_reg, 40)


# ================================================================================================ (e)


def _field_block(e: ast.AST):
    """`<obj>._C[<name>]` -> ("_C", "block");  `<obj>._C[<name>, :]` -> ("_C", "rows");  anything else -> None.
    The index variable may be called anything."""
    if isinstance(e, ast.Subscript) and isinstance(e.value, ast.Attribute) and e.value.attr in ("_C", "_G", "_m"):
        if isinstance(e.slice, ast.Name):
            return e.value.attr, "block"
        if isinstance(e.slice, ast.Tuple) and len(e.slice.elts) == 2 and isinstance(e.slice.elts[0], ast.Name) \
                and isinstance(e.slice.elts[1], ast.Slice) and e.slice.elts[1].lower is None and e.slice.elts[1].upper is None:
            return e.value.attr, "rows"
    return None


def clause_e(ctx: Context, idx) -> None:
    """Moment update rules of the Gaussian simulator vs the update derived from the ladder-operator transformation."""
    from .. import moments as mo

    gs = idx.module("piquasso._simulators.gaussian.simulation_steps")

    def fn(name):
        f = gs.functions.get(name)
        if f is None:
            raise AnalysisError(f"anchor vanished: gaussian.simulation_steps:{name}")
        return f

    def assigned_values(f, attr):
        """expressions stored into state.<attr> through connector.assign(state.<attr>, index, value) in source order"""
        out = []
        for n in ast.walk(f.node):
            if isinstance(n, ast.Assign) and isinstance(n.targets[0], ast.Attribute) and n.targets[0].attr == attr \
                    and isinstance(n.value, ast.Call) and isinstance(n.value.func, ast.Attribute) and n.value.func.attr == "assign" \
                    and len(n.value.args) == 3:
                out.append((n.value.args[1], n.value.args[2], n.lineno))
        return sorted(out, key=lambda x: x[2])

    def locals_of(f):
        loc = {}
        for n in ast.walk(f.node):
            if isinstance(n, ast.Assign) and len(n.targets) == 1 and isinstance(n.targets[0], ast.Name):
                loc[n.targets[0].id] = n.value
        return loc

    def check(key, f, expr_ast, evaluator, want, what):
        try:
            got = evaluator.ev(expr_ast)
        except mo.Untranslatable as e:
            ctx.obligation("C07e", key, False, undecided=str(e))
            ctx.error(f"C07e: {e} (undecided)")
            return
        ok = mo.add(got, want, -1) == {}
        ctx.obligation("C07e", key, ok, f"{ctx.relpath(f.file)}:{expr_ast.lineno}", code=mo.fmt(got), derived=mo.fmt(want))
        if not ok:
            ctx.violation("C07e", key, f.file, expr_ast.lineno,
                          f"{f.name}: the new {what} is computed as {mo.fmt(got)}, but a' = P a + A a^dagger gives {mo.fmt(want)}: the "
                          f"Gaussian simulator's effect is not the congruence by the gate's symplectic matrix", norm(expr_ast)[:120])

    # every update is executed on every path: no `return` (e.g. a "nothing to do" shortcut that looks at one of the two moment
    # matrices only) may bypass the assign(...) statements of a moment-update function
    from .. import cfg as cfgmod
    for fname in ("_apply_linear_to_C_and_G", "_apply_passive_linear_to_C_and_G", "_apply_linear_to_auxiliary_modes",
                  "_apply_passive_linear_to_auxiliary_modes", "_apply_linear", "_apply_passive_linear"):
        f_ = fn(fname)
        g_ = cfgmod.build(f_.node)
        updates = [n_ for n_ in g_.nodes if n_.kind == "stmt" and isinstance(n_.stmt, ast.Assign) and isinstance(n_.stmt.targets[0], ast.Attribute)
                   and n_.stmt.targets[0].attr in ("_C", "_G", "_m")]
        for u_ in updates:
            # is EXIT reachable from ENTRY without passing this update?
            r_ = g_.reach([cfgmod.ENTRY], blocked=lambda n_, u_=u_: n_.id == u_.id, follow=lambda lab: lab != "exc")
            ok_ = cfgmod.EXIT not in r_
            key_ = f"{f_.qualname}|update of {u_.stmt.targets[0].attr} at every exit|{norm(u_.stmt.targets[0])}"
            ctx.obligation("C07e", key_, ok_, f"{ctx.relpath(f_.file)}:{u_.line}")
            if not ok_:
                ctx.violation("C07e", key_, f_.file, u_.line,
                              f"{fname} can return without executing `{norm(u_.stmt)[:70]}`: on that path the moment `{u_.stmt.targets[0].attr}` keeps its old value, "
                              f"so the state is not the congruence of the previous one by the gate's symplectic matrix", norm(u_.stmt)[:100])
    P, A, C, G, m = mo.sym("P"), mo.sym("A"), mo.sym("C"), mo.sym("G"), mo.sym("m")
    # ---- active gates: diagonal blocks -------------------------------------------------------------------------
    f = fn("_apply_linear_to_C_and_G")
    params = f.params()  # state, P, A, modes
    loc = locals_of(f)
    env = {params[1]: P, params[2]: A}
    for name, src in loc.items():
        fb = _field_block(src)
        if fb == ("_C", "block"):
            env[name] = C
        elif fb == ("_G", "block"):
            env[name] = G
    once = {}
    for n_ in ast.walk(f.node):
        if isinstance(n_, ast.Assign) and len(n_.targets) == 1 and isinstance(n_.targets[0], ast.Name):
            once.setdefault(n_.targets[0].id, []).append(n_.value)
    ev = mo.WordEval(env, defs={k_: v_[0] for k_, v_ in once.items() if len(v_) == 1 and k_ not in env})
    G2, C2 = mo.oracle_second_moments(P, A, C, G)
    gv, cv = assigned_values(f, "_G"), assigned_values(f, "_C")
    if not gv or not cv:
        raise AnalysisError("C07e: anchor vanished: assign(...) updates in _apply_linear_to_C_and_G")
    check(f"{f.qualname}|G'", f, gv[0][1], ev, G2, "G block")
    check(f"{f.qualname}|C'", f, cv[0][1], ev, C2, "C block")
    # ---- passive gates ---------------------------------------------------------------------------------------------
    f = fn("_apply_passive_linear_to_C_and_G")
    params = f.params()
    Tm = mo.sym("P")
    env = {params[1]: Tm}
    text_env = {}
    for n in ast.walk(f.node):
        if _field_block(n) == ("_C", "block"):
            text_env[norm(n)] = C
        if _field_block(n) == ("_G", "block"):
            text_env[norm(n)] = G
    ev = mo.WordEval(env, text_env)
    G2p, C2p = mo.oracle_second_moments(Tm, mo.ZERO, C, G)
    gv, cv = assigned_values(f, "_G"), assigned_values(f, "_C")
    if not gv or not cv:
        raise AnalysisError("C07e: anchor vanished: assign(...) updates in _apply_passive_linear_to_C_and_G")
    check(f"{f.qualname}|G'", f, gv[0][1], ev, G2p, "G block")
    check(f"{f.qualname}|C'", f, cv[0][1], ev, C2p, "C block")
    # ---- means ----------------------------------------------------------------------------------------------------------
    f = fn("_apply_linear")
    params = f.params()
    loc = locals_of(f)
    text_env = {}
    for n in ast.walk(f.node):
        if isinstance(n, ast.Subscript) and "._m[" in norm(n):
            text_env[norm(n)] = m
    env = {params[1]: P, params[2]: A}
    ev = mo.WordEval(env, text_env)
    for name, src in loc.items():
        try:
            env[name] = ev.ev(src)
        except mo.Untranslatable:
            pass
    mv = assigned_values(f, "_m")
    if not mv:
        raise AnalysisError("C07e: anchor vanished: the mean update in _apply_linear")
    check(f"{f.qualname}|m'", f, mv[0][1], ev, mo.add(mo.mul(P, m), mo.mul(A, mo.conj(m))), "mean")
    f = fn("_apply_passive_linear")
    params = f.params()
    text_env = {}
    for n in ast.walk(f.node):
        if isinstance(n, ast.Subscript) and "._m[" in norm(n):
            text_env[norm(n)] = m
    ev = mo.WordEval({params[1]: P}, text_env)
    mv = assigned_values(f, "_m")
    if not mv:
        raise AnalysisError("C07e: anchor vanished: the mean update in _apply_passive_linear")
    check(f"{f.qualname}|m'", f, mv[0][1], ev, mo.mul(P, m), "mean")
    # ---- cross blocks with the auxiliary modes --------------------------------------------------------------------------------
    Cx, Gx = mo.sym("Cx"), mo.sym("Gx")  # C[modes, aux], G[modes, aux]: no symmetry
    for fname, has_active in (("_apply_linear_to_auxiliary_modes", True), ("_apply_passive_linear_to_auxiliary_modes", False)):
        f = fn(fname)
        params = f.params()
        env = {params[1]: P}
        if has_active:
            env[params[2]] = A
        text_env = {}
        loc = locals_of(f)
        for name, src in loc.items():
            fb = _field_block(src)
            if fb == ("_C", "block"):
                env[name] = Cx
            if fb == ("_G", "block"):
                env[name] = Gx
        for n in ast.walk(f.node):
            fb = _field_block(n)
            if fb == ("_C", "block"):
                text_env[norm(n)] = Cx
            if fb == ("_G", "block"):
                text_env[norm(n)] = Gx
            # the symmetric fill: C[:, modes] = conj(C[modes, :])^T ; G[:, modes] = G[modes, :]^T
            if fb == ("_C", "rows"):
                text_env[norm(n)] = mo.sym("Crow")
            if fb == ("_G", "rows"):
                text_env[norm(n)] = mo.sym("Grow")
        ev = mo.WordEval(env, text_env)
        Az = A if has_active else mo.ZERO
        want_C = mo.add(mo.mul(mo.conj(P), Cx), mo.mul(mo.conj(Az), Gx))
        want_G = mo.add(mo.mul(P, Gx), mo.mul(Az, Cx))
        gv, cv = assigned_values(f, "_G"), assigned_values(f, "_C")
        if len(gv) < 2 or len(cv) < 2:
            raise AnalysisError(f"C07e: anchor vanished: cross-block updates in {fname}")
        check(f"{f.qualname}|C'[modes,aux]", f, cv[0][1], ev, want_C, "C cross block")
        check(f"{f.qualname}|G'[modes,aux]", f, gv[0][1], ev, want_G, "G cross block")
        check(f"{f.qualname}|C[:,modes] hermitian fill", f, cv[1][1], ev, mo.transpose(mo.conj(mo.sym("Crow"))), "C column block")
        check(f"{f.qualname}|G[:,modes] symmetric fill", f, gv[1][1], ev, mo.transpose(mo.sym("Grow")), "G column block")


# ================================================================================================ (f)


def clause_f(ctx: Context, idx, reg) -> None:
    """"on any subset of modes [in any order]": the mode tuple of a linear gate reaches the index construction of
    every registered step unchanged in order."""
    from ..callgraph import get_resolver
    from .C16 import scan_order
    res = get_resolver(idx)
    gate = idx.find_class("piquasso.api.instruction", "Gate")
    roots = []
    seen = set()
    for s_ in reg.simulators:
        for e in s_.entries:
            if not e.instr.is_subclass_of(gate):
                continue
            for st in [e.step, e.factory] + list(e.factory_args.values()):
                if st is not None and id(st.node) not in seen:
                    seen.add(id(st.node))
                    roots.append((st, set()))
                    for loc in res.local_defs(st).values():
                        roots.append((loc, set()))
    before = len(ctx.findings)
    n_funcs, n_uses = scan_order(ctx, res, roots, "C07f", "C07f")
    ctx.require_floor("gate steps and helpers followed for mode order", n_funcs, 40)
    ctx.obligation("C07f", "gate steps|requested mode order reaches the block indices",
                   not any(f.rule == "C07f" for f in ctx.findings[before:]), functions=n_funcs, uses=n_uses)


def clause_g(ctx: Context, idx, reg) -> None:
    """Ownership of the second moments in the Gaussian simulator: the steps registered for instructions never assign `_C` / `_G` themselves -
    they go through the update helpers, which write the block of the addressed modes *and* its cross blocks with the other modes (C07e
    proves those helpers) - and write `_m` only additively (a displacement).  A helper that writes one of C, G writes the other too."""
    ctx.rule("C07g", "in the Gaussian simulator only the update helpers assign the second moments C and G (always both); the registered steps never do, "
                     "and they change the first moment m only additively")
    gs = idx.module("piquasso._simulators.gaussian.simulation_steps")
    steps = set()
    for s_ in reg.simulators:
        for st in s_.steps():
            if st.module is gs:
                steps.add(st.qualname)

    def writes(fn) -> Dict[str, List[ast.AST]]:
        out: Dict[str, List[ast.AST]] = {}
        for a in walk_no_nested(fn.node):
            if isinstance(a, (ast.Assign, ast.AugAssign)):
                for tg in (a.targets if isinstance(a, ast.Assign) else [a.target]):
                    b = tg
                    while isinstance(b, ast.Subscript):
                        b = b.value
                    if isinstance(b, ast.Attribute) and b.attr in ("_m", "_C", "_G"):
                        out.setdefault(b.attr, []).append(a)
        return out

    n_writers = 0
    for fn in gs.functions.values():
        w = writes(fn)
        if not w:
            continue
        n_writers += 1
        key = f"{fn.qualname}|writes {'+'.join(sorted(w))}"
        is_step = fn.qualname in steps
        bad = None
        if is_step and ("_C" in w or "_G" in w):
            bad = (w.get("_G") or w.get("_C"))[0], ("a registered step assigns a second moment itself instead of going through the update helpers: the "
                                                     "cross-correlations with the modes it does not address are not updated")
        elif ("_C" in w) != ("_G" in w):
            only = "_C" if "_C" in w else "_G"
            bad = w[only][0], f"writes {only} but not the other second moment: a transformation of the addressed modes changes both"
        elif is_step and "_m" in w:
            for a in w["_m"]:
                v = a.value
                if isinstance(v, ast.Call) and (dotted(v.func) or "").split(".")[-1] == "assign" and len(v.args) == 3:
                    v = v.args[2]
                additive = isinstance(a, ast.AugAssign) and isinstance(a.op, (ast.Add, ast.Sub)) or (
                    isinstance(v, ast.BinOp) and isinstance(v.op, (ast.Add, ast.Sub)) and any(isinstance(x, ast.Attribute) and x.attr == "_m" for x in ast.walk(v)))
                if not additive:
                    bad = a, "a registered step rescales / replaces the first moment itself: a linear transformation of m comes with one of C and G"
        ctx.obligation("C07g", key, bad is None, f"{ctx.relpath(fn.file)}:{fn.line}", step=is_step)
        if bad is not None:
            ctx.violation("C07g", key, fn.file, bad[0].lineno, f"{fn.name}: {bad[1]}", norm(bad[0])[:120])
    ctx.require_floor("C07g functions of the Gaussian steps that assign a moment", n_writers, 6)
