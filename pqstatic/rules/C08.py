"""C08 — every reachable state is a physical quantum state: the hbar-consistency clause (engine E5).

Decides one necessary clause for "for all hbar": the physicality predicate of GaussianState tests a
dimensionless matrix (cov / hbar + i Omega is well-typed exactly when cov has hbar-degree 1, which is what
every caller passes), and the scalar invariants purity / fidelity / is_pure have degree 0, so purity can lie
in (0, 1] and equal 1 for pure states at every hbar.  Positivity, trace, norm preservation and spectra after
every instruction are numerical invariants of runs and are not decided.
"""

from __future__ import annotations

import ast
from fractions import Fraction

from ..callgraph import get_resolver
from ..degree import DegreeAnalysis, T, INT, ZERO, ONE, HALF, lfmt
from ..index import get_index, norm, calls_in, dotted
from ..report import Context, AnalysisError
from .C14 import report_issues

LEVEL = "other"
MOD = "piquasso._simulators.gaussian.state"


def run(ctx: Context) -> None:
    idx = get_index(ctx.repo)
    res = get_resolver(idx)
    ctx.explanation = (
        "hbar-homogeneity typing (engine E5) of the physicality predicate and of the scalar invariants of "
        "GaussianState: a necessary condition for the validators and the purity/fidelity bounds to mean the same "
        "thing at every hbar. The numerical invariants themselves (positivity, trace, spectrum after each "
        "instruction) are not decided."
    )
    ctx.rule("C08", "_validate_cov tests a degree-0 matrix for covariance inputs of degree 1 (what validate() and the setters pass); get_purity, fidelity, is_pure have degree 0; the general-dyne validity test adds i*Omega to a dimensionless matrix")
    an = DegreeAnalysis(idx, res)
    cls = idx.find_class(MOD, "GaussianState")
    state = T("state", cls=cls)
    n = 0
    vc = cls.methods.get("_validate_cov")
    if vc is None:
        raise AnalysisError("anchor vanished: GaussianState._validate_cov")
    # what do callers pass?  validate(): self.xpxp_covariance_matrix; the xpxp setter: its argument
    callers = []
    for m in cls.methods.values():
        for c in calls_in(m.node):
            if isinstance(c.func, ast.Attribute) and c.func.attr == "_validate_cov" and c.args:
                callers.append((m, c))
    if len(callers) < 2:
        raise AnalysisError("C08: anchor vanished: callers of _validate_cov")
    before = len(an.issues)
    r = an.call_function(vc, {"cov": T.num(ONE, (Fraction(0), Fraction(2))), "d": T("int", ZERO, why="d"), "self": state})
    n += 1
    ok = len(an.issues) == before and r.kind != "unknown"
    ctx.obligation("C08", f"{cls.qualname}._validate_cov|tests a dimensionless matrix", ok, f"{ctx.relpath(vc.file)}:{vc.line}")
    if r.kind == "unknown":
        ctx.error(f"C08: cannot type _validate_cov: {r.why} (undecided)")
    # the predicate really is there
    has_pred = any((norm(c.func).split(".")[-1] == "is_positive_semidefinite") for c in calls_in(vc.node)) and any(
        isinstance(x, ast.Raise) for x in ast.walk(vc.node))
    n += 1
    ctx.obligation("C08", f"{cls.qualname}._validate_cov|uncertainty relation tested", has_pred)
    if not has_pred:
        ctx.violation("C08", f"{cls.qualname}._validate_cov|uncertainty-relation", vc.file, vc.line,
                      "_validate_cov no longer tests the Robertson-Schroedinger uncertainty relation (positive semidefiniteness of sigma/hbar + i Omega) and raises",
                      "is_positive_semidefinite(cov / hbar + 1j * symplectic_form(d))")
    # validate() passes the state's own covariance (degree 1)
    val = cls.methods.get("validate")
    if val is None:
        raise AnalysisError("anchor vanished: GaussianState.validate")
    before = len(an.issues)
    an.call_function(val, {"self": state})
    n += 1
    ctx.obligation("C08", f"{cls.qualname}.validate|well-typed", len(an.issues) == before)
    for name in ("get_purity", "fidelity"):
        fn = cls.methods.get(name)
        if fn is None:
            raise AnalysisError(f"anchor vanished: GaussianState.{name}")
        before = len(an.issues)
        args = {"self": state}
        if name == "fidelity":
            args["state"] = state
        r = an.call_function(fn, args)
        n += 1
        key = f"{cls.qualname}.{name}|degree 0"
        if r.kind == "unknown":
            ctx.obligation("C08", key, False, undecided=r.why)
            ctx.error(f"C08: cannot type {name}: {r.why} (undecided)")
            continue
        got = r.deg if r.kind in ("num", "int") else None
        ok = got == ZERO and len(an.issues) == before
        ctx.obligation("C08", key, ok, f"{ctx.relpath(fn.file)}:{fn.line}", inferred=lfmt(got))
        if got is not None and got != ZERO:
            ctx.violation("C08", f"{cls.qualname}.{name}|degree", fn.file, fn.line,
                          f"{name} scales like hbar^({lfmt(got)}): it cannot lie in (0, 1] (nor equal 1 for pure states) for every hbar", name)
    ip = cls.methods.get("is_pure")
    if ip is None:
        raise AnalysisError("anchor vanished: GaussianState.is_pure")
    before = len(an.issues)
    an.call_function(ip, {"self": state})
    n += 1
    ctx.obligation("C08", f"{cls.qualname}.is_pure|compares a degree-0 purity with 1", len(an.issues) == before)
    # the general-dyne detection covariance validity test
    meas = idx.find_class("piquasso.instructions.measurements", "GeneraldyneMeasurement")
    for mname in ("__init__", "_validate"):
        m = meas.methods.get(mname)
        if m is None:
            raise AnalysisError(f"anchor vanished: GeneraldyneMeasurement.{mname}")
        before = len(an.issues)
        from ..degree import Interp
        it = Interp(an, m, {"detection_covariance": T.num(ZERO), "self": T("instr"), "connector": T("other", why="connector")})
        it.env["detection_covariance"] = T.num(ZERO)
        for s in m.node.body:
            if isinstance(s, ast.Assign) and "params" in norm(s.value):
                it.env[norm(s.targets[0])] = T.num(ZERO)
                continue
            it.stmt(s)
        n += 1
        ctx.obligation("C08", f"{meas.qualname}.{mname}|sigma_m + i*Omega is well-typed", len(an.issues) == before)
    seen: set = set()
    report_issues(ctx, an, "C08", seen)
    ctx.require_floor("typing obligations", n, 7)
    ctx.rule("C08b", "every update of the mixed-Fock density matrix has a Hermiticity-preserving form: K rho K^dagger with the same K on both sides (matrix product or einsum), an elementwise factor exp(i (g(ket) - g(bra))), or the explicit mirror fill value.conj().T at the swapped index; the attenuator's weights are symmetric under ket <-> bra")
    clause_b(ctx, idx)
    ctx.rule("C08c", "the Gaussian channel updates the covariance matrix by a congruence plus noise: the factor on the right is the transpose of the "
                     "factor on the left (X sigma X^T + Y), written as one expression or as a row update followed by a column update")
    clause_c(ctx, idx)


# ================================================================================================ (b)

GEN = "piquasso._simulators.fock.general.simulation_steps"
FOCKSTEPS = "piquasso._simulators.fock.simulation_steps"


def _adjoint_of(right: ast.AST, left: ast.AST) -> bool:
    """right is left^T / left^dagger: left.T, left.transpose(), left.conj().T, left.T.conj(), np.conj(left).T ..."""
    txt = norm(right).replace(" ", "")
    l = norm(left).replace(" ", "")
    forms = {f"{l}.T", f"{l}.transpose()", f"{l}.conj().T", f"{l}.T.conj()", f"{l}.conjugate().T", f"{l}.T.conjugate()",
             f"{l}.conj().transpose()", f"{l}.transpose().conj()", f"np.conj({l}).T", f"np.conj({l}.T)"}
    return txt in forms


MIRROR_WITHOUT_CONJ: list = []


def attenuator_weight(idx):
    """(attenuator FuncInfo, the `+=` update, weight(swap) -> sympy, symbols n, m, k, theta): the weight with which the Fock attenuator
    maps rho[n, m] to rho[n-k, m-k], read from the step by roles (not by the names of its locals)."""
    import sympy as sp
    fs = idx.module(FOCKSTEPS)
    att = fs.functions.get("attenuator")
    if att is None:
        raise AnalysisError("anchor vanished: fock attenuator step")
    # roles are read from definitions, not from the names of the locals
    stored = [y.id for x in ast.walk(att.node) if isinstance(x, ast.Assign) and len(x.targets) == 1 and isinstance(x.targets[0], ast.Attribute)
              and x.targets[0].attr == "_density_matrix" for y in ast.walk(x.value) if isinstance(y, ast.Name)]
    upd = [x for x in ast.walk(att.node) if isinstance(x, ast.AugAssign) and isinstance(x.target, ast.Subscript)
           and isinstance(x.target.value, ast.Name) and x.target.value.id in stored]
    upd = sorted(upd, key=lambda x: x.lineno)
    MIRROR_WITHOUT_CONJ.clear()
    if len(upd) > 1:
        # further updates are accepted as the mirror fill of the primary one: swapped (ket, bra) index and the complex conjugate of the value
        prim = upd[0]
        pi = prim.target.slice.elts if isinstance(prim.target.slice, ast.Tuple) else None
        for extra in upd[1:]:
            ei = extra.target.slice.elts if isinstance(extra.target.slice, ast.Tuple) else None
            swapped = pi is not None and ei is not None and len(pi) == len(ei) == 2 and norm(pi[0]) == norm(ei[1]) and norm(pi[1]) == norm(ei[0])
            if not swapped:
                raise AnalysisError("C08b: the attenuator has several `<new density matrix>[...] += weight` updates that are not a mirror fill (undecided)")
            v, pv = norm(extra.value).replace(" ", ""), norm(prim.value).replace(" ", "")
            conj = v in (f"np.conj({pv})", f"np.conjugate({pv})", f"{pv}.conj()", f"{pv}.conjugate()", f"({pv}).conj()", f"({pv}).conjugate()")
            if not conj:
                MIRROR_WITHOUT_CONJ.append(extra)
        upd = upd[:1]
    if len(upd) != 1:
        raise AnalysisError("C08b: the attenuator no longer has one `<new density matrix>[...] += weight` update (undecided)")
    defs = {}
    for x in ast.walk(att.node):
        if isinstance(x, ast.Assign) and len(x.targets) == 1 and isinstance(x.targets[0], ast.Name):
            defs[x.targets[0].id] = x.value
    pair_var = k_var = None
    for x in ast.walk(att.node):
        if isinstance(x, ast.For) and isinstance(x.iter, ast.Call) and (dotted(x.iter.func) or "").split(".")[-1] == "operator_basis" \
                and isinstance(x.target, ast.Tuple) and len(x.target.elts) == 2 and isinstance(x.target.elts[1], ast.Name):
            pair_var = x.target.elts[1].id
        if isinstance(x, ast.For) and isinstance(x.target, ast.Name) and isinstance(x.iter, ast.Call) and dotted(x.iter.func) == "range" \
                and any(isinstance(y, ast.Call) and dotted(y.func) == "min" for y in ast.walk(x.iter)):
            k_var = x.target.id
    n_, m_, k_, th = sp.Symbol("n", integer=True, nonnegative=True), sp.Symbol("m", integer=True, nonnegative=True), sp.Symbol("k", integer=True, nonnegative=True), sp.Symbol("theta", real=True)

    def side_of(e, depth=0):
        """0 (ket) / 1 (bra) when e denotes an occupation number of the ket / bra of the operator-basis pair."""
        while isinstance(e, ast.Call) and (dotted(e.func) or "").split(".")[-1] in ("copy", "array", "asarray") and e.args:
            e = e.args[0]
        if isinstance(e, ast.Subscript):
            b = e.value
            if isinstance(b, ast.Name) and b.id == pair_var and isinstance(e.slice, ast.Constant) and e.slice.value in (0, 1):
                return e.slice.value
            return side_of(b, depth)
        if isinstance(e, ast.Name) and e.id in defs and depth < 5:
            return side_of(defs[e.id], depth + 1)
        return None

    def w(e, swap, depth=0):
        if isinstance(e, ast.Constant):
            return sp.sympify(e.value)
        if isinstance(e, ast.Name):
            if e.id == k_var:
                return k_
            d_ = defs.get(e.id)
            if d_ is not None and depth < 8:
                if isinstance(d_, ast.Subscript) and isinstance(d_.slice, ast.Constant) and d_.slice.value == "theta":
                    return th
                if isinstance(d_, ast.Subscript) and isinstance(d_.value, ast.Attribute) and d_.value.attr == "_density_matrix":
                    return sp.Integer(1)
                sd = side_of(d_)
                if sd is not None:
                    return (m_ if sd == 0 else n_) if swap else (n_ if sd == 0 else m_)
                return w(d_, swap, depth + 1)
            raise AnalysisError(f"C08b: free name `{e.id}` in the attenuator weight (undecided)")
        if isinstance(e, ast.BinOp):
            a, b = w(e.left, swap), w(e.right, swap)
            return {ast.Add: lambda: a + b, ast.Sub: lambda: a - b, ast.Mult: lambda: a * b, ast.Pow: lambda: a ** b, ast.Div: lambda: a / b}[type(e.op)]()
        if isinstance(e, ast.Subscript) and isinstance(e.slice, ast.Constant) and e.slice.value == "theta":
            return th      # the parameter read where it is used (a single-use local is substituted by the canonical form)
        if isinstance(e, ast.Call):
            f = norm(e.func).split(".")[-1]
            args = [w(a, swap) for a in e.args]
            table = {"cos": sp.cos, "sin": sp.sin, "tan": sp.tan, "sqrt": sp.sqrt, "comb": sp.binomial, "max": sp.Max, "min": sp.Min, "exp": sp.exp}
            if f in table:
                return table[f](*args)
        raise AnalysisError(f"C08b: `{norm(e)[:50]}` is outside the fragment read for the attenuator weight (undecided)")

    return att, upd[0], w, n_, m_, k_, th

def clause_b(ctx: Context, idx) -> None:
    import sympy as sp
    m = idx.module(GEN)
    n_sites = 0

    def site(fn, node, kind, ok, why=""):
        nonlocal n_sites
        n_sites += 1
        key = f"{fn.qualname}|{kind}"
        ctx.obligation("C08b", key, ok, f"{ctx.relpath(fn.file)}:{node.lineno}")
        if not ok:
            ctx.violation("C08b", key, fn.file, node.lineno,
                          f"{fn.name}: {why}; a linear map rho -> A rho B preserves Hermiticity (and positivity) of every density matrix only for "
                          f"B = A^dagger, so the mixed-Fock state stops being a physical state", norm(node).split("\n")[0][:100])

    for fn in list(m.functions.values()):
        for node in ast.walk(fn.node):
            # (i) A @ rho @ B
            if isinstance(node, ast.BinOp) and isinstance(node.op, ast.MatMult) and isinstance(node.left, ast.BinOp) and isinstance(node.left.op, ast.MatMult) \
                    and "density_matrix" in norm(node.left.right):
                A, B = node.left.left, node.right
                site(fn, node, "congruence-matmul", _adjoint_of(B, A), f"`{norm(node)[:70]}` multiplies the density matrix by `{norm(A)}` from the left and `{norm(B)}` from the right, which is not its adjoint")
            # (ii) einsum("ij,jk,kl->il", X[k], rho[idx], X[b].T.conj())
            if isinstance(node, ast.Call) and (norm(node.func).split(".")[-1] == "einsum") and len(node.args) == 4 and isinstance(node.args[0], ast.Constant) \
                    and "density_matrix" in norm(node.args[2]):
                spec = node.args[0].value.replace(" ", "")
                A, B = node.args[1], node.args[3]
                # name-agnostic: K and K^dagger are the same object (after following local definitions) selected by the loop of the
                # ket side resp. the bra side; the block of rho is addressed by rows of the ket loop and columns of the bra loop
                fdefs = {}
                loopvars = {}  # loop variable -> id of its for statement
                for x in ast.walk(fn.node):
                    if isinstance(x, ast.Assign) and len(x.targets) == 1 and isinstance(x.targets[0], ast.Name):
                        fdefs.setdefault(x.targets[0].id, []).append(x.value)
                    if isinstance(x, ast.For):
                        for t in ast.walk(x.target):
                            if isinstance(t, ast.Name):
                                loopvars[t.id] = id(x)

                def strip_adj(e):
                    """(expr without a trailing conjugate-transpose, was it conjugate-transposed?)"""
                    t = norm(e).replace(" ", "")
                    for suf in (".T.conj()", ".conj().T", ".T.conjugate()", ".conjugate().T"):
                        if t.endswith(suf):
                            return ast.parse(t[: -len(suf)], mode="eval").body, True
                    return e, False

                def base_of(e, depth=0):
                    while isinstance(e, ast.Subscript):
                        e = e.value
                    if isinstance(e, ast.Name) and e.id in fdefs and len(fdefs[e.id]) == 1 and depth < 4:
                        return base_of(fdefs[e.id][0], depth + 1)
                    return norm(e)

                def loops_of(e, depth=0, seen=None):
                    seen = seen if seen is not None else set()
                    out = set()
                    for nm in ast.walk(e):
                        if isinstance(nm, ast.Name):
                            if nm.id in loopvars:
                                out.add(loopvars[nm.id])
                            if nm.id in fdefs and nm.id not in seen and depth < 5:
                                seen.add(nm.id)
                                for d_ in fdefs[nm.id]:
                                    out |= loops_of(d_, depth + 1, seen)
                    return out

                B0, conj_t = strip_adj(B)
                A0, a_adj = strip_adj(A)
                same_base = base_of(A0) == base_of(B0) and not a_adj and not any(x in norm(A) for x in (".T", ".conj()"))
                rho = node.args[2]
                roles = True
                if isinstance(rho, ast.Subscript) and isinstance(rho.slice, ast.Name) and rho.slice.id in fdefs:
                    ixs = [d_ for d_ in fdefs[rho.slice.id] if isinstance(d_, ast.Call) and norm(d_.func).split(".")[-1] == "ix_" and len(d_.args) == 2]
                    if ixs:
                        r_, c_ = ixs[0].args
                        la, lb, lr, lc = loops_of(A0), loops_of(B0), loops_of(r_), loops_of(c_)
                        # the left factor belongs to the loop that addresses the rows, the right factor to the one that addresses the columns
                        roles = bool(la & lr) and bool(lb & lc) and not ((la - lb) & lc) and not ((lb - la) & lr)
                ok = spec == "ij,jk,kl->il" and same_base and conj_t and roles
                site(fn, node, "congruence-einsum", ok, f"`{norm(node)[:80]}` does not contract K rho K^dagger with the same K on both sides")
            # (iii) elementwise factor
            pair = None
            for x in ast.walk(fn.node):
                if isinstance(x, ast.For) and isinstance(x.iter, ast.Call) and norm(x.iter.func).split(".")[-1] == "operator_basis" \
                        and isinstance(x.target, ast.Tuple) and len(x.target.elts) == 2 and isinstance(x.target.elts[1], ast.Tuple) \
                        and len(x.target.elts[1].elts) == 2 and all(isinstance(y, ast.Name) for y in x.target.elts[1].elts):
                    pair = tuple(y.id for y in x.target.elts[1].elts)  # (ket basis, bra basis)
            if isinstance(node, ast.Call) and norm(node.func).split(".")[-1] == "exp" and pair is not None and len(node.args) == 1:
                arg = node.args[0]
                syms = {}
                local_defs = {}
                for a_ in ast.walk(fn.node):
                    if isinstance(a_, ast.Assign) and len(a_.targets) == 1 and isinstance(a_.targets[0], ast.Name) and isinstance(a_.value, ast.Subscript) \
                            and norm(a_.value.value) in pair:
                        local_defs[a_.targets[0].id] = a_.value
                # only factors that depend on the (ket, bra) pair are elementwise factors of the density matrix
                mentioned = {n_.id for n_ in ast.walk(arg) if isinstance(n_, ast.Name)}
                if not (mentioned & (set(pair) | set(local_defs))):
                    continue
                def tr(e, swap):
                    if isinstance(e, ast.Constant):
                        return sp.I if isinstance(e.value, complex) and e.value == 1j else sp.sympify(e.value)
                    if isinstance(e, ast.Name) and e.id in local_defs:
                        return tr(local_defs[e.id], swap)
                    if isinstance(e, ast.Name):
                        return syms.setdefault(e.id, sp.Symbol(e.id, real=True))
                    if isinstance(e, ast.Subscript):
                        # canonical text: the ket basis is KET, the bra basis is BRA, whatever the loop variables are called
                        import re as _re
                        t = norm(e)
                        t = _re.sub(r"\b%s\b" % _re.escape(pair[0]), "\0K", t)
                        t = _re.sub(r"\b%s\b" % _re.escape(pair[1]), "BRA", t).replace("\0K", "KET")
                        if swap:
                            t = t.replace("KET", "\0").replace("BRA", "KET").replace("\0", "BRA")
                        return syms.setdefault(t, sp.Symbol(t.replace("[", "_").replace("]", "").replace(" ", ""), real=True))
                    if isinstance(e, ast.BinOp):
                        a, b = tr(e.left, swap), tr(e.right, swap)
                        ops = {ast.Add: lambda: a + b, ast.Sub: lambda: a - b, ast.Mult: lambda: a * b, ast.Pow: lambda: a ** b, ast.Div: lambda: a / b}
                        f = ops.get(type(e.op))
                        if f is None:
                            raise AnalysisError(f"C08b: operator in `{norm(e)[:40]}` (undecided)")
                        return f()
                    if isinstance(e, ast.UnaryOp) and isinstance(e.op, ast.USub):
                        return -tr(e.operand, swap)
                    raise AnalysisError(f"C08b: `{norm(e)[:40]}` is outside the fragment read for elementwise factors (undecided)")
                e1, e2 = tr(arg, False), tr(arg, True)
                # exp(z) with z purely imaginary and antisymmetric under ket <-> bra:  conj(exp(z(ket,bra))) = exp(z(bra,ket))
                ok = sp.simplify(sp.conjugate(e1) - e2) == 0
                site(fn, node, "phase-factor-antisymmetric", ok,
                     f"the elementwise factor exp({norm(arg)[:60]}) is not of the form exp(i (g(ket) - g(bra))) (its conjugate is not its value at the swapped pair)")
            # (iv) mirror fill
            if isinstance(node, ast.Assign) and isinstance(node.targets[0], ast.Subscript) and isinstance(node.targets[0].value, ast.Name) \
                    and node.targets[0].value.id in {r_.value.id for r_ in ast.walk(fn.node) if isinstance(r_, ast.Return) and isinstance(r_.value, ast.Name)} \
                    and isinstance(node.value, ast.Attribute) and node.value.attr == "T" and "conj" in norm(node.value):
                site(fn, node, "mirror-fill-conjugate-transpose", True)
    # (iv') a triangle mirrored into the other one must be conjugated: X + triu(X, 1).T (or tril) without conj is not Hermitian
    for mod_ in (GEN, FOCKSTEPS):
        for fn in idx.module(mod_).functions.values():
            for node in ast.walk(fn.node):
                if isinstance(node, ast.Attribute) and node.attr == "T" and isinstance(node.value, ast.Call) \
                        and norm(node.value.func).split(".")[-1] in ("triu", "tril"):
                    site(fn, node, "mirror-fill-conjugate-transpose", False,
                         f"`{norm(node)[:60]}` mirrors a triangle of a density matrix by plain transposition; the mirror image of rho[n, m] is conj(rho[n, m])")
                if isinstance(node, ast.Call) and norm(node.func).split(".")[-1] in ("triu", "tril"):
                    # conj(...).T / .T.conj() / np.conj(...) around it are the accepted forms; they are recorded
                    pass
    # the attenuator: weights symmetric under n <-> m
    att, upd0, w, n_, m_, k_, th = attenuator_weight(idx)
    upd = [upd0]
    w1, w2 = w(upd[0].value, False), w(upd[0].value, True)
    # the channel the step documents: C(|n><m|) = sum_k tan(theta)^(2k) cos(theta)^(n+m) sqrt(C(n,k) C(m,k)) |n-k><m-k|
    # (formula of the attenuator's docstring, transcribed; the docstring must still state it)
    doc = ast.get_docstring(att.node) or ""
    if "\\tan(\\theta)^{2k}" in doc and "\\cos(\\theta)^{n + m}" in doc and "{n \\choose k} {m \\choose k}" in doc:
        documented = sp.tan(th) ** (2 * k_) * sp.cos(th) ** (n_ + m_) * sp.sqrt(sp.binomial(n_, k_) * sp.binomial(m_, k_))
        same = sp.simplify(w1 - documented) == 0
        site(att, upd[0], "attenuator-weight-as-documented", same,
             f"the weight {w1} of |n-k><m-k| differs from the documented channel tan(theta)^(2k) cos(theta)^(n+m) sqrt(C(n,k) C(m,k)) "
             f"(e.g. for cos(theta) < 0 and odd n + m)")
    else:
        # the documentation was reworded: nothing to compare the weight with here (C01d compares it with the Gaussian channel)
        ctx.instance("C08b", f"{att.qualname}|attenuator-weight-as-documented", "not compared: the docstring does not state the formula in the transcribed form")
    for extra in list(MIRROR_WITHOUT_CONJ):
        site(att, extra, "mirror-fill-conjugate", False,
             f"`{norm(extra)[:80]}` fills the mirrored entry rho[bra, ket] with the same value as rho[ket, bra], without the complex conjugate: "
             f"coherences with a complex amplitude come out non-Hermitian")
    ok = sp.simplify(w1 - sp.conjugate(w2)) == 0
    site(att, upd[0], "attenuator-weight-hermitian", ok, f"the weight {w1} of rho[n, m] is not the conjugate of the weight of rho[m, n]")
    ctx.require_floor("density-matrix update sites classified", n_sites, 8)


def clause_c(ctx: Context, idx) -> None:
    gs = idx.module("piquasso._simulators.gaussian.simulation_steps")
    fn = gs.functions.get("deterministic_gaussian_channel")
    if fn is None:
        raise AnalysisError("anchor vanished: gaussian deterministic_gaussian_channel")
    n = 0

    def is_transpose_of(right: ast.AST, left: ast.AST) -> bool:
        r, l_ = norm(right).replace(" ", ""), norm(left).replace(" ", "")
        return r in (f"{l_}.T", f"{l_}.transpose()", f"np.transpose({l_})", f"{l_}.T.copy()")

    # one-expression form:  L @ sigma @ R (+ noise)
    for a in ast.walk(fn.node):
        if isinstance(a, ast.Assign) and len(a.targets) == 1 and isinstance(a.targets[0], ast.Attribute) and "covariance" in a.targets[0].attr:
            v = a.value
            cand = [b for b in ast.walk(v) if isinstance(b, ast.BinOp) and isinstance(b.op, ast.MatMult) and isinstance(b.left, ast.BinOp)
                    and isinstance(b.left.op, ast.MatMult)]
            for b in cand:
                L, R = b.left.left, b.right
                n += 1
                ok = is_transpose_of(R, L)
                key = f"{fn.qualname}|congruence {norm(b)[:50]}"
                ctx.obligation("C08c", key, ok, f"{ctx.relpath(fn.file)}:{a.lineno}")
                if not ok:
                    ctx.violation("C08c", key, fn.file, a.lineno,
                                  f"`{norm(b)[:80]}`: the right factor `{norm(R)}` is not the transpose of the left factor `{norm(L)}`; for a channel "
                                  f"matrix that is not symmetric the covariance matrix stops being symmetric", norm(b)[:100])
    # row update / column update form:  S[sel, :] = K @ S[sel, :]   and   S[:, sel] = S[:, sel] @ K'
    rows, cols = [], []
    for a in ast.walk(fn.node):
        if isinstance(a, ast.Assign) and len(a.targets) == 1 and isinstance(a.targets[0], ast.Subscript) and isinstance(a.value, ast.BinOp) \
                and isinstance(a.value.op, ast.MatMult):
            tgt = norm(a.targets[0])
            if norm(a.value.right) == tgt and isinstance(a.targets[0].slice, ast.Tuple):
                rows.append((a, a.value.left))
            elif norm(a.value.left) == tgt and isinstance(a.targets[0].slice, ast.Tuple):
                cols.append((a, a.value.right))
    for (ra, K), (ca, K2) in zip(rows, cols):
        n += 1
        ok = is_transpose_of(K2, K)
        key = f"{fn.qualname}|row update by {norm(K)[:20]} / column update by {norm(K2)[:20]}"
        ctx.obligation("C08c", key, ok, f"{ctx.relpath(fn.file)}:{ca.lineno}")
        if not ok:
            ctx.violation("C08c", key, fn.file, ca.lineno,
                          f"the rows are multiplied by `{norm(K)}` from the left and the columns by `{norm(K2)}` from the right, which is not its "
                          f"transpose: for a channel matrix that is not symmetric the covariance matrix stops being symmetric", norm(ca)[:100])
    if len(rows) != len(cols):
        ctx.error(f"C08c: {fn.qualname} has {len(rows)} row update(s) and {len(cols)} column update(s) of the covariance matrix (undecided)")
    ctx.require_floor("C08c covariance updates of the Gaussian channel", n, 1)
