"""C08 — every reachable state is a physical quantum state: the hbar-consistency clause (engine E5).

Decides one necessary clause for "for all hbar": the physicality predicate of GaussianState tests a
dimensionless matrix (cov / hbar + i Omega is well-typed exactly when cov has hbar-degree 1, which is what
every caller passes), and the scalar invariants purity / fidelity / is_pure have degree 0, so purity can lie
in (0, 1] and equal 1 for pure states at every hbar.  Positivity, trace, norm preservation and spectra after
every instruction are numerical invariants of runs and are not decided.
"""

from __future__ import annotations

import ast
from fractions import Fraction

from ..callgraph import get_resolver
from ..degree import DegreeAnalysis, T, INT, ZERO, ONE, HALF, lfmt
from ..index import get_index, norm, calls_in
from ..report import Context, AnalysisError
from .C14 import report_issues

LEVEL = "other"
MOD = "piquasso._simulators.gaussian.state"


def run(ctx: Context) -> None:
    idx = get_index(ctx.repo)
    res = get_resolver(idx)
    ctx.explanation = (
        "hbar-homogeneity typing (engine E5) of the physicality predicate and of the scalar invariants of "
        "GaussianState: a necessary condition for the validators and the purity/fidelity bounds to mean the same "
        "thing at every hbar. The numerical invariants themselves (positivity, trace, spectrum after each "
        "instruction) are not decided."
    )
    ctx.rule("C08", "_validate_cov tests a degree-0 matrix for covariance inputs of degree 1 (what validate() and the setters pass); get_purity, fidelity, is_pure have degree 0; the general-dyne validity test adds i*Omega to a dimensionless matrix")
    an = DegreeAnalysis(idx, res)
    cls = idx.find_class(MOD, "GaussianState")
    state = T("state", cls=cls)
    n = 0
    vc = cls.methods.get("_validate_cov")
    if vc is None:
        raise AnalysisError("anchor vanished: GaussianState._validate_cov")
    # what do callers pass?  validate(): self.xpxp_covariance_matrix; the xpxp setter: its argument
    callers = []
    for m in cls.methods.values():
        for c in calls_in(m.node):
            if isinstance(c.func, ast.Attribute) and c.func.attr == "_validate_cov" and c.args:
                callers.append((m, c))
    if len(callers) < 2:
        raise AnalysisError("C08: anchor vanished: callers of _validate_cov")
    before = len(an.issues)
    r = an.call_function(vc, {"cov": T.num(ONE, (Fraction(0), Fraction(2))), "d": T("int", ZERO, why="d"), "self": state})
    n += 1
    ok = len(an.issues) == before and r.kind != "unknown"
    ctx.obligation("C08", f"{cls.qualname}._validate_cov|tests a dimensionless matrix", ok, f"{ctx.relpath(vc.file)}:{vc.line}")
    if r.kind == "unknown":
        ctx.error(f"C08: cannot type _validate_cov: {r.why} (undecided)")
    # the predicate really is there
    has_pred = any((norm(c.func).split(".")[-1] == "is_positive_semidefinite") for c in calls_in(vc.node)) and any(
        isinstance(x, ast.Raise) for x in ast.walk(vc.node))
    n += 1
    ctx.obligation("C08", f"{cls.qualname}._validate_cov|uncertainty relation tested", has_pred)
    if not has_pred:
        ctx.violation("C08", f"{cls.qualname}._validate_cov|uncertainty-relation", vc.file, vc.line,
                      "_validate_cov no longer tests the Robertson-Schroedinger uncertainty relation (positive semidefiniteness of sigma/hbar + i Omega) and raises",
                      "is_positive_semidefinite(cov / hbar + 1j * symplectic_form(d))")
    # validate() passes the state's own covariance (degree 1)
    val = cls.methods.get("validate")
    if val is None:
        raise AnalysisError("anchor vanished: GaussianState.validate")
    before = len(an.issues)
    an.call_function(val, {"self": state})
    n += 1
    ctx.obligation("C08", f"{cls.qualname}.validate|well-typed", len(an.issues) == before)
    for name in ("get_purity", "fidelity"):
        fn = cls.methods.get(name)
        if fn is None:
            raise AnalysisError(f"anchor vanished: GaussianState.{name}")
        before = len(an.issues)
        args = {"self": state}
        if name == "fidelity":
            args["state"] = state
        r = an.call_function(fn, args)
        n += 1
        key = f"{cls.qualname}.{name}|degree 0"
        if r.kind == "unknown":
            ctx.obligation("C08", key, False, undecided=r.why)
            ctx.error(f"C08: cannot type {name}: {r.why} (undecided)")
            continue
        got = r.deg if r.kind in ("num", "int") else None
        ok = got == ZERO and len(an.issues) == before
        ctx.obligation("C08", key, ok, f"{ctx.relpath(fn.file)}:{fn.line}", inferred=lfmt(got))
        if got is not None and got != ZERO:
            ctx.violation("C08", f"{cls.qualname}.{name}|degree", fn.file, fn.line,
                          f"{name} scales like hbar^({lfmt(got)}): it cannot lie in (0, 1] (nor equal 1 for pure states) for every hbar", name)
    ip = cls.methods.get("is_pure")
    if ip is None:
        raise AnalysisError("anchor vanished: GaussianState.is_pure")
    before = len(an.issues)
    an.call_function(ip, {"self": state})
    n += 1
    ctx.obligation("C08", f"{cls.qualname}.is_pure|compares a degree-0 purity with 1", len(an.issues) == before)
    # the general-dyne detection covariance validity test
    meas = idx.find_class("piquasso.instructions.measurements", "GeneraldyneMeasurement")
    for mname in ("__init__", "_validate"):
        m = meas.methods.get(mname)
        if m is None:
            raise AnalysisError(f"anchor vanished: GeneraldyneMeasurement.{mname}")
        before = len(an.issues)
        from ..degree import Interp
        it = Interp(an, m, {"detection_covariance": T.num(ZERO), "self": T("instr"), "connector": T("other", why="connector")})
        it.env["detection_covariance"] = T.num(ZERO)
        for s in m.node.body:
            if isinstance(s, ast.Assign) and "params" in norm(s.value):
                it.env[norm(s.targets[0])] = T.num(ZERO)
                continue
            it.stmt(s)
        n += 1
        ctx.obligation("C08", f"{meas.qualname}.{mname}|sigma_m + i*Omega is well-typed", len(an.issues) == before)
    seen: set = set()
    report_issues(ctx, an, "C08", seen)
    ctx.require_floor("typing obligations", n, 7)
