"""C09 — results do not depend on the numerical connector (engines E1 + E3).

 (a) interface conformance: every connector method called from code reachable from a simulator exists, with a
     binding signature, on every connector class that simulator admits
 (b) immutability discipline: arrays created through the connector's `np` are never written in place in code
     reachable from a simulator that admits a non-NumPy connector (except via connector.assign, whose result is used)
 (c) abstract-value guard: every `_validate` that inspects a parameter's value is dominated by an is_abstract test
Numerical agreement between the back ends is not decided.
"""

from __future__ import annotations

import ast
from typing import Dict, List, Optional, Set, Tuple

from .. import cfg as cfgmod
from ..callgraph import get_resolver, is_connector_expr
from ..dataflow import Analysis
from ..index import ClassInfo, FuncInfo, get_index, dotted, norm, calls_in, walk_no_nested, const_str
from ..registry import get_registry
from ..report import Context, AnalysisError

LEVEL = "other"

# Frozen exceptions for (c), one reason each
VALIDATE_EXEMPT = {
    ("piquasso.instructions.preparations:DistinguishableNumberState", "occupation_numbers"):
        "a Python tuple built in the constructor (tuple(occupation_numbers)); never a traced value",
}


def run(ctx: Context) -> None:
    idx = get_index(ctx.repo)
    reg = get_registry(idx)
    res = get_resolver(idx)
    ctx.explanation = (
        "Connector rules decided from source: call shapes on connector-typed receivers reachable from each simulator "
        "are bound against the signatures of every connector class that simulator admits; arrays created through a "
        "connector's np are followed by the alias analysis and must not be written in place where a non-NumPy "
        "connector is admitted; parameter-inspecting _validate methods must be dominated by an abstract-value test. "
        "Numerical agreement of the per-connector linear algebra and compiled-mode results are not decided."
    )
    ctx.rule("C09a", "every connector method called from code reachable from simulator S exists and binds on every connector class S admits (an explicit `raise NotImplementedError()` stub is declared non-support)")
    ctx.rule("C09b", "no in-place write on an array created through connector.np in code reachable from a simulator admitting a non-NumPy connector; connector.assign results are used")
    ctx.rule("C09c", "_validate methods that inspect parameter values test connector.is_abstract(...) first")
    clause_a(ctx, idx, reg, res)
    clause_b(ctx, idx, reg, res)
    clause_c(ctx, idx, reg)
    ctx.rule("C09e", "a connector's hand-written polar decomposition has the contract of scipy.linalg.polar: P^2 = M^dagger M and U = M P^-1 for side='right', P^2 = M M^dagger and U = P^-1 M for side='left'")
    ctx.rule("C09d", "the NumPy and the JAX implementation of the Gaussian density-matrix recurrence (_entry_raising_ket / _entry_raising_bra) have the same pivot, initial term, loop summands and divisor (normal forms over abstract states and indices)")
    clause_d(ctx, idx)
    clause_e(ctx, idx)
    ctx.rule("C09g", "the formula used for traced (abstract) angles in GaussianState.get_phaseshifter_expectation_value is the eager formula in another "
                     "parametrisation: both exponents are u^dagger T u with the same kernel T (compared through the symbolic inverses of the kernels, "
                     "diagonal factors commuting among themselves but not with the covariance)")
    clause_g(ctx, idx)
    ctx.rule("C09f", "the array handed to connector.assign is consumed: under the NumPy connector it is updated in place, under the functional "
                     "connectors it keeps the old content, so after `B = connector.assign(A, ...)` neither A nor an alias of A is read again "
                     "(ownership typestate on the CFG; shape/dtype reads are exempt)")
    clause_f(ctx, idx)
    clause_h(ctx)


def clause_h(ctx: Context) -> None:
    """The NumPy connector runs the numba loop nest, the TensorFlow / JAX connectors (and NumPy at cutoff <= 2) the generic einsum
    version of the Fock-space recurrence of an interferometer: both must denote the same sum (index-notation normal form)."""
    from . import _interferometer_recurrence as ir
    from .. import loopnest as ln
    ctx.rule("C09h", "the numba loop nest and the generic einsum implementation of calculate_interferometer_on_fock_space denote the same "
                     "recurrence R[k, i] = 1/H4[k] sum_j H3[i, j] U[H1[k], j] PREV[H2[k], H0[i, j]] (tables named by their position in the "
                     "helper tuple; same level offsets; loop variables index the axis their range was read from)")
    try:
        r = ir.analyse(ctx)
    except ln.Unreadable as e:
        ctx.error(f"C09h: {e}; undecided")
        return
    nb, ge = r["numba"], r["generic"]
    fn_n, fn_g = r["numba_fn"], r["generic_fn"]
    same = nb["nf"] == ge["nf"]
    key = "calculate_interferometer_on_fock_space|numba == generic"
    ctx.obligation("C09h", key, same, where=f"{ctx.relpath(fn_n.file)}:{nb['line']}", numba=ln.show(nb["nf"]), generic=ln.show(ge["nf"]))
    if not same:
        ctx.violation("C09h", key, fn_g.file, ge["line"],
                      f"the two implementations of the Fock-space recurrence differ: numba (NumPy connector) computes {ln.show(nb['nf'])}; "
                      f"the generic version (TensorFlow / JAX connectors, NumPy at cutoff <= 2) computes {ln.show(ge['nf'])}",
                      construct=ln.show(ge["nf"])[:200])
    offs = (nb["table_offsets"], nb["prev_offsets"]) == (ge["table_offsets"], ge["prev_offsets"]) and len(nb["table_offsets"]) == 1 \
        and len(nb["prev_offsets"]) == 1
    key = "calculate_interferometer_on_fock_space|level offsets"
    ctx.obligation("C09h", key, offs, where=f"{ctx.relpath(fn_g.file)}:{ge['line']}", numba=[nb["table_offsets"], nb["prev_offsets"]],
                   generic=[ge["table_offsets"], ge["prev_offsets"]])
    if not offs:
        ctx.violation("C09h", key, fn_g.file, ge["line"],
                      f"the implementations address the helper tables / the previous level with different offsets from the level variable: "
                      f"numba tables {nb['table_offsets']} previous {nb['prev_offsets']}, generic tables {ge['table_offsets']} previous {ge['prev_offsets']}",
                      construct="level offsets")
    for msg in nb["axis_conflicts"]:
        ctx.violation("C09h", f"calculate_interferometer_on_fock_space|axis|{msg}", fn_n.file, nb["line"],
                      f"in the numba loop nest {msg}", construct=msg)
    ctx.obligation("C09h", "calculate_interferometer_on_fock_space|axes", not nb["axis_conflicts"], where=f"{ctx.relpath(fn_n.file)}:{nb['line']}")
    ctx.require_floor("implementations of the bosonic Fock-space recurrence compared", 2, 2)


# ================================================================================================ (a)


def _instance_attrs(cls: ClassInfo) -> Set[str]:
    out: Set[str] = set()
    for c in cls.mro():
        out |= set(c.attrs)
        out |= set(c.methods)
        out |= {a.target.id for a in c.node.body if isinstance(a, ast.AnnAssign) and isinstance(a.target, ast.Name)}
        init = c.methods.get("__init__")
        if init:
            for n in ast.walk(init.node):
                if isinstance(n, ast.Attribute) and isinstance(n.ctx, ast.Store) and isinstance(n.value, ast.Name) and n.value.id == "self":
                    out.add(n.attr)
    return out


def _own_declared(cls: ClassInfo, name: str, base: ClassInfo) -> bool:
    """Declared by something more specific than the abstract interface (annotation-only slots do not count)."""
    for c in cls.mro():
        if c is base:
            return False
        if name in c.attrs or name in c.methods:
            return True
        init = c.methods.get("__init__")
        if init:
            for n in ast.walk(init.node):
                if isinstance(n, ast.Attribute) and isinstance(n.ctx, ast.Store) and isinstance(n.value, ast.Name) \
                        and n.value.id == "self" and n.attr == name:
                    return True
    return False


def _binds(fn_node: ast.AST, call: ast.Call, drop_self: bool) -> Optional[str]:
    a = fn_node.args
    pos = [x.arg for x in a.posonlyargs + a.args]
    if drop_self and pos:
        pos = pos[1:]
    n_def = len(a.defaults)
    required = pos[: len(pos) - n_def] if n_def else list(pos)
    kwonly = [x.arg for x in a.kwonlyargs]
    kwonly_required = [x.arg for x, d in zip(a.kwonlyargs, a.kw_defaults) if d is None]
    n_pos = len([x for x in call.args if not isinstance(x, ast.Starred)])
    has_star = any(isinstance(x, ast.Starred) for x in call.args) or any(k.arg is None for k in call.keywords)
    kws = [k.arg for k in call.keywords if k.arg]
    if n_pos > len(pos) and a.vararg is None:
        return f"takes {len(pos)} positional argument(s) but {n_pos} are given"
    for k in kws:
        if k not in pos and k not in kwonly and a.kwarg is None:
            return f"has no parameter `{k}`"
        if k in pos[:n_pos]:
            return f"gets `{k}` both positionally and by keyword"
    if not has_star:
        for i, r in enumerate(required):
            if i >= n_pos and r not in kws:
                return f"requires `{r}`, which the call does not pass"
        for r in kwonly_required:
            if r not in kws:
                return f"requires keyword `{r}`"
    return None


def clause_a(ctx, idx, reg, res) -> None:
    base = res.connector_base
    n_shapes = 0
    seen_keys: Set[str] = set()
    for s in reg.simulators:
        roots: List[FuncInfo] = list(s.steps())
        if s.state_class is not None:
            for c in [s.state_class] + s.state_class.mro():
                roots.extend(c.methods.values())
        reach = res.reachable(roots)
        units: List[FuncInfo] = []
        for f in reach:
            units.append(f)
        connectors = s.connectors()
        for fn in units:
            # do not look inside connector classes themselves (self.method calls are intra-class)
            if fn.cls is not None and fn.cls.is_subclass_of(base):
                continue
            for c in [x for x in walk_no_nested(fn.node) if isinstance(x, ast.Call)]:
                f = c.func
                if not (isinstance(f, ast.Attribute) and is_connector_expr(f.value)):
                    continue
                meth = f.attr
                if meth.startswith("_"):
                    continue
                n_shapes += 1
                for K in connectors:
                    key = f"{s.cls.name}|{K.name}.{meth}|{fn.qualname}"
                    if key in seen_keys:
                        continue
                    seen_keys.add(key)
                    cm = res.connector_method(K, meth)
                    where = f"{ctx.relpath(fn.file)}:{c.lineno}"
                    if cm is None or (cm[0] == "attr" and False):
                        if meth in _instance_attrs(K) and _own_declared(K, meth, base):
                            ctx.instance("C09a", key, "instance-attribute (not inspected)", where)
                            continue
                        ctx.instance("C09a", key, "VIOLATION", where)
                        ctx.violation("C09a", key, fn.file, c.lineno,
                                      f"{s.cls.name} admits {K.name}, and `{norm(c)[:60]}` is reachable from it, but {K.name} has no "
                                      f"`{meth}`: the same program fails (AttributeError) with that connector", norm(c)[:90])
                        continue
                    kind = cm[0]
                    if kind == "func":
                        target: FuncInfo = cm[1]
                        if target.cls is base and any(d.endswith("abstractmethod") for d in target.decorators):
                            ctx.instance("C09a", key, "VIOLATION", where)
                            ctx.violation("C09a", key, fn.file, c.lineno,
                                          f"{K.name} does not implement the abstract `{meth}` that `{norm(c)[:50]}` needs", norm(c)[:90])
                            continue
                        if target.is_stub_raise():
                            ctx.instance("C09a", key, "declared-unsupported (raise NotImplementedError)", where)
                            continue
                        is_prop = any(d in ("property",) for d in target.decorators)
                        if is_prop:
                            ctx.instance("C09a", key, "property (callable returned; not inspected)", where)
                            continue
                        why = _binds(target.node, c, drop_self=not any(d == "staticmethod" for d in target.decorators))
                    elif kind == "wrapped":
                        target = cm[1]
                        if target is None:
                            ctx.instance("C09a", key, "third-party function behind instancemethod (not inspected)", where)
                            continue
                        why = _binds(target.node, c, drop_self=False)
                    elif kind == "plainfunc":
                        target = cm[1]
                        why = _binds(target.node, c, drop_self=True)  # a plain function in the class body is bound: first param = self
                    else:
                        ctx.instance("C09a", key, "attribute (not inspected)", where)
                        continue
                    ctx.instance("C09a", key, "ok" if why is None else "VIOLATION", where)
                    if why is not None:
                        ctx.violation("C09a", key, fn.file, c.lineno,
                                      f"`{norm(c)[:70]}` is reachable from {s.cls.name}, which admits {K.name}, but {K.name}.{meth} {why} "
                                      f"({ctx.relpath(target.file)}:{target.line}): the program fails with that connector only",
                                      norm(c)[:90])
    ctx.require_floor("connector call sites examined", n_shapes, 100)
    ctx.require_floor("(simulator, connector, method, caller) shapes bound", len(seen_keys), 180)
    methods = sorted({k.split("|")[1].split(".", 1)[1] for k in seen_keys})
    ctx.count("connector methods called", methods)
    ctx.require_floor("distinct connector methods called", len(methods), 25)


# ================================================================================================ (b)


def clause_b(ctx, idx, reg, res) -> None:
    an = Analysis(idx, res, {"track_cnp": True, "connector_assign_writes": False})
    an.run([f for f in idx.all_functions()])
    # reachability per (simulator, non-NumPy connector K): functions that unconditionally use a connector method
    # which K declares unsupported (`raise NotImplementedError()` stub) are not expanded — the instruction is
    # outside "the instruction set the connector supports"
    stubs: Dict[str, Set[str]] = {}
    for K in res.connector_classes:
        names = set()
        for c in K.mro():
            for name, m in c.methods.items():
                cm = res.connector_method(K, name)
                if cm and cm[0] == "func" and cm[1].is_stub_raise():
                    names.add(name)
        stubs[K.name] = names
    ctx.count("declared-unsupported connector methods", {k: sorted(v) for k, v in stubs.items() if v})

    def toplevel_connector_refs(fn: FuncInfo) -> Set[str]:
        out: Set[str] = set()
        for st in fn.node.body:
            if isinstance(st, (ast.If, ast.For, ast.While, ast.Try, ast.With, ast.FunctionDef, ast.AsyncFunctionDef, ast.ClassDef)):
                continue
            for n in ast.walk(st):
                if isinstance(n, ast.Attribute) and is_connector_expr(n.value):
                    out.add(n.attr)
        return out

    non_numpy_reach: Dict[int, List[str]] = {}
    for s in reg.simulators:
        roots: List[FuncInfo] = list(s.steps())
        if s.state_class is not None:
            for c in [s.state_class] + s.state_class.mro():
                roots.extend(c.methods.values())
        for K in s.connectors():
            if K.name == "NumpyConnector":
                continue
            st = stubs.get(K.name, set())
            for f in res.reachable(roots, stop=lambda fn, st=st: bool(toplevel_connector_refs(fn) & st)):
                non_numpy_reach.setdefault(id(f.node), [])
                tag = f"{s.cls.name}+{K.name}"
                if tag not in non_numpy_reach[id(f.node)]:
                    non_numpy_reach[id(f.node)].append(tag)
    n_cnp = 0
    seen = set()
    for w in an.writes:
        cnp = sorted(str(o[1]) for o in w.origins if o[0] == "cnp")
        if not cnp:
            continue
        if w.how == "aug-assign" and isinstance(w.node, ast.AugAssign) and isinstance(w.node.target, ast.Name):
            # `x += y` on a name rebinds for immutable arrays (JAX/TF arrays define no __iadd__): works on every connector
            continue
        n_cnp += 1
        fid = id(w.fn.node)
        outer = w.fn
        sims = non_numpy_reach.get(fid)
        if sims is None and ".<locals>." in w.fn.qualname:
            # nested function: reachable if its enclosing function is
            q = w.fn.qualname.split(".<locals>.")[0]
            for f in idx.all_functions():
                if f.qualname == q:
                    sims = non_numpy_reach.get(id(f.node))
        key = f"{w.fn.qualname}|{w.how.split(' ')[0]}|{w.target}"
        if key in seen:
            continue
        seen.add(key)
        if not sims:
            ctx.instance("C09b", key, "not reachable from a simulator admitting a non-NumPy connector", f"{ctx.relpath(w.fn.file)}:{w.line}")
            continue
        ctx.violation("C09b", key, w.fn.file, w.line,
                      f"in-place write ({w.how}) on `{w.target}`, an array created through the connector's np ({cnp[0]}); reachable from "
                      f"{', '.join(sims)}: JAX/TensorFlow arrays are immutable, so this raises (or silently diverges) with that connector "
                      f"while it works with NumPy — use connector.assign", norm(w.node).split("\n")[0][:100])
    ctx.count("in-place writes on connector-created arrays (all)", n_cnp)
    # connector.assign results must be used
    n_assign = 0
    for fn in idx.all_functions():
        for sc in [fn] + list(res.local_defs(fn).values()):
            for st in walk_no_nested(sc.node):
                for c in [x for x in cfgmod._walk_own(st) if isinstance(x, ast.Call)] if isinstance(st, ast.stmt) else []:
                    if isinstance(c.func, ast.Attribute) and c.func.attr == "assign" and (is_connector_expr(c.func.value) or (
                            isinstance(c.func.value, ast.Name) and c.func.value.id == "self" and sc.cls is not None and sc.cls.is_subclass_of(res.connector_base))):
                        n_assign += 1
                        # `x = connector.assign(x, ...)` on a local that is never read again (not returned, not stored): a dead store -
                        # the update exists only for connectors whose assign works in place
                        if isinstance(st, ast.Assign) and st.value is c and len(st.targets) == 1 and isinstance(st.targets[0], ast.Name):
                            nm_ = st.targets[0].id
                            later_reads = [x for x in walk_no_nested(sc.node) if isinstance(x, ast.Name) and x.id == nm_ and isinstance(x.ctx, ast.Load)
                                           and (x.lineno, x.col_offset) > (st.lineno, st.col_offset) and not any(x is y for y in ast.walk(st))]
                            in_loop = any(isinstance(l_, (ast.For, ast.While)) and any(st is y for y in ast.walk(l_)) for l_ in walk_no_nested(sc.node))
                            if not later_reads and not in_loop:
                                key = f"{sc.qualname}|assign-result-dead|{nm_}"
                                ctx.violation("C09b", key, sc.file, c.lineno,
                                              f"the result of connector.assign(...) is bound to the local `{nm_}`, which is never read again (not returned, "
                                              f"not stored into the state): with JAX/TensorFlow, where assign returns a new array, the update is lost", norm(st)[:100])
                        if isinstance(st, ast.Expr) and st.value is c:
                            key = f"{sc.qualname}|assign-result-discarded|{norm(c.args[0]) if c.args else ''}"
                            ctx.violation("C09b", key, sc.file, c.lineno,
                                          "the result of connector.assign(...) is discarded: under JAX/TensorFlow assign is a pure function, so "
                                          "the update is lost with those connectors while NumPy updates in place", norm(c)[:90])
    ctx.require_floor("connector.assign call sites", n_assign, 40)
    # functional updates `x.at[...].set/add/...(v)` return the updated array: the result must be used
    n_at = 0
    for m in idx.modules.values():
        if not m.name.startswith("piquasso."):
            continue
        for st in ast.walk(m.tree):
            for c in ([st.value] if isinstance(st, ast.Expr) and isinstance(st.value, ast.Call) else []):
                pass
        for c in ast.walk(m.tree):
            if isinstance(c, ast.Call) and isinstance(c.func, ast.Attribute) and c.func.attr in ("set", "add", "multiply", "mul", "min", "max", "apply") \
                    and isinstance(c.func.value, ast.Subscript) and isinstance(c.func.value.value, ast.Attribute) and c.func.value.value.attr == "at":
                n_at += 1
        for st in ast.walk(m.tree):
            if isinstance(st, ast.Expr) and isinstance(st.value, ast.Call):
                c = st.value
                if isinstance(c.func, ast.Attribute) and isinstance(c.func.value, ast.Subscript) and isinstance(c.func.value.value, ast.Attribute) \
                        and c.func.value.value.attr == "at":
                    key = f"{m.name}|at-update-result-discarded|{norm(c.func.value.value.value)}"
                    ctx.violation("C09b", key, m.path, c.lineno,
                                  f"`{norm(c)[:70]}` is a functional update: it returns the updated array and leaves `{norm(c.func.value.value.value)}` "
                                  f"unchanged, so discarding the result loses the update", norm(c)[:90])
    ctx.require_floor("functional `.at[...]` updates", n_at, 10)


# ================================================================================================ (c)


def _value_inspections(fn: FuncInfo, pvars: Dict[str, str]) -> List[Tuple[ast.AST, str]]:
    """Uses of a parameter value that force concretisation: comparisons, truth tests, numpy predicates, attribute .shape/.ndim excluded."""
    out = []
    for n in walk_no_nested(fn.node):
        if isinstance(n, ast.Compare):
            for x in ast.walk(n):
                if isinstance(x, ast.Name) and x.id in pvars and not _only_shape(n, x.id):
                    out.append((n, x.id))
                    break
        elif isinstance(n, ast.Call):
            nm = dotted(n.func) or ""
            last = nm.split(".")[-1]
            if last in ("allclose", "isclose", "any", "all", "is_square", "is_symmetric", "is_symplectic", "is_positive_semidefinite",
                        "all_real_and_positive", "all_natural", "all_in_interval", "is_real_2n_by_2n", "isreal", "eigvalsh", "float", "bool"):
                for x in ast.walk(n):
                    if isinstance(x, ast.Name) and x.id in pvars:
                        out.append((n, x.id))
                        break
    return out


def _only_shape(cmp: ast.Compare, name: str) -> bool:
    """`X.shape != Y.shape`, `X.ndim != 2`, `len(X) != ...` do not read traced *values*."""
    for x in ast.walk(cmp):
        if isinstance(x, ast.Name) and x.id == name:
            pass
    txt = norm(cmp)
    import re
    stripped = re.sub(r"\b%s\.(shape|ndim|dtype|size)\b" % re.escape(name), "", txt)
    stripped = re.sub(r"len\(%s\)" % re.escape(name), "", stripped)
    return re.search(r"\b%s\b" % re.escape(name), stripped) is None


def clause_c(ctx, idx, reg) -> None:
    n = 0
    for info in reg.concrete_instructions():
        v = info.cls.methods.get("_validate")
        if v is None:
            continue
        # locals bound to params: x = self.params["k"]
        pvars: Dict[str, str] = {}
        for a in walk_no_nested(v.node):
            if isinstance(a, ast.Assign) and len(a.targets) == 1 and isinstance(a.targets[0], ast.Name) and isinstance(a.value, ast.Subscript):
                k = const_str(a.value.slice)
                if k is not None and "params" in norm(a.value.value):
                    pvars[a.targets[0].id] = k
        insp = _value_inspections(v, pvars)
        if not insp:
            continue
        n += 1
        g = cfgmod.build(v.node)
        for node_ast, var in insp:
            pkey = pvars[var]
            key = f"{info.cls.qualname}._validate|{pkey}"
            if (info.cls.qualname, pkey) in VALIDATE_EXEMPT:
                ctx.instance("C09c", key, "exempt", reason=VALIDATE_EXEMPT[(info.cls.qualname, pkey)])
                continue
            target_nodes = [nd for nd in g.nodes if nd.stmt is not None and any(x is node_ast for x in cfgmod.own_nodes(nd))]
            if not target_nodes:
                continue

            def is_guard(nd, var=var):
                if nd.kind != "test" or not isinstance(nd.stmt, ast.If):
                    return False
                t = nd.stmt.test
                ok = any(isinstance(c, ast.Call) and isinstance(c.func, ast.Attribute) and c.func.attr in ("is_abstract", "_can_validate_variable")
                         and any(isinstance(x, ast.Name) and x.id == var for a in c.args for x in ast.walk(a)) for c in ast.walk(t))
                exits = any(isinstance(b, (ast.Return, ast.Raise)) for b in nd.stmt.body)
                return ok and exits

            bad = [t for t in target_nodes if not g.dominates(is_guard, t.id)]
            ctx.obligation("C09c", key, not bad, f"{ctx.relpath(v.file)}:{node_ast.lineno}")
            if bad:
                ctx.violation("C09c", key, v.file, node_ast.lineno,
                              f"{info.cls.name}._validate inspects the value of `{pkey}` (`{norm(node_ast)[:60]}`) without a dominating "
                              f"`if connector.is_abstract({var}): return`: under jax.jit / tf.function the parameter is a tracer and the "
                              f"test raises or is baked into the trace", norm(node_ast)[:90])
    ctx.require_floor("value-inspecting _validate methods", n, 8)


# ================================================================================================ (d)


def clause_d(ctx: Context, idx) -> None:
    from .. import recurrence as rc
    mn = idx.module("piquasso._math.hermite")
    mj = idx.module("piquasso._math.jax.hermite")
    n_cmp = 0
    for name in ("_entry_raising_ket", "_entry_raising_bra"):
        fn_n, fn_j = mn.functions.get(name), mj.functions.get(name)
        if fn_n is None or fn_j is None:
            raise AnalysisError(f"anchor vanished: {name} in piquasso._math.hermite / piquasso._math.jax.hermite")
        # what the parameters denote is read from the call in the NumPy driver: f(row, basis[col], basis[row], ...)
        drv = mn.functions.get("density_matrix_from_gaussian")
        call = next((c for c in ast.walk(drv.node) if isinstance(c, ast.Call) and isinstance(c.func, ast.Name) and c.func.id == name), None) if drv else None
        if call is None:
            raise AnalysisError(f"anchor vanished: the call of {name} in density_matrix_from_gaussian")
        # the element the call's result is stored in names the roles: M[i, j] = f(...): i is the bra (row) index, j the ket (column) index
        row_name, col_name = "row", "col"
        for a in ast.walk(drv.node):
            if isinstance(a, ast.Assign) and a.value is call and len(a.targets) == 1 and isinstance(a.targets[0], ast.Subscript) \
                    and isinstance(a.targets[0].slice, ast.Tuple) and len(a.targets[0].slice.elts) == 2 \
                    and all(isinstance(x, ast.Name) for x in a.targets[0].slice.elts):
                row_name, col_name = (x.id for x in a.targets[0].slice.elts)
        terms_n = {}
        for pname, arg in zip(fn_n.params(), call.args):
            if isinstance(arg, ast.Subscript) and isinstance(arg.value, ast.Name) and arg.value.id == "basis" and isinstance(arg.slice, ast.Name):
                terms_n[pname] = rc.BRA if arg.slice.id == row_name else (rc.KET if arg.slice.id == col_name else None)
            elif isinstance(arg, ast.Name) and arg.id in (row_name, col_name):
                terms_n[pname] = ("idx", rc.BRA if arg.id == row_name else rc.KET)
        terms_n = {k: v for k, v in terms_n.items() if v is not None}
        terms_j = {p: ("idx", rc.BRA if p == "row" else rc.KET) for p in fn_j.params() if p in ("row", "col")}
        # the matrices of the recurrence are called A, b, density_matrix, d in the reader; a parameter that is not called so takes the name
        # of the (so-called) variable the driver passes for it
        import copy as _copy
        import dataclasses as _dc
        canon = ("A", "b", "density_matrix", "d")
        ren = {}
        for pname, arg in zip(fn_n.params(), call.args):
            if pname not in canon and isinstance(arg, ast.Name) and arg.id in canon and arg.id not in fn_n.params():
                ren[pname] = arg.id
        for k_ in call.keywords:
            if k_.arg and k_.arg not in canon and isinstance(k_.value, ast.Name) and k_.value.id in canon and k_.value.id not in fn_n.params():
                ren[k_.arg] = k_.value.id
        if ren:
            node2 = _copy.deepcopy(fn_n.node)
            for x_ in ast.walk(node2):
                if isinstance(x_, ast.Name) and x_.id in ren:
                    x_.id = ren[x_.id]
                if isinstance(x_, ast.arg) and x_.arg in ren:
                    x_.arg = ren[x_.arg]
            fn_n = _dc.replace(fn_n, node=node2)
            terms_n = {ren.get(k_, k_): v_ for k_, v_ in terms_n.items()}
        try:
            nf_n = rc.NumpyReader(fn_n, terms_n).run()
            nf_j = rc.JaxReader(fn_j, terms_j).run()
        except rc.Unreadable as e:
            ctx.error(str(e))
            continue
        n_cmp += 1
        for part in ("pivot_of", "init", "loops", "divisor"):
            a, b = nf_n[part], nf_j[part]
            ok = a == b
            key = f"piquasso._math.jax.hermite:{name}|same-{part}-as-numpy"
            def show(x):
                if part == "loops":
                    return [rc.fmt_product(p) for p in x]
                if part == "init":
                    return rc.fmt_product(x)
                return rc.fmt(x)
            ctx.obligation("C09d", key, ok, f"{ctx.relpath(fn_j.file)}:{fn_j.line}", numpy=str(show(a)), jax=str(show(b)))
            if not ok:
                if part == "loops":
                    only_n = [rc.fmt_product(p) for p in a if p not in b]
                    only_j = [rc.fmt_product(p) for p in b if p not in a]
                    detail = f"summands only in the NumPy version: {only_n}; only in the JAX version: {only_j}"
                else:
                    detail = f"NumPy: {show(a)}; JAX: {show(b)}"
                ctx.violation("C09d", key, fn_j.file, fn_j.line,
                              f"the two implementations of the density-matrix recurrence {name} differ in their {part.replace('_', ' ')}: {detail}; "
                              f"GaussianState.density_matrix then depends on the connector", detail[:160])
    ctx.require_floor("recurrence functions compared between the NumPy and the JAX implementation", n_cmp, 2)


# ================================================================================================ (e)


def clause_e(ctx: Context, idx) -> None:
    """Hand-written polar decompositions of the connectors (those that do not delegate to scipy): `matrix = U P` with
    P^2 = matrix^dagger matrix for side="right", `matrix = P U` with P^2 = matrix matrix^dagger for side="left" - the contract of
    scipy.linalg.polar, which the NumPy connector uses.  Decided in the matrix-word algebra."""
    from .. import moments as mo
    base = idx.find_class("piquasso.api.connector", "BaseConnector")
    n = 0
    for c in idx.subclasses(base, strict=False):
        f = c.methods.get("polar")
        if f is None or not any(isinstance(x, ast.Call) and (dotted(x.func) or "").split(".")[-1] == "sqrtm" for x in ast.walk(f.node)):
            continue
        params = f.params()
        if len(params) < 2:
            continue
        mname = params[1]
        M = mo.sym("M")
        want = {"right": mo.mul(mo.transpose(mo.conj(M)), M), "left": mo.mul(M, mo.transpose(mo.conj(M)))}
        # straight-line prefix and the two arms
        arms: Dict[str, List[ast.stmt]] = {"right": [], "left": []}
        prefix: List[ast.stmt] = []
        for s_ in f.node.body:
            if isinstance(s_, ast.If):
                node = s_
                while isinstance(node, ast.If):
                    t = node.test
                    side = None
                    if isinstance(t, ast.Compare) and len(t.ops) == 1 and isinstance(t.ops[0], ast.Eq) and isinstance(t.comparators[0], ast.Constant) \
                            and t.comparators[0].value in ("right", "left"):
                        side = t.comparators[0].value
                    if side is None:
                        raise AnalysisError(f"C09e: {f.qualname} branches on something else than side == 'right' / 'left' (undecided)")
                    arms[side] = list(node.body)
                    nxt = node.orelse
                    if len(nxt) == 1 and isinstance(nxt[0], ast.If):
                        node = nxt[0]
                    else:
                        if nxt:
                            other = "left" if side == "right" else "right"
                            if not arms[other]:
                                arms[other] = list(nxt)
                        break
            elif isinstance(s_, ast.Assign):
                prefix.append(s_)
        for side in ("right", "left"):
            env: Dict[str, object] = {mname: M}
            squared = None
            p_name = None
            u_ok = None
            import copy as _copy2

            class _Side(ast.NodeTransformer):
                """`a if side == "right" else b` -> the operand selected for the side under analysis"""

                def visit_IfExp(self, n_):
                    self.generic_visit(n_)
                    t_ = n_.test
                    if isinstance(t_, ast.Compare) and len(t_.ops) == 1 and isinstance(t_.ops[0], (ast.Eq, ast.NotEq)) and isinstance(t_.comparators[0], ast.Constant) \
                            and t_.comparators[0].value in ("right", "left"):
                        truth = (t_.comparators[0].value == side) == isinstance(t_.ops[0], ast.Eq)
                        return n_.body if truth else n_.orelse
                    return n_

            for s_ in prefix + arms[side]:
                if not (isinstance(s_, ast.Assign) and len(s_.targets) == 1 and isinstance(s_.targets[0], ast.Name)):
                    continue
                v = _Side().visit(_copy2.deepcopy(s_.value))
                if isinstance(v, ast.Call) and (dotted(v.func) or "").split(".")[-1] == "sqrtm" and v.args:
                    try:
                        squared = mo.WordEval(env).ev(v.args[0])
                    except mo.Untranslatable as e:
                        ctx.error(f"C09e: {e} (undecided)")
                    p_name = s_.targets[0].id
                    continue
                if isinstance(v, ast.Call) and (dotted(v.func) or "").split(".")[-1] == "inv" and v.args and isinstance(v.args[0], ast.Name):
                    env[s_.targets[0].id] = ("inv", v.args[0].id)
                    continue
                if isinstance(v, ast.BinOp) and isinstance(v.op, ast.MatMult) and p_name is not None:
                    def is_inv_p(e):
                        if isinstance(e, ast.Name) and env.get(e.id) == ("inv", p_name):
                            return True
                        return isinstance(e, ast.Call) and (dotted(e.func) or "").split(".")[-1] == "inv" and e.args and isinstance(e.args[0], ast.Name) and e.args[0].id == p_name
                    is_m = lambda e: isinstance(e, ast.Name) and e.id == mname  # noqa: E731
                    if is_m(v.left) and is_inv_p(v.right):
                        u_ok = side == "right"
                    elif is_inv_p(v.left) and is_m(v.right):
                        u_ok = side == "left"
                    continue
                try:
                    env[s_.targets[0].id] = mo.WordEval(env).ev(v)
                except mo.Untranslatable:
                    pass
            if u_ok is None and p_name is not None:
                # the unitary factor may be written directly in the return statement
                for r_ in [x_ for x_ in f.node.body if isinstance(x_, ast.Return)] + [x_ for st_ in arms[side] for x_ in ast.walk(st_) if isinstance(x_, ast.Return)]:
                    if isinstance(r_.value, ast.Tuple) and len(r_.value.elts) == 2:
                        v = _Side().visit(_copy2.deepcopy(r_.value.elts[0]))
                        if isinstance(v, ast.BinOp) and isinstance(v.op, ast.MatMult):
                            inv_of_p = lambda e: isinstance(e, ast.Call) and (dotted(e.func) or "").split(".")[-1] == "inv" and e.args \
                                and isinstance(e.args[0], ast.Name) and e.args[0].id == p_name  # noqa: E731
                            is_m_ = lambda e: isinstance(e, ast.Name) and e.id == mname  # noqa: E731
                            if is_m_(v.left) and inv_of_p(v.right):
                                u_ok = side == "right"
                            elif inv_of_p(v.left) and is_m_(v.right):
                                u_ok = side == "left"
            key = f"{f.qualname}|side={side}"
            if squared is None or u_ok is None:
                ctx.error(f"C09e: cannot read the {side} arm of {f.qualname} (undecided)")
                continue
            n += 1
            ok = mo.add(squared, want[side], -1) == {} and u_ok
            ctx.obligation("C09e", key, ok, f"{ctx.relpath(f.file)}:{f.line}", P_squared=mo.fmt(squared), expected=mo.fmt(want[side]))
            if not ok:
                ctx.violation("C09e", key, f.file, f.line,
                              f"{c.name}.polar(side='{side}') takes P as the square root of {mo.fmt(squared)} and U "
                              f"{'on the wrong side' if not u_ok else 'accordingly'}; scipy.linalg.polar (the NumPy connector) gives P^2 = "
                              f"{mo.fmt(want[side])}: for complex matrices the factors differ and everything built on them (Euler decomposition, "
                              f"active linear gates on the Fock simulators) gives another state than with the NumPy connector", mo.fmt(squared))
    ctx.require_floor("C09e arms of hand-written polar decompositions", n, 2)
    _clause_e_delegating(ctx, idx, base)


def _clause_e_delegating(ctx: Context, idx, base) -> None:
    """polar methods that delegate to a library polar (jax.scipy / scipy): the library call on X with side s gives X = Uq Ph
    (right) or X = Ph Uq (left), Ph Hermitian; the returned pair (u, p) must be single factors with M = u p (right) /
    M = p u (left) as words - by uniqueness of the polar decomposition that is scipy's answer."""
    from .. import moments as mo
    n = 0
    for c in idx.subclasses(base, strict=False):
        f = c.methods.get("polar")
        if f is None or any(isinstance(x, ast.Call) and (dotted(x.func) or "").split(".")[-1] == "sqrtm" for x in ast.walk(f.node)):
            continue

        def is_delegate(e: ast.AST) -> bool:
            return isinstance(e, ast.Call) and (dotted(e.func) or "").split(".")[-1] == "polar" and not (dotted(e.func) or "").startswith("self.polar") \
                and bool(e.args)

        if not any(is_delegate(x) for x in ast.walk(f.node)):
            continue
        params = f.params()
        if len(params) < 3:
            continue
        mname, sname = params[1], params[2]
        M, Uq, Ph = mo.sym("M"), mo.sym("Uq"), mo.sym("Ph")
        for side in ("right", "left"):
            env: Dict[str, object] = {mname: M}
            key = f"{f.qualname}|side={side}"
            result = None
            undecided = None

            def delegate(e: ast.Call):
                X = mo.WordEval(env).ev(e.args[0])
                s_arg = e.args[1] if len(e.args) > 1 else next((k.value for k in e.keywords if k.arg == "side"), None)
                if isinstance(s_arg, ast.IfExp):
                    t = s_arg.test
                    if isinstance(t, ast.Compare) and len(t.ops) == 1 and isinstance(t.ops[0], (ast.Eq, ast.NotEq)) and norm(t.left) == sname \
                            and isinstance(t.comparators[0], ast.Constant):
                        truth = (t.comparators[0].value == side) == isinstance(t.ops[0], ast.Eq)
                        s_arg = s_arg.body if truth else s_arg.orelse
                if s_arg is None:
                    s_ = "right"
                elif isinstance(s_arg, ast.Constant):
                    s_ = s_arg.value
                elif isinstance(s_arg, ast.Name) and s_arg.id == sname:
                    s_ = side
                else:
                    raise mo.Untranslatable(f"side argument `{norm(s_arg)}`")
                if len(X) != 1:
                    raise mo.Untranslatable("delegated polar of a sum")
                (word, coef), = X.items()
                if len(word) != 1 or word[0][0] != "M" or coef != 1:
                    raise mo.Untranslatable(f"delegated polar of `{norm(e.args[0])}`")
                _, cj, tr = word[0]
                rhs = mo.mul(Uq, Ph) if s_ == "right" else mo.mul(Ph, Uq)
                # X = t(M) = rhs  =>  M = t(rhs), t an involution
                m_word = rhs
                if cj:
                    m_word = mo.conj(m_word)
                if tr:
                    m_word = mo.transpose(m_word)
                return m_word

            m_words: List[object] = []

            def run_block(stmts) -> bool:
                nonlocal result, undecided
                for s_ in stmts:
                    if isinstance(s_, ast.Expr) and isinstance(s_.value, ast.Constant):
                        continue
                    if isinstance(s_, ast.If):
                        t = s_.test
                        if isinstance(t, ast.Compare) and len(t.ops) == 1 and isinstance(t.ops[0], (ast.Eq, ast.NotEq)) and norm(t.left) == sname \
                                and isinstance(t.comparators[0], ast.Constant):
                            truth = (t.comparators[0].value == side) == isinstance(t.ops[0], ast.Eq)
                            if run_block(s_.body if truth else s_.orelse):
                                return True
                            continue
                        undecided = f"branches on `{norm(t)[:60]}`"
                        return True
                    if isinstance(s_, ast.Assign) and len(s_.targets) == 1:
                        tg, v = s_.targets[0], s_.value
                        try:
                            if is_delegate(v) and isinstance(tg, ast.Tuple) and len(tg.elts) == 2 and all(isinstance(x, ast.Name) for x in tg.elts):
                                m_words.append(delegate(v))
                                env[tg.elts[0].id], env[tg.elts[1].id] = Uq, Ph
                            elif isinstance(tg, ast.Name):
                                env[tg.id] = mo.WordEval(env).ev(v)
                        except mo.Untranslatable as e:
                            if isinstance(tg, ast.Name):
                                env.pop(tg.id, None)
                            else:
                                undecided = str(e)
                                return True
                        continue
                    if isinstance(s_, ast.Return):
                        v = s_.value
                        try:
                            if is_delegate(v):
                                m_words.append(delegate(v))
                                result = (Uq, Ph)
                            elif isinstance(v, ast.Tuple) and len(v.elts) == 2:
                                result = (mo.WordEval(env).ev(v.elts[0]), mo.WordEval(env).ev(v.elts[1]))
                            else:
                                undecided = f"returns `{norm(v)[:60]}`"
                        except mo.Untranslatable as e:
                            undecided = str(e)
                        return True
                    if isinstance(s_, ast.Raise):
                        undecided = "raises"
                        return True
                return False

            run_block(f.node.body)
            if undecided == "raises":
                continue
            if undecided or result is None or len(m_words) != 1:
                ctx.error(f"C09e: cannot read the {side} path of {f.qualname} ({undecided or 'no single delegated polar call'}); undecided")
                continue
            u, p_ = result
            got = mo.mul(u, p_) if side == "right" else mo.mul(p_, u)

            def single(e, symname):
                return len(e) == 1 and all(len(w) == 1 and w[0][0] == symname and k == 1 for w, k in e.items())

            ok = single(u, "Uq") and single(p_, "Ph") and mo.add(got, m_words[0], -1) == {}
            n += 1
            ctx.obligation("C09e", key, ok, f"{ctx.relpath(f.file)}:{f.line}", returned_product=mo.fmt(got), matrix=mo.fmt(m_words[0]))
            if not ok:
                ctx.violation("C09e", key, f.file, f.line,
                              f"{c.name}.polar(side='{side}') returns (u, p) = ({mo.fmt(u)}, {mo.fmt(p_)}) from a library polar decomposition with "
                              f"matrix = {mo.fmt(m_words[0])}; the product {'u p' if side == 'right' else 'p u'} = {mo.fmt(got)} is not the matrix, so "
                              "the factors differ from scipy.linalg.polar (the NumPy connector) for complex matrices",
                              mo.fmt(got))
    ctx.require_floor("C09e sides of delegating polar methods", n, 2)


# ================================================================================================ (f)


def _storage(e: ast.AST) -> Optional[str]:
    """canonical text of a name / attribute chain; `x._name` and the property `x.name` are one storage"""
    if isinstance(e, ast.Name):
        return e.id
    if isinstance(e, ast.Attribute):
        b = _storage(e.value)
        return None if b is None else f"{b}.{e.attr.lstrip('_')}"
    return None


def clause_f(ctx: Context, idx) -> None:
    from .. import cfg as cfgmod
    n_sites = 0
    for fn in idx.all_functions(include_nested=True):
        calls = [c for c in ast.walk(fn.node) if isinstance(c, ast.Call) and isinstance(c.func, ast.Attribute) and c.func.attr == "assign"
                 and len(c.args) == 3 and _storage(c.args[0]) is not None]
        if not calls:
            continue
        g = cfgmod.build(fn.node)
        # alias classes from plain moves `N = A` / `N1, N2 = A1, A2`
        moves: List[Tuple[str, str]] = []
        stores: Dict[str, int] = {}
        for a in walk_no_nested(fn.node):
            if isinstance(a, ast.Assign):
                for t in a.targets:
                    pairs = [(t, a.value)]
                    if isinstance(t, ast.Tuple) and isinstance(a.value, ast.Tuple) and len(t.elts) == len(a.value.elts):
                        pairs = list(zip(t.elts, a.value.elts))
                    for tt, vv in pairs:
                        ts, vs = _storage(tt), _storage(vv)
                        for x in (ast.walk(tt) if isinstance(tt, ast.Tuple) else [tt]):
                            sx = _storage(x)
                            if sx:
                                stores[sx] = stores.get(sx, 0) + 1
                        if ts and vs and isinstance(tt, ast.Name):
                            moves.append((ts, vs))
        alias: Dict[str, Set[str]] = {}
        for t_, v_ in moves:
            if stores.get(t_, 0) == 1:
                alias.setdefault(v_, set()).add(t_)
                alias.setdefault(t_, set()).add(v_)

        def stmt_node_of(call: ast.Call):
            for nd in g.nodes:
                if nd.stmt is not None and any(x is call for x in cfgmod.own_nodes(nd)):
                    return nd
            return None

        for call in calls:
            nd = stmt_node_of(call)
            if nd is None:
                continue
            n_sites += 1
            a_txt = _storage(call.args[0])
            target = None
            if isinstance(nd.stmt, ast.Assign) and nd.stmt.value is call and len(nd.stmt.targets) == 1:
                target = _storage(nd.stmt.targets[0])
            stale = ({a_txt} | alias.get(a_txt, set())) - ({target} if target else set())
            if not stale:
                continue

            def rebinds(n2, m: str) -> bool:
                st = n2.stmt
                if isinstance(st, ast.Assign):
                    for t in st.targets:
                        for x in ([t] + (list(t.elts) if isinstance(t, ast.Tuple) else [])):
                            if _storage(x) == m:
                                return True
                if isinstance(st, (ast.For,)) and n2.kind == "loop":
                    return any(_storage(x) == m for x in ast.walk(st.target))
                return False

            def stale_reads(n2, m: str) -> List[ast.AST]:
                out = []
                own = list(cfgmod.own_nodes(n2))
                parents = {}
                for x in own:
                    for ch in ast.iter_child_nodes(x):
                        parents[id(ch)] = x
                for x in own:
                    if isinstance(x, (ast.Name, ast.Attribute)) and isinstance(getattr(x, "ctx", None), ast.Load) and _storage(x) == m:
                        par = parents.get(id(x))
                        if isinstance(par, ast.Attribute) and par.attr in ("shape", "dtype", "ndim", "size") :
                            continue
                        if isinstance(par, ast.Call) and (dotted(par.func) or "") == "len":
                            continue
                        if isinstance(par, ast.Attribute):
                            # `m.attr`: a read through m of another storage (state._C when m is `state`) is not a read of m
                            continue
                        out.append(x)
                return out

            for m in sorted(stale):
                seen: Set[int] = set()
                todo = [x for x, _ in g.succ[nd.id]]
                hit = None
                while todo and hit is None:
                    cur = todo.pop()
                    if cur in seen or cur in (cfgmod.EXIT, cfgmod.RAISE):
                        continue
                    seen.add(cur)
                    n2 = g.nodes[cur]
                    if cur == nd.id and m == a_txt:
                        # a loop brings control back to the consuming statement: it starts again from the old array
                        hit = (n2, call.args[0])
                        break
                    rd = stale_reads(n2, m)
                    if rd:
                        hit = (n2, rd[0])
                        break
                    if rebinds(n2, m):
                        continue
                    todo += [x for x, _ in g.succ[cur]]
                key = f"{fn.qualname}|{norm(call.args[0])}->{target or 'expression'}|{m}"
                ctx.obligation("C09f", key, hit is None, f"{ctx.relpath(fn.file)}:{call.lineno}")
                if hit is not None:
                    n2, rd = hit
                    ctx.violation("C09f", key, fn.file, n2.line,
                                  f"`{m}` is read after it was handed to connector.assign at line {call.lineno} (result bound to "
                                  f"{target or 'nothing'}): with the NumPy connector the array was updated in place and the read sees the new "
                                  "content, with the JAX / TensorFlow connectors it still has the old one, so the connectors compute different results",
                                  norm(n2.stmt)[:160] if not isinstance(n2.stmt, (ast.If, ast.For, ast.While)) else norm(rd))
    ctx.require_floor("C09f connector.assign sites", n_sites, 40)


# ================================================================================================ (g)


def clause_g(ctx: Context, idx) -> None:
    import sympy as sp
    from .. import invalg as ia
    cls = idx.find_class("piquasso._simulators.gaussian.state", "GaussianState")
    fn = cls.methods.get("get_phaseshifter_expectation_value")
    if fn is None:
        raise AnalysisError("anchor vanished: GaussianState.get_phaseshifter_expectation_value")
    body = fn.node.body
    tr_if = next((s_ for s_ in body if isinstance(s_, ast.If) and any(isinstance(c, ast.Call) and (dotted(c.func) or "").split(".")[-1] == "is_abstract"
                                                                      for c in ast.walk(s_.test))), None)
    if tr_if is None:
        raise AnalysisError("C09g: the traced-angles arm (`if connector.is_abstract(...)`) of get_phaseshifter_expectation_value vanished")
    top_defs: Dict[str, ast.AST] = {}
    for s_ in body:
        if isinstance(s_, ast.Assign) and len(s_.targets) == 1 and isinstance(s_.targets[0], ast.Name):
            top_defs[s_.targets[0].id] = s_.value
    arm_defs = dict(top_defs)
    for s_ in ast.walk(tr_if):
        if isinstance(s_, ast.Assign) and len(s_.targets) == 1 and isinstance(s_.targets[0], ast.Name):
            arm_defs[s_.targets[0].id] = s_.value
    phi = sp.Symbol("phi", real=True)

    class Reader:
        def __init__(self, defs):
            self.defs = defs
            self.scalars: Dict[str, sp.Expr] = {}

        def role(self, e) -> Optional[str]:
            """'S' (covariance), 'u' (displacement), 'angles'"""
            seen = set()
            while isinstance(e, ast.Name) and e.id in self.defs and e.id not in seen:
                seen.add(e.id)
                e = self.defs[e.id]
            if isinstance(e, ast.Attribute) and e.attr == "complex_covariance":
                return "S"
            if isinstance(e, ast.Attribute) and e.attr == "complex_displacement":
                return "u"
            if isinstance(e, ast.Call) and (dotted(e.func) or "").split(".")[-1] in ("array", "asarray") and e.args and isinstance(e.args[0], ast.Name):
                return "angles"
            return None

        def scalar(self, e) -> sp.Expr:
            """entry of a per-mode vector as a function of that mode's angle"""
            if isinstance(e, ast.Constant):
                return sp.I * sp.nsimplify(e.value.imag) + sp.nsimplify(e.value.real) if isinstance(e.value, complex) else sp.nsimplify(e.value)
            if isinstance(e, ast.Name):
                if self.role(e) == "angles":
                    return phi
                if e.id in self.defs:
                    return self.scalar(self.defs[e.id])
                raise AnalysisError(f"C09g: free name `{e.id}` in a diagonal (undecided)")
            if isinstance(e, ast.UnaryOp) and isinstance(e.op, ast.USub):
                return -self.scalar(e.operand)
            if isinstance(e, ast.BinOp):
                a, b = self.scalar(e.left), self.scalar(e.right)
                return {ast.Add: a + b, ast.Sub: a - b, ast.Mult: a * b, ast.Div: a / b}.get(type(e.op)) if type(e.op) in (ast.Add, ast.Sub, ast.Mult, ast.Div) \
                    else (_ for _ in ()).throw(AnalysisError(f"C09g: operator in `{norm(e)[:40]}` (undecided)"))
            if isinstance(e, ast.Call):
                nm = (dotted(e.func) or "").split(".")[-1]
                if nm in ("exp", "tan", "sin", "cos") and len(e.args) == 1:
                    return getattr(sp, nm)(self.scalar(e.args[0]))
                if nm == "concatenate" and e.args and isinstance(e.args[0], (ast.List, ast.Tuple)) and len(e.args[0].elts) == 2 \
                        and norm(e.args[0].elts[0]) == norm(e.args[0].elts[1]):
                    return self.scalar(e.args[0].elts[0])
            raise AnalysisError(f"C09g: `{norm(e)[:50]}` is outside the fragment read for diagonals (undecided)")

        def mat(self, e) -> "ia.Expr":
            if isinstance(e, ast.Name):
                r = self.role(e)
                if r == "S":
                    return ia.general()
                d_ = self.defs.get(e.id)
                if isinstance(d_, ast.Call) and (dotted(d_.func) or "").split(".")[-1] == "diag" and d_.args:
                    self.scalars[e.id] = self.scalar(d_.args[0])
                    return ia.diag(e.id)
                if d_ is not None:
                    return self.mat(d_)
                raise AnalysisError(f"C09g: free name `{e.id}` (undecided)")
            if isinstance(e, ast.Call) and (dotted(e.func) or "").split(".")[-1] == "diag" and e.args:
                nm_ = "diag<" + norm(e.args[0])[:30] + ">"
                self.scalars[nm_] = self.scalar(e.args[0])
                return ia.diag(nm_)
            if isinstance(e, tuple) and e and e[0] == "diag":
                return ia.diag(e[1])
            if isinstance(e, ast.BinOp) and isinstance(e.op, ast.Mult):
                # S * d[None, :] = S @ diag(d);  d[:, None] * S = diag(d) @ S
                for m_, v_, right in ((e.left, e.right, True), (e.right, e.left, False)):
                    if self.role(m_) == "S" and isinstance(v_, ast.Subscript) and isinstance(v_.slice, ast.Tuple) and len(v_.slice.elts) == 2:
                        a0, a1 = v_.slice.elts
                        is_none = lambda x: isinstance(x, ast.Constant) and x.value is None  # noqa: E731
                        full = lambda x: isinstance(x, ast.Slice) and x.lower is None and x.upper is None  # noqa: E731
                        nm_ = "diag<" + norm(v_.value)[:30] + ">"
                        if is_none(a0) and full(a1):
                            self.scalars[nm_] = self.scalar(v_.value)
                            return ia.mul(ia.general(), ia.diag(nm_))
                        if full(a0) and is_none(a1):
                            self.scalars[nm_] = self.scalar(v_.value)
                            return ia.mul(ia.diag(nm_), ia.general())
            if isinstance(e, ast.BinOp):
                if isinstance(e.op, ast.MatMult):
                    return ia.mul(self.mat(e.left), self.mat(e.right))
                if isinstance(e.op, (ast.Add, ast.Sub)):
                    return ia.add(self.mat(e.left), self.mat(e.right), 1 if isinstance(e.op, ast.Add) else -1)
                if isinstance(e.op, ast.Mult):
                    for k_, o_ in ((e.left, e.right), (e.right, e.left)):
                        if isinstance(k_, ast.Constant):
                            return ia.scale(self.mat(o_), self.scalar(k_))
                if isinstance(e.op, ast.Div) and isinstance(e.right, ast.Constant):
                    return ia.scale(self.mat(e.left), 1 / self.scalar(e.right))
            raise AnalysisError(f"C09g: `{norm(e)[:50]}` is outside the matrix fragment (undecided)")

        def inverse_kernel(self, e) -> "ia.Expr":
            """e = coefficient * conj(u) @ ... @ u  ->  inverse of the kernel between u^dagger and u"""
            coef = sp.Integer(1)
            while True:
                if isinstance(e, ast.UnaryOp) and isinstance(e.op, ast.USub):
                    coef, e = -coef, e.operand
                elif isinstance(e, ast.BinOp) and isinstance(e.op, ast.Div) and isinstance(e.right, ast.Constant):
                    coef, e = coef / self.scalar(e.right), e.left
                elif isinstance(e, ast.Name) and e.id in self.defs and self.role(e) is None:
                    e = self.defs[e.id]
                else:
                    break

            def flat(x) -> list:
                if isinstance(x, ast.BinOp) and isinstance(x.op, ast.MatMult):
                    return flat(x.left) + flat(x.right)
                if isinstance(x, ast.Call) and (dotted(x.func) or "").split(".")[-1] == "solve" and len(x.args) == 2:
                    return [("inv", x.args[0])] + flat(x.args[1])
                if isinstance(x, ast.Call) and (dotted(x.func) or "").split(".")[-1] == "inv" and len(x.args) == 1:
                    return [("inv", x.args[0])]
                if isinstance(x, ast.Name) and x.id in self.defs and self.role(x) is None and not (
                        isinstance(self.defs[x.id], ast.Call) and (dotted(self.defs[x.id].func) or "").split(".")[-1] == "diag"):
                    return flat(self.defs[x.id])
                return [x]
            fs = flat(e)
            # conj(d * u) = conj(u) @ diag(conj(d)) for a per-mode vector d
            if fs and isinstance(fs[0], ast.Call) and (dotted(fs[0].func) or "").split(".")[-1] in ("conj", "conjugate") and fs[0].args \
                    and isinstance(fs[0].args[0], ast.BinOp) and isinstance(fs[0].args[0].op, ast.Mult):
                b_ = fs[0].args[0]
                for d_, u_ in ((b_.left, b_.right), (b_.right, b_.left)):
                    if self.role(u_) == "u":
                        nm_ = "conj<" + norm(d_)[:30] + ">"
                        self.scalars[nm_] = sp.conjugate(self.scalar(d_))
                        fs = [ast.Call(func=fs[0].func, args=[u_], keywords=[]), ("diag", nm_)] + fs[1:]
                        break
            # (d * u) as the last factor = diag(d) @ u
            if fs and isinstance(fs[-1], ast.BinOp) and isinstance(fs[-1].op, ast.Mult):
                b_ = fs[-1]
                for d_, u_ in ((b_.left, b_.right), (b_.right, b_.left)):
                    if self.role(u_) == "u":
                        nm_ = "diag<" + norm(d_)[:30] + ">"
                        self.scalars[nm_] = self.scalar(d_)
                        fs = fs[:-1] + [("diag", nm_), u_]
                        break
            if len(fs) < 3 or not (isinstance(fs[0], ast.Call) and (dotted(fs[0].func) or "").split(".")[-1] in ("conj", "conjugate")
                                   and fs[0].args and self.role(fs[0].args[0]) == "u") or self.role(fs[-1]) != "u":
                raise AnalysisError(f"C09g: the exponent `{norm(e)[:60]}` is not of the form conj(u) @ ... @ u (undecided)")
            mid = fs[1:-1]
            invs = [i_ for i_, f_ in enumerate(mid) if isinstance(f_, tuple) and f_[0] == "inv"]
            if len(invs) != 1:
                raise AnalysisError("C09g: the kernel does not contain exactly one inverse (undecided)")
            L, R = ia.ident(), ia.ident()
            for f_ in mid[:invs[0]]:
                L = ia.mul(L, self.mat(f_))
            for f_ in mid[invs[0] + 1:]:
                R = ia.mul(R, self.mat(f_))
            M = self.mat(mid[invs[0]][1])
            inv_k = ia.mul(ia.mul(ia.inv_diag(R), M), ia.inv_diag(L))
            return ia.scale(inv_k, -1 / coef)   # exponent = -(u^dagger T u): T = -coef * (L inv(M) R)

    def exponent_expr(stmts, defs) -> Optional[ast.AST]:
        # the argument of exp(...) in the returned value
        for r_ in [x for st in stmts for x in ast.walk(st) if isinstance(x, ast.Return)]:
            for c in ast.walk(r_.value):
                if isinstance(c, ast.Call) and (dotted(c.func) or "").split(".")[-1] == "exp" and c.args and isinstance(c.args[0], ast.Name) \
                        and c.args[0].id in defs and not isinstance(defs[c.args[0].id], ast.Constant):
                    d_ = defs[c.args[0].id]
                    if any(isinstance(y, ast.Call) and (dotted(y.func) or "").split(".")[-1] in ("solve", "inv") for y in ast.walk(d_)) \
                            or any(isinstance(y, ast.Name) and y.id in defs and any(isinstance(z, ast.Call) and (dotted(z.func) or "").split(".")[-1] in ("solve", "inv")
                                                                                 for z in ast.walk(defs[y.id])) for y in ast.walk(d_)):
                        return d_
        return None

    eager_stmts = [s_ for s_ in body if s_ is not tr_if]
    e_tr, e_ea = exponent_expr(tr_if.body, arm_defs), exponent_expr(eager_stmts, top_defs)
    if e_tr is None or e_ea is None:
        raise AnalysisError("C09g: cannot find the exponents of the two formulas (undecided)")
    rt, re_ = Reader(arm_defs), Reader(top_defs)
    kt, ke = rt.inverse_kernel(e_tr), re_.inverse_kernel(e_ea)

    def to_scalar_words(k, reader):
        out = {}
        for w, c in k.items():
            segs = tuple(sp.simplify(sp.prod([reader.scalars[n_] ** p_ for n_, p_ in seg])) for seg in w)
            key_ = len(w)
            out.setdefault(key_, []).append((segs, c))
        return out
    st, se = to_scalar_words(kt, rt), to_scalar_words(ke, re_)
    ok = set(st) == set(se)
    detail = ""
    if ok:
        for nseg in st:
            # words with the general matrix: every diagonal segment must agree on both sides; without it: the sums must agree
            if nseg == 1:
                a = sum(c * sg[0] for sg, c in st[nseg])
                b = sum(c * sg[0] for sg, c in se[nseg])
                d_ = sp.simplify((a - b).rewrite(sp.exp))
                if d_ != 0 and sp.simplify(sp.expand_trig(sp.simplify(d_))) != 0:
                    ok = False
                    detail = f"diagonal parts differ: {sp.simplify(a)} vs {sp.simplify(b)}"
            else:
                def canon(lst):
                    return sorted((tuple(str(sp.simplify(x)) for x in sg), str(sp.simplify(c))) for sg, c in lst)
                if canon(st[nseg]) != canon(se[nseg]):
                    ok = False
                    detail = f"the covariance enters as {canon(st[nseg])} in the traced formula and as {canon(se[nseg])} in the eager one"
    else:
        detail = "different powers of the covariance matrix"
    key = f"{fn.qualname}|traced and eager exponents have the same kernel"
    ctx.obligation("C09g", key, ok, f"{ctx.relpath(fn.file)}:{tr_if.lineno}", traced_inverse_kernel=ia.fmt(kt), eager_inverse_kernel=ia.fmt(ke))
    if not ok:
        ctx.violation("C09g", key, fn.file, tr_if.lineno,
                      f"the exponent used for traced angles is u^dagger T u with T^-1 = {ia.fmt(kt)}, the eager formula has T^-1 = {ia.fmt(ke)}: {detail}; "
                      f"under jax.jit / tf.function the expectation value differs from the eager one (diagonal matrices commute with each other, not "
                      f"with the covariance matrix)", norm(e_tr)[:120])
