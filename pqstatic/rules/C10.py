"""C10 — automatic derivatives equal the true derivatives: structural / symbolic necessary clauses for the
hand-written gradient rules.

(a) *ladder-word derivation*: the matrices `r_grad` / `phi_grad` built with `np.roll` and square-root index weights in
    `create_single_mode_displacement_gradient` and `create_single_mode_squeezing_gradient` are read as sums of ladder
    words coeff * a^dagger^i T a^j (pqstatic/ladder.py) and compared, coefficient by coefficient (sympy), with the
    derivative of the normal-ordered factorisation
        D(alpha) = e^{-r^2/2} e^{alpha a^dagger} e^{-conj(alpha) a},   alpha = r e^{i phi}
        S(z)     = sech(r)^{1/2} e^{-(e^{i phi} tanh r / 2) a^dagger^2} sech(r)^{a^dagger a} e^{(e^{-i phi} tanh r / 2) a^2}
    whose parameters are cross-checked against the scalars the forward builders define.
(b) *einsum adjoint rule*: for the linear maps y = M x of the Fock simulator (active single-mode gates, interferometer
    blocks) the einsum specifications of the two vector-Jacobian products are alpha-equivalent to the adjoints derived
    from the forward specification (batched and unbatched), and the operand that is not the cotangent is conjugated.
(c) *cotangent order*: every gradient callback returns its cotangents in the order of the arguments of the function it
    is attached to (first returned cotangent <-> first argument).
(d) *pairing form*: a real parameter's cotangent is Re sum(upstream * conj(dT/dp)), in both the static and the
    traced arm of the callback.
The values of the gradients (agreement with finite differences of the NumPy simulation) are numerical and NOT decided;
the interferometer-representation gradient recurrence and the native permanent VJP are not covered.
"""

from __future__ import annotations

import ast
from typing import Dict, List, Optional, Set, Tuple

import sympy as sp

from .. import ladder as ld
from ..index import FuncInfo, dotted, get_index, norm, walk_no_nested
from ..report import AnalysisError, Context

LEVEL = "other"
GRAD_MOD = "piquasso._math.gradients"
FOCK_MOD = "piquasso._math.fock"
GATE_MOD = "piquasso._math.gate_matrices"
PURE_MOD = "piquasso._simulators.fock.pure.simulation_steps"
PASSIVE_MOD = "piquasso._simulators.fock.pure.simulation_steps.passive_linear"


def _inner_def(fn: FuncInfo) -> ast.FunctionDef:
    for s in fn.node.body:
        if isinstance(s, ast.FunctionDef):
            return s
    raise AnalysisError(f"anchor vanished: inner gradient function of {fn.qualname}")


def _returns(f: ast.AST) -> List[ast.Return]:
    return [n for n in ast.walk(f) if isinstance(n, ast.Return) and n.value is not None]


def _unwrap_const(e: ast.AST) -> ast.AST:
    """tf.constant(x) -> x"""
    while isinstance(e, ast.Call) and (dotted(e.func) or "").split(".")[-1] in ("constant", "convert_to_tensor") and e.args:
        e = e.args[0]
    return e


# ---------------------------------------------------------------------------------------------------------------
# (a), (c), (d) for the displacement and squeezing matrices
# ---------------------------------------------------------------------------------------------------------------
def _matrix_gradient(ctx: Context, idx, creator_name: str, forward_getter: str, forward_builder: str, oracle_params, p: int) -> int:
    fn = idx.find_function(GRAD_MOD, creator_name)
    inner = _inner_def(fn)
    env: Dict[str, object] = {"r": ld.Sc(ld.R), "phi": ld.Sc(ld.PHI), "transformation": ld.base_matrix()}
    ev = ld.LadderEval(env)
    undecided: Dict[str, str] = {}
    for s in inner.body:
        if isinstance(s, ast.Assign) and len(s.targets) == 1 and isinstance(s.targets[0], ast.Name):
            try:
                ev.env[s.targets[0].id] = ev.ev(s.value)
            except ld.NotLadder as e:
                ev.env.pop(s.targets[0].id, None)
                undecided[s.targets[0].id] = str(e)
    # (d) pairing form and the name of the differentiated matrix behind each returned cotangent
    rets = _returns(inner)
    if not rets:
        raise AnalysisError(f"C10: {fn.qualname} returns nothing")
    tup = rets[-1].value
    if not isinstance(tup, ast.Tuple):
        raise AnalysisError(f"C10: {fn.qualname} does not return a tuple of cotangents")
    n_ob = 0
    matrices: List[Optional[str]] = []
    for el in tup.elts:
        el = _unwrap_const(el)
        if not isinstance(el, ast.Name):
            matrices.append(None)
            continue
        sources = [a.value for a in ast.walk(inner) if isinstance(a, ast.Assign) and len(a.targets) == 1
                   and isinstance(a.targets[0], ast.Name) and a.targets[0].id == el.id]
        mats: Set[str] = set()
        ok_form = bool(sources)
        for v in sources:
            v = _unwrap_const(v)
            # real( sum( upstream * conj(G) ) )
            form = None
            if isinstance(v, ast.Call) and (dotted(v.func) or "").split(".")[-1] == "real" and v.args:
                s1 = v.args[0]
                if isinstance(s1, ast.Call) and (dotted(s1.func) or "").split(".")[-1] in ("sum", "reduce_sum") and s1.args:
                    pr = s1.args[0]
                    if isinstance(pr, ast.BinOp) and isinstance(pr.op, ast.Mult):
                        for a, b in ((pr.left, pr.right), (pr.right, pr.left)):
                            if isinstance(a, ast.Name) and a.id == "upstream" and isinstance(b, ast.Call) \
                                    and (dotted(b.func) or "").split(".")[-1] in ("conj", "conjugate") and b.args and isinstance(b.args[0], ast.Name):
                                form = b.args[0].id
            if form is None:
                ok_form = False
            else:
                mats.add(form)
        key = f"{fn.qualname}|{el.id}|pairing"
        good = ok_form and len(mats) == 1
        n_ob += 1
        ctx.obligation("C10d", key, good, where=f"{ctx.relpath(fn.file)}:{inner.lineno}", arms=len(sources))
        if not good:
            ctx.violation("C10d", key, fn.file, inner.lineno,
                          f"cotangent `{el.id}` is not Re sum(upstream * conj(dT/dp)) with one matrix in every arm of the callback "
                          f"(matrices used: {sorted(mats) or 'none recognised'})", construct=el.id)
        matrices.append(next(iter(mats)) if len(mats) == 1 else None)
    # (c) argument order of the function the callback is attached to
    getter = idx.find_function(FOCK_MOD, forward_getter)
    wrapped = [s for s in getter.node.body if isinstance(s, ast.FunctionDef)]
    if not wrapped:
        raise AnalysisError(f"anchor vanished: custom-gradient function inside {getter.qualname}")
    fparams = [a.arg for a in wrapped[0].args.args]
    thetas = {"r": ld.R, "phi": ld.PHI}
    if len(fparams) != len(matrices) or any(q not in thetas for q in fparams):
        raise AnalysisError(f"C10: arguments {fparams} of {getter.qualname}'s inner function are not (r, phi)")
    # forward convention
    fwd = idx.find_function(GATE_MOD, forward_builder)
    fev = ld.LadderEval({"r": ld.Sc(ld.R), "phi": ld.Sc(ld.PHI)})
    seen_scalars: List[sp.Expr] = []
    for n in ast.walk(fwd.node):
        if isinstance(n, (ast.BinOp, ast.Call)):
            try:
                v = fev.ev(n)
                if isinstance(v, ld.Sc):
                    seen_scalars.append(v.e)
            except ld.NotLadder:
                pass
            except Exception:  # noqa: BLE001 - sympy on odd inputs
                pass
    c, A, g, B, anchors = oracle_params
    for a in anchors:
        hit = any(sp.simplify((s - a).rewrite(sp.exp)) == 0 for s in seen_scalars)
        key = f"{fwd.qualname}|convention|{a}"
        n_ob += 1
        ctx.obligation("C10a", key, hit, where=f"{ctx.relpath(fwd.file)}:{fwd.line}")
        if not hit:
            ctx.violation("C10a", key, fwd.file, fwd.line,
                          f"the forward builder no longer defines the scalar {a} the gradient formulas are derived from (the convention of "
                          "the matrix changed without its gradient)", construct=str(a))
    for pname, mname in zip(fparams, matrices):
        key = f"{fn.qualname}|d/d{pname}"
        if mname is None:
            continue
        if mname not in ev.env:
            ctx.error(f"C10a: `{mname}` in {fn.qualname} is outside the ladder fragment ({undecided.get(mname, 'not assigned')}); undecided")
            continue
        try:
            got = ld.words(ev.env[mname])
        except ld.NotLadder as e:
            n_ob += 1
            ctx.obligation("C10a", key, False, where=f"{ctx.relpath(fn.file)}:{inner.lineno}")
            ctx.violation("C10a", key, fn.file, inner.lineno, f"`{mname}` is not a sum of ladder words: {e}", construct=mname)
            continue
        want = ld.oracle(c, A, g, B, p, thetas[pname])
        ok = ld.equal(got, want)
        n_ob += 1
        ctx.obligation("C10a", key, ok, where=f"{ctx.relpath(fn.file)}:{inner.lineno}", got=ld.show(got), want=ld.show(want))
        if not ok:
            ctx.violation("C10a", key, fn.file, inner.lineno,
                          f"the cotangent returned for `{pname}` is built from `{mname}` = {ld.show(got)}, but d/d{pname} of the "
                          f"normal-ordered form is {ld.show(want)}", construct=f"{mname} = {ld.show(got)}")
    return n_ob


def clause_a(ctx: Context) -> None:
    ctx.rule("C10a", "the gradient matrices of the displacement and squeezing operators, read as ladder words from the roll / "
                     "square-root idioms, equal the derivative of the normal-ordered factorisation, for the parameter whose "
                     "position the cotangent is returned in; the forward builders define the scalars of that factorisation")
    ctx.rule("C10d", "a real parameter's cotangent is Re sum(upstream * conj(dT/dp)) in every arm of the callback")
    idx = get_index(ctx.repo)
    r, phi = ld.R, ld.PHI
    alpha = r * sp.exp(sp.I * phi)
    n = _matrix_gradient(ctx, idx, "create_single_mode_displacement_gradient", "get_single_mode_displacement_operator",
                         "create_single_mode_displacement_matrix",
                         (sp.exp(-r**2 / 2), alpha, sp.Integer(1), -sp.conjugate(alpha), [alpha, sp.exp(-r**2 / 2)]), 1)
    tz = sp.exp(sp.I * phi) * sp.tanh(r)
    n += _matrix_gradient(ctx, idx, "create_single_mode_squeezing_gradient", "get_single_mode_squeezing_operator",
                          "create_single_mode_squeezing_matrix",
                          (sp.sqrt(1 / sp.cosh(r)), -tz / 2, 1 / sp.cosh(r), sp.conjugate(tz) / 2, [tz, 1 / sp.cosh(r)]), 2)
    ctx.require_floor("C10a/d obligations (ladder words, conventions, pairing forms)", n, 12)


# ---------------------------------------------------------------------------------------------------------------
# (b), (c) einsum adjoint rule for the linear maps of the Fock simulator
# ---------------------------------------------------------------------------------------------------------------
def _spec_arms(fn_node: ast.AST, e: ast.AST) -> Dict[str, str]:
    """An einsum specification: a constant, or a name bound to `A if is_batch else B` -> {'batch': A, 'plain': B}."""
    if isinstance(e, ast.Constant) and isinstance(e.value, str):
        return {"plain": e.value, "batch": e.value}
    if isinstance(e, ast.Name):
        for a in ast.walk(fn_node):
            if isinstance(a, ast.Assign) and len(a.targets) == 1 and isinstance(a.targets[0], ast.Name) and a.targets[0].id == e.id:
                v = a.value
                if isinstance(v, ast.Constant) and isinstance(v.value, str):
                    return {"plain": v.value, "batch": v.value}
                if isinstance(v, ast.IfExp) and isinstance(v.body, ast.Constant) and isinstance(v.orelse, ast.Constant):
                    t = norm(v.test)
                    if "batch" in t:
                        neg = isinstance(v.test, ast.UnaryOp)
                        return {"batch": v.orelse.value if neg else v.body.value, "plain": v.body.value if neg else v.orelse.value}
    raise AnalysisError(f"C10b: einsum specification `{norm(e)[:40]}` is not a constant or a batch-conditional constant")


def _root(fn_node: ast.AST, e: ast.AST, depth: int = 0) -> Tuple[Optional[str], bool]:
    """(root parameter name, conjugated?) of an operand, following local single assignments, subscripts and conj()."""
    conj = False
    while True:
        if isinstance(e, ast.Subscript):
            e = e.value
            continue
        if isinstance(e, ast.Call) and (dotted(e.func) or "").split(".")[-1] in ("conj", "conjugate") and e.args:
            conj = not conj
            e = e.args[0]
            continue
        break
    if isinstance(e, ast.Name):
        if depth < 6:
            srcs = [a.value for a in ast.walk(fn_node) if isinstance(a, ast.Assign) and len(a.targets) == 1
                    and isinstance(a.targets[0], ast.Name) and a.targets[0].id == e.id]
            # `upstream = upstream.numpy()` style re-bindings keep the root
            srcs = [s for s in srcs if not (isinstance(s, ast.Call) and isinstance(s.func, ast.Attribute) and isinstance(s.func.value, ast.Name)
                                            and s.func.value.id == e.id)]
            srcs = [s for s in srcs if not isinstance(s, ast.ListComp)]
            if len(srcs) == 1:
                r, c = _root(fn_node, srcs[0], depth + 1)
                if r is not None:
                    return r, conj != c
        return e.id, conj
    return None, conj


def _alpha_equiv(a: Tuple[str, str, str], b: Tuple[str, str, str]) -> bool:
    if [len(x) for x in a] != [len(x) for x in b]:
        return False
    m: Dict[str, str] = {}
    inv: Dict[str, str] = {}
    for sa, sb in zip(a, b):
        for ca, cb in zip(sa, sb):
            if m.setdefault(ca, cb) != cb or inv.setdefault(cb, ca) != ca:
                return False
    return True


def _split(spec: str) -> Tuple[str, str, str]:
    lhs, out = spec.replace(" ", "").split("->")
    a, b = lhs.split(",")
    return a, b, out


def _einsums(fn_node: ast.AST) -> List[ast.Call]:
    return [n for n in ast.walk(fn_node) if isinstance(n, ast.Call) and (dotted(n.func) or "").split(".")[-1] == "einsum" and len(n.args) == 3]


def _deps(fn_node: ast.AST, name: str) -> Set[str]:
    """Names `name` depends on (assignments, appends, augmented and subscript stores), transitively."""
    edges: Dict[str, Set[str]] = {}

    def names(e: ast.AST) -> Set[str]:
        return {n.id for n in ast.walk(e) if isinstance(n, ast.Name)}

    for n in ast.walk(fn_node):
        if isinstance(n, ast.Assign):
            for t in n.targets:
                base = t
                while isinstance(base, (ast.Subscript, ast.Attribute)):
                    base = base.value
                if isinstance(base, ast.Name):
                    edges.setdefault(base.id, set()).update(names(n.value))
        elif isinstance(n, ast.AugAssign):
            base = n.target
            while isinstance(base, (ast.Subscript, ast.Attribute)):
                base = base.value
            if isinstance(base, ast.Name):
                edges.setdefault(base.id, set()).update(names(n.value))
        elif isinstance(n, ast.Call) and isinstance(n.func, ast.Attribute) and n.func.attr in ("append", "extend") and isinstance(n.func.value, ast.Name):
            for a in n.args:
                edges.setdefault(n.func.value.id, set()).update(names(a))
    seen: Set[str] = set()
    todo = [name]
    while todo:
        x = todo.pop()
        for y in edges.get(x, ()):  # type: ignore[arg-type]
            if y not in seen:
                seen.add(y)
                todo.append(y)
    return seen


def _linear_map(ctx: Context, idx, mod: str, forward_name: str, creator_name: str, attach_name: str) -> int:
    fwd = idx.find_function(mod, forward_name)
    creator = idx.find_function(mod, creator_name)
    inner = _inner_def(creator)
    fe = _einsums(fwd.node)
    if len(fe) != 1:
        raise AnalysisError(f"C10b: expected one einsum in {fwd.qualname}, found {len(fe)}")
    fspec = _spec_arms(fwd.node, fe[0].args[0])
    froles = [_root(fwd.node, a)[0] for a in fe[0].args[1:]]
    xname = "state_vector"
    if xname not in froles or len(set(froles)) != 2:
        raise AnalysisError(f"C10b: operands of the forward einsum in {fwd.qualname} are {froles}")
    mname = [r for r in froles if r != xname][0]
    n_ob = 0
    produced: Dict[str, str] = {}  # assigned name -> differentiated role
    for call in _einsums(inner):
        spec = _spec_arms(inner, call.args[0])
        ops = [_root(inner, a) for a in call.args[1:]]
        roles = [o[0] for o in ops]
        if "upstream" not in roles or len(roles) != 2:
            ctx.error(f"C10b: einsum `{norm(call)[:80]}` in {creator.qualname} has operands {roles}; undecided")
            continue
        other = [o for o in ops if o[0] != "upstream"][0]
        if other[0] not in (xname, mname):
            ctx.error(f"C10b: operand root `{other[0]}` in {creator.qualname} is neither the state vector nor the matrix; undecided")
            continue
        target = xname if other[0] == mname else mname
        key = f"{creator.qualname}|vjp wrt {target}"
        good = True
        why = []
        for arm in ("plain", "batch"):
            fa, fb, fo = _split(fspec[arm])
            lab = {froles[0]: fa, froles[1]: fb, "upstream": fo}
            want = (lab[roles[0]], lab[roles[1]], lab[target])
            got = _split(spec[arm])
            if not _alpha_equiv(want, got):
                good = False
                why.append(f"{arm}: `{spec[arm]}` is not the adjoint `{want[0]},{want[1]}->{want[2]}` of the forward `{fspec[arm]}`")
        if not other[1]:
            good = False
            why.append(f"the operand `{other[0]}` is not conjugated")
        n_ob += 1
        ctx.obligation("C10b", key, good, where=f"{ctx.relpath(creator.file)}:{call.lineno}", spec=spec, forward=fspec)
        if not good:
            ctx.violation("C10b", key, creator.file, call.lineno,
                          f"vector-Jacobian product with respect to `{target}`: " + "; ".join(why), construct=norm(call)[:160])
        # which local name receives this product
        for a in ast.walk(inner):
            if isinstance(a, ast.Assign) and any(y is call for y in ast.walk(a.value)) and len(a.targets) == 1 and isinstance(a.targets[0], ast.Name):
                produced[a.targets[0].id] = target
            elif isinstance(a, ast.AugAssign) and any(y is call for y in ast.walk(a.value)):
                b_ = a.target
                while isinstance(b_, (ast.Subscript, ast.Attribute)):
                    b_ = b_.value
                if isinstance(b_, ast.Name):
                    produced[b_.id] = target
            elif isinstance(a, ast.Call) and isinstance(a.func, ast.Attribute) and a.func.attr == "append" and a.args \
                    and any(y is call for y in ast.walk(a.args[0])) and isinstance(a.func.value, ast.Name):
                produced[a.func.value.id] = target
    # (b') the forward map scatters its result through the index lists (`new[indices] = M @ x[indices]`), so the cotangent of x, which is
    #      collected block by block, must be put back in the order of the state vector on every path: the statement that builds it is
    #      `concatenate(blocks)[concatenate(orders).argsort()]` and is not conditional
    for nm_, role in list(produced.items()):
        if role != xname:
            continue
        finals = [a for a in ast.walk(inner) if isinstance(a, ast.Assign) and len(a.targets) == 1 and isinstance(a.targets[0], ast.Name)
                  and nm_ in (_deps(inner, a.targets[0].id) | {x.id for x in ast.walk(a.value) if isinstance(x, ast.Name)})
                  and any(isinstance(c_, ast.Call) and (dotted(c_.func) or "").split(".")[-1] == "concatenate" for c_ in ast.walk(a.value))]
        finals = finals[:1]
        for a in finals:
            reordered = isinstance(a.value, ast.Subscript) and any(isinstance(c_, ast.Call) and isinstance(c_.func, ast.Attribute) and c_.func.attr == "argsort"
                                                                      for c_ in ast.walk(a.value.slice))
            top_level = a in inner.body
            key = f"{creator.qualname}|cotangent of {xname} is put back in state-vector order"
            good = reordered and top_level
            n_ob += 1
            ctx.obligation("C10b", key, good, where=f"{ctx.relpath(creator.file)}:{a.lineno}")
            if not good:
                ctx.violation("C10b", key, creator.file, a.lineno,
                              f"the cotangent of `{xname}` is assembled from per-block pieces by `{norm(a.value)[:70]}` "
                              f"{'without the argsort of the collected index lists' if not reordered else 'only on some paths'}: the forward map scatters "
                              f"through the index lists for every mode order, so the pieces are not in state-vector order in general", norm(a)[:120])
    # (c) order of the returned cotangents = order of the arguments of the attached function
    attach = idx.find_function(mod, attach_name)
    wrapped = [s for s in attach.node.body if isinstance(s, ast.FunctionDef)]
    if not wrapped:
        raise AnalysisError(f"anchor vanished: custom-gradient function inside {attach.qualname}")
    order = [a.arg for a in wrapped[0].args.args]
    want_roles = [xname if a == xname else mname for a in order]
    for ret in _returns(inner):
        if not isinstance(ret.value, ast.Tuple):
            continue
        got_roles: List[Optional[str]] = []
        for el in ret.value.elts:
            el = _unwrap_const(el)
            nm = el.id if isinstance(el, ast.Name) else None
            role = None
            if nm is not None:
                closure = _deps(inner, nm) | {nm}
                hits = {produced[k] for k in closure if k in produced}
                if len(hits) == 1:
                    role = next(iter(hits))
            got_roles.append(role)
        key = f"{creator.qualname}|cotangent order|{norm(ret.value)[:60]}"
        ok = got_roles == want_roles
        n_ob += 1
        ctx.obligation("C10c", key, ok, where=f"{ctx.relpath(creator.file)}:{ret.lineno}", returned=got_roles, arguments=order)
        if not ok:
            ctx.violation("C10c", key, creator.file, ret.lineno,
                          f"the callback returns cotangents for {got_roles} but is attached to a function of ({', '.join(order)})",
                          construct=norm(ret)[:160])
    return n_ob


def clause_b(ctx: Context) -> None:
    ctx.rule("C10b", "each vector-Jacobian product of a linear map y = M x is the einsum adjoint of the forward einsum (alpha-"
                     "equivalent specification, batched and unbatched) with the non-cotangent operand conjugated")
    ctx.rule("C10c", "the callback returns the cotangents in the order of the arguments of the function it is attached to")
    idx = get_index(ctx.repo)
    n = _linear_map(ctx, idx, PURE_MOD, "_calculate_state_vector_after_apply_active_gate", "_create_linear_active_gate_gradient_function",
                    "_apply_active_gate_matrix_to_state")
    n += _linear_map(ctx, idx, PASSIVE_MOD, "_calculate_state_vector_after_interferometer", "_create_linear_passive_gate_gradient_function",
                     "_apply_passive_gate_matrix_to_state")
    ctx.require_floor("C10b/c obligations (vjp specifications and cotangent orders)", n, 6)


def _masked_singularities(tree: ast.AST) -> List[Tuple[ast.Call, ast.AST, str]]:
    """three-argument where(mask, a, b) calls one of whose value arguments contains an operation with a singular derivative applied to
    something that is not a literal: power with a non-literal base (0 ** 0, 0 ** k), log, sqrt, division by a non-literal, angle"""
    out = []
    for c in ast.walk(tree):
        if not (isinstance(c, ast.Call) and (dotted(c.func) or "").split(".")[-1] == "where" and len(c.args) == 3):
            continue
        for branch in c.args[1:]:
            for x in ast.walk(branch):
                why = None
                if isinstance(x, ast.Call):
                    nm = (dotted(x.func) or "").split(".")[-1]
                    if nm in ("power", "pow", "float_power") and x.args and not isinstance(x.args[0], ast.Constant):
                        why = "a power of a computed base"
                    elif nm in ("log", "log2", "log10", "sqrt", "angle", "arctan2", "reciprocal", "divide") and x.args and not isinstance(x.args[0], ast.Constant):
                        why = f"{nm} of a computed value"
                elif isinstance(x, ast.BinOp) and isinstance(x.op, ast.Pow) and not isinstance(x.left, ast.Constant) \
                        and not (isinstance(x.right, ast.Constant) and isinstance(x.right.value, int) and x.right.value >= 1):
                    why = "a power of a computed base"
                elif isinstance(x, ast.BinOp) and isinstance(x.op, ast.Div) and not isinstance(x.right, ast.Constant):
                    why = "a division by a computed value"
                if why:
                    out.append((c, x, why))
                    break
    return out


def clause_e(ctx: Context) -> None:
    """Forward maps that are differentiated by the framework (the gate-matrix builders written against connector.np): `where(mask, a, f(x))`
    evaluates *and differentiates* f(x) on the masked entries too; when f has a singular derivative there (0 ** 0, log 0, sqrt 0, 1 / 0) the
    cotangent of the masked branch is 0 * inf = nan and the whole gradient is nan, although every value is right."""
    ctx.rule("C10e", "no where(mask, a, f(x)) in the differentiated forward maps hides an operation with a singular derivative (power of a computed "
                     "base, log, sqrt, division) behind the mask: the framework differentiates both branches")
    idx = get_index(ctx.repo)
    fixture = ast.parse("def f(np, x, n):\n    return np.where(n == 0, 1.0, np.power(x, n))\ndef g(np, x):\n    return np.where(x > 0, 1, -1)\n")
    if [len(_masked_singularities(f_)) for f_ in fixture.body] != [1, 0]:
        raise AnalysisError("C10e: the rule does not behave on its inline fixture")
    n_fn = 0
    for mname in ("piquasso._math.gate_matrices", "piquasso._math.fock", "piquasso._simulators.fock.pure.simulation_steps",
                  "piquasso._simulators.fock.pure.simulation_steps.passive_linear", "piquasso._simulators.fock.simulation_steps"):
        m = idx.modules.get(mname)
        if m is None:
            continue
        for fn in m.functions.values():
            # written against the connector's array namespace
            if not any(isinstance(a, ast.Attribute) and a.attr in ("np", "forward_pass_np") for a in ast.walk(fn.node)):
                continue
            n_fn += 1
            for c, x, why in _masked_singularities(fn.node):
                key = f"{fn.qualname}|{norm(c)[:60]}"
                ctx.violation("C10e", key, fn.file, c.lineno,
                              f"`{norm(c)[:90]}` masks {why} (`{norm(x)[:40]}`): the values are right, but TensorFlow / JAX differentiate the masked "
                              f"branch as well and 0 * inf = nan poisons the gradient exactly at the masked point (e.g. a displacement with r = 0)",
                              norm(c)[:100])
    ctx.require_floor("C10e forward functions written against connector.np", n_fn, 10)
    ctx.obligation("C10e", "forward maps|no masked singularity", not any(f.rule == "C10e" for f in ctx.findings), functions=n_fn)


def clause_f(ctx: Context) -> None:
    """The hand-written derivative of the Fock-space recurrence of an interferometer is the derivative of the recurrence."""
    from . import _interferometer_recurrence as ir
    from .. import loopnest as ln
    ctx.rule("C10f", "_calculate_subspace_grad accumulates d R / d U[r, c] of the recurrence R[k, i] = 1/H4[k] sum_j H3[i, j] U[H1[k], j] "
                     "PREV[H2[k], H0[i, j]] (product rule in index notation, the forward normal form read from the numba implementation); its "
                     "driver starts from the unit matrix E_rc, carries the derivative from level to level, reads the previous representation "
                     "and the tables at the forward pass's offsets and pairs level p with upstream[p]")
    try:
        r = ir.analyse(ctx)
    except ln.Unreadable as e:
        ctx.error(f"C10f: {e}; undecided")
        return
    g, fwd = r["grad"], r["numba"]
    gfn, dfn = r["grad_fn"], r["driver_fn"]
    want = ln.normal_form(ln.derivative(fwd["poly"], "U", ("v", "r"), ("v", "c"), "PREV", "PGRAD"))
    ok = want == g["nf"]
    key = "_calculate_subspace_grad|d recurrence / d U[r, c]"
    ctx.obligation("C10f", key, ok, where=f"{ctx.relpath(gfn.file)}:{gfn.line}", got=ln.show(g["nf"]), want=ln.show(want))
    if not ok:
        ctx.violation("C10f", key, gfn.file, gfn.line,
                      f"the hand-written derivative of the Fock-space recurrence is {ln.show(g['nf'])}; differentiating the forward recurrence "
                      f"({ln.show(fwd['nf'])}) with respect to U[r, c] gives {ln.show(want)}", construct=ln.show(g["nf"])[:200])
    for msg in g["axis_conflicts"]:
        ctx.violation("C10f", f"_calculate_subspace_grad|axis|{msg}", gfn.file, gfn.line, f"in the gradient loop nest {msg}", construct=msg)
    f = g["facts"]
    checks = [
        ("carried derivative", bool(f.get("carry")),
         f"the derivative of the previous level (`{f.get('carry_name')}`) is not re-assigned from the result of {gfn.name} inside the level loop"),
        ("table offsets", sorted(f["table_offsets"]) == fwd["table_offsets"],
         f"the helper tables are read at offsets {sorted(f['table_offsets'])} from the level, the forward pass reads them at {fwd['table_offsets']}"),
        ("previous level", sorted(f["prev_offsets"]) == fwd["prev_offsets"],
         f"the previous representation is read at offsets {sorted(f['prev_offsets'])} from the level, the forward pass reads it at {fwd['prev_offsets']}"),
        ("upstream level", sorted(f["upstream_offsets"]) == [0],
         f"the derivative of level p is paired with upstream at offsets {sorted(f['upstream_offsets'])} (the representation of level p is entry p of the list)"),
        ("one table tuple", len(f["tables_source"]) == 1, f"the tables are taken from several tuples: {sorted(f['tables_source'])}"),
    ]
    for name, good, msg in checks:
        key = f"_calculate_interferometer_gradient_on_fock_space|{name}"
        ctx.obligation("C10f", key, good, where=f"{ctx.relpath(dfn.file)}:{g['line']}")
        if not good:
            ctx.violation("C10f", key, dfn.file, g["line"], msg, construct=name)
    ctx.require_floor("C10f obligations (derivative of the recurrence, driver protocol)", 1 + len(checks), 6)


def run(ctx: Context) -> None:
    ctx.explanation = (
        "static / symbolic analysis of the hand-written gradient rules: numpy roll-and-weight idioms read as ladder-operator words and "
        "compared with the differentiated normal-ordered factorisation (sympy); einsum adjoint rule; cotangent order; pairing form. "
        "Clause-level claim - agreement of gradient values with finite differences is not decided"
    )
    ctx.trusted_base = ["python ast", "sympy simplification", "the normal-ordered (disentangled) forms of the displacement and squeezing operators",
                        "the rule a^dagger f(n) a = n f(n-1)"]
    clause_a(ctx)
    clause_b(ctx)
    clause_e(ctx)
    clause_f(ctx)
