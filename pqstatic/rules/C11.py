"""C11 — seeded runs are reproducible and independent of parallel scheduling (engines E4, E8c, E3).

 (a) no randomness draw reachable from a simulation step / Result / State reads process-global RNG state;
     writes to global RNG state are reported as the coupling they are
 (b) the dask arm and the sequential arm call the same generator with the same per-shot seed expression
 (c) no callable that flows into a dask region draws from a generator shared between shots
 (d) parallel loops (OpenMP, numba prange) write only loop-locals, induction-indexed elements or reductions;
     the permanent's job partition gives the last job the remainder
 (e) memoised results are never mutated
"""

from __future__ import annotations

import ast
import os
from typing import Dict, List, Optional, Set, Tuple

from ..callgraph import get_resolver, is_njit
from ..dataflow import Analysis
from ..index import ClassInfo, FuncInfo, ModuleInfo, get_index, dotted, norm, calls_in, walk_no_nested
from ..registry import get_registry
from ..report import Context, AnalysisError
from .. import cxx

LEVEL = "other"

DRAWS = {"random", "uniform", "normal", "choice", "choices", "shuffle", "sample", "randint", "integers", "multivariate_normal",
         "permutation", "binomial", "poisson", "standard_normal", "exponential", "gauss", "getrandbits", "randrange", "rand", "randn",
         "random_sample", "triangular", "betavariate", "expovariate", "gammavariate", "normalvariate", "bytes", "beta", "gamma", "geometric"}
GLOBAL_WRITES = {"seed", "setstate", "set_state"}
CONSTRUCTORS = {"default_rng", "Generator", "RandomState", "SeedSequence", "Random", "SystemRandom", "PCG64", "MT19937", "Philox", "BitGenerator"}


class Prov:
    def __init__(self, kind: str, detail: str = "", node: Optional[ast.AST] = None, scope=None):
        self.kind = kind  # global-py | global-np | shared | private | param | unknown | notrng
        self.detail = detail
        self.node = node  # the seed expression of a private generator
        self.scope = scope  # the function in which that expression is evaluated

    def __repr__(self) -> str:
        return f"{self.kind}({self.detail})" if self.detail else self.kind


def _module_of(m: ModuleInfo, name: str) -> Optional[str]:
    imp = m.imports.get(name)
    if imp and imp[1] is None:
        return imp[0]
    if imp and imp[1] is not None:
        return f"{imp[0]}.{imp[1]}"
    return None


class Provenance:
    def __init__(self, idx, res):
        self.idx = idx
        self.res = res

    def scopes(self, fn: FuncInfo) -> List[FuncInfo]:
        """fn and its enclosing functions, innermost first."""
        out = [fn]
        q = fn.qualname
        while ".<locals>." in q:
            q = q.rsplit(".<locals>.", 1)[0]
            mod, _, name = q.partition(":")
            m = self.idx.modules.get(mod)
            cur = None
            if m:
                parts = name.split(".<locals>.")
                head = parts[0]
                if "." in head and head.split(".")[0] in m.classes:
                    cur = m.classes[head.split(".")[0]].methods.get(head.split(".", 1)[1])
                else:
                    cur = m.functions.get(head)
                for p in parts[1:]:
                    cur = self.res.local_defs(cur).get(p) if cur else None
            if cur is None:
                break
            out.append(cur)
        return out

    def of(self, fn: FuncInfo, e: ast.AST, lambda_scope: Optional[FuncInfo] = None) -> Prov:
        m = fn.module
        d = dotted(e)
        if d:
            head = d.split(".")[0]
            mod = _module_of(m, head)
            full = (mod + d[len(head):]) if mod else None
            if full == "random":
                return Prov("global-py", "the stdlib `random` module (process-global Mersenne Twister)")
            if full in ("numpy.random", "np.random") or (full and full.endswith("numpy.random")) or d in ("np.random", "numpy.random"):
                return Prov("global-np", "numpy's legacy global RandomState")
        if isinstance(e, ast.Attribute):
            if e.attr == "rng":
                return Prov("shared", norm(e))
            return Prov("notrng")
        if isinstance(e, ast.Name):
            for sc in self.scopes(fn):
                if e.id in sc.all_params():
                    return Prov("param", f"{sc.qualname}:{e.id}")
                for n in walk_no_nested(sc.node):
                    if isinstance(n, ast.Assign) and any(isinstance(t, ast.Name) and t.id == e.id for t in n.targets):
                        v = n.value
                        if isinstance(v, ast.Call):
                            cn = dotted(v.func) or ""
                            if cn.split(".")[-1] in ("default_rng", "Generator", "RandomState", "Random"):
                                seed = v.args[0] if v.args else next((k.value for k in v.keywords if k.arg == "seed"), None)
                                return Prov("private", norm(seed) if seed is not None else "<unseeded>", seed, sc)
                        if isinstance(v, ast.Attribute) and v.attr == "rng":
                            return Prov("shared", norm(v))
                        if isinstance(v, ast.Name):
                            return self.of(sc, v)
            return Prov("unknown", e.id)
        if isinstance(e, ast.Call):
            cn = dotted(e.func) or ""
            if cn.split(".")[-1] in ("default_rng", "Generator", "RandomState", "Random"):
                seed = e.args[0] if e.args else next((k.value for k in e.keywords if k.arg == "seed"), None)
                return Prov("private", norm(seed) if seed is not None else "<unseeded>", seed, fn)
        return Prov("unknown", norm(e)[:40])


def seed_leaves(pv: "Provenance", callers, fn: FuncInfo, e: ast.AST, depth: int = 0) -> Tuple[List[str], List[str]]:
    """(good, bad) leaves of a seed expression.  good: a read of the `seed_sequence` property of a Config (the slot the
    setter keeps current; `self._seed_sequence` inside Config itself).  bad: any other seed-named attribute (for
    example the constructor-time copy `_original_seed_sequence`, which the setter does not update), or a seed-named
    name that cannot be traced to a good leaf."""
    good: List[str] = []
    bad: List[str] = []
    if depth > 6:
        return good, bad

    def visit(n: ast.AST) -> None:
        if isinstance(n, ast.Attribute):
            if n.attr == "seed_sequence":
                good.append(norm(n))
                return
            if n.attr == "_seed_sequence" and isinstance(n.value, ast.Name) and n.value.id == "self" and fn.cls is not None and fn.cls.name == "Config":
                good.append(norm(n))
                return
            if "seed" in n.attr.lower():
                cfg = pv.idx.find_class("piquasso.api.config", "Config")
                meth = cfg.methods.get(n.attr) if cfg is not None else None
                if meth is not None and any(isinstance(x, ast.Attribute) and x.attr in ("seed_sequence", "_seed_sequence") for x in ast.walk(meth.node)):
                    good.append(norm(n))  # a Config property computed from the live seed slot
                    return
                bad.append(norm(n))
                return
            visit(n.value)
            return
        if isinstance(n, ast.Name):
            traced = False
            for sc in pv.scopes(fn):
                binds = [a for a in walk_no_nested(sc.node) if isinstance(a, ast.Assign) and any(isinstance(t, ast.Name) and t.id == n.id for t in a.targets)]
                if binds:
                    traced = True
                    for a in binds:
                        g, b = seed_leaves(pv, callers, sc, a.value, depth + 1)
                        good.extend(g)
                        bad.extend(b)
                    break
                if n.id in sc.all_params():
                    traced = True
                    if "seed" not in n.id.lower():
                        break
                    sites = callers.get(id(sc.node), []) if callers is not None else []
                    # a nested per-shot function is called from its enclosing function
                    encl = pv.scopes(sc)[1:]
                    found = False
                    for (caller, call) in sites:
                        actual = _actual(sc, call, n.id)
                        if actual is not None and not isinstance(actual, tuple):
                            found = True
                            g, b = seed_leaves(pv, callers, caller, actual, depth + 1)
                            good.extend(g)
                            bad.extend(b)
                    for en in encl[:1]:
                        for c in ast.walk(en.node):
                            if isinstance(c, ast.Call):
                                for kw in c.keywords:
                                    if kw.arg == n.id and not (isinstance(kw.value, ast.Name) and kw.value.id == n.id):
                                        found = True
                                        g, b = seed_leaves(pv, callers, en, kw.value, depth + 1)
                                        good.extend(g)
                                        bad.extend(b)
                    if not found:
                        bad.append(f"parameter {n.id} of {sc.name} (no call site passes a seed that can be traced)")
                    break
            if not traced and "seed" in n.id.lower():
                bad.append(n.id)
            return
        for c in ast.iter_child_nodes(n):
            visit(c)

    visit(e)
    return good, bad


def _draw_calls(node: ast.AST):
    for c in ast.walk(node):
        if isinstance(c, ast.Call) and isinstance(c.func, ast.Attribute) and c.func.attr in (DRAWS | GLOBAL_WRITES):
            yield c


def run(ctx: Context) -> None:
    idx = get_index(ctx.repo)
    reg = get_registry(idx)
    res = get_resolver(idx)
    ctx.explanation = (
        "Randomness provenance decided from source: every call that draws randomness is resolved to the generator it "
        "draws from (the Config-owned generator, a per-shot generator seeded from the seed sequence, a parameter, or "
        "process-global state); dask regions are closed under the callables that flow into them; parallel loops are "
        "checked for write discipline on the Python AST (prange) and the clang AST (OpenMP); memoised results are "
        "checked for in-place writes by the alias analysis. That different seeds give different samples and bit-level "
        "reduction order are not decided."
    )
    ctx.rule("C11a", "no reachable randomness draw reads process-global RNG state; no reachable code writes it")
    ctx.rule("C11b", "in every use_dask split both arms call the same generator with the same per-shot seed expression over the same range")
    ctx.rule("C11c", "no callable flowing into a dask.delayed region draws from a generator shared between shots")
    ctx.rule("C11d", "parallel loops write only loop-locals, induction-indexed elements or whole-variable reductions; the jobs of the native permanent tile the Gray-code range exactly for every job count (S(0)=0, E(K-1)=M-1, S(j+1)=E(j)+1, proved by case split on the comparisons)")
    ctx.rule("C11g", "no Python code of the package reads the number of workers (numba.get_num_threads, NUMBA_NUM_THREADS, cpu_count, ...): the value of a kernel cannot be a function of the thread count")
    ctx.rule("C11h", "a hand-written cache (decorator that stores f(...) under a key) keys on every attribute of self that the cached method reads and that a method other than __init__ re-assigns")
    ctx.rule("C11e", "memoised results are never written in place")
    ctx.rule("C11f", "no object that the shots of a dask.delayed region share (bound once by partial(...), or a free variable of the per-shot closure) is written in place by the per-shot callable")
    pv = Provenance(idx, res)
    an = Analysis(idx, res)
    an.run([f for f in idx.all_functions()])
    clause_a(ctx, idx, reg, res, pv)
    clause_bc(ctx, idx, reg, res, pv, an)
    clause_d(ctx, idx)
    clause_e(ctx, idx, res, an)
    clause_g(ctx, idx)
    clause_h(ctx, idx)


# ================================================================================================ (a)


def _roots(idx, reg, res) -> List[FuncInfo]:
    roots: List[FuncInfo] = []
    for s in reg.simulators:
        roots.extend(s.steps())
        if s.state_class is not None:
            for c in [s.state_class] + idx.subclasses(s.state_class):
                roots.extend(c.methods.values())
                for b in c.mro():
                    roots.extend(b.methods.values())
    for cname, mod in (("Simulator", "piquasso.api.simulator"), ("Result", "piquasso.api.result"), ("Config", "piquasso.api.config"),
                       ("Program", "piquasso.api.program")):
        c = idx.find_class(mod, cname)
        roots.extend(c.methods.values())
    return roots


def clause_a(ctx, idx, reg, res, pv) -> None:
    roots = _roots(idx, reg, res)
    reach = res.reachable(roots)
    reach_ids = {id(f.node) for f in reach}
    ctx.count("functions reachable from simulation steps, states, Simulator, Result, Config", len(reach))
    ctx.require_floor("reachable functions", len(reach), 400)
    n_draws = 0
    n_ctor = 0
    n_private = 0
    from .C13 import _callers_map
    callers = _callers_map(idx, res)
    everything: List[FuncInfo] = []
    for f in idx.all_functions():
        everything.append(f)
        everything.extend(res.local_defs(f).values())
    seen = set()
    for fn in everything:
        if id(fn.node) in seen:
            continue
        seen.add(id(fn.node))
        reachable = id(fn.node) in reach_ids or any(id(s.node) in reach_ids for s in pv.scopes(fn))
        for c in _draw_calls(fn.node) if True else []:
            # skip calls that belong to a nested def (they are visited with that def)
            if any(c in list(ast.walk(loc.node)) for loc in res.local_defs(fn).values()):
                continue
            p = pv.of(fn, c.func.value)
            if p.kind == "notrng":
                continue
            meth = c.func.attr
            where = f"{ctx.relpath(fn.file)}:{c.lineno}"
            if p.kind == "unknown":
                nm = p.detail.lower()
                if "rng" in nm or "random" in nm:
                    ctx.error(f"C11a: cannot resolve the generator of `{norm(c)[:60]}` at {where} (undecided)")
                continue
            n_draws += 1
            key = f"{fn.qualname}|{norm(c.func)}"
            if meth in GLOBAL_WRITES:
                if p.kind in ("global-py", "global-np"):
                    ctx.instance("C11a", key, "VIOLATION" if reachable else "unreachable", where, generator=repr(p))
                    if reachable:
                        ctx.violation("C11a", key, fn.file, c.lineno,
                                      f"`{norm(c)[:70]}` re-seeds {p.detail}: creating or copying a Config changes the random stream of "
                                      f"everything else in the process that uses it (and of piquasso's own global draws)", norm(c)[:90])
                continue
            verdict = "ok"
            if p.kind in ("global-py", "global-np"):
                verdict = "VIOLATION" if reachable else "unreachable (dead code; not reported)"
            ctx.instance("C11a", key, verdict, where, generator=repr(p))
            if p.kind in ("global-py", "global-np") and reachable:
                ctx.violation("C11a", key, fn.file, c.lineno,
                              f"`{norm(c)[:70]}` draws from {p.detail}: whatever else the process did with that generator since the "
                              f"simulator's Config was created changes the samples of a seeded run", norm(c)[:90])
            if p.kind == "private":
                if p.node is None:
                    good, bad = [], ["<unseeded>"]
                else:
                    good, bad = seed_leaves(pv, callers, p.scope or fn, p.node)
                ok = bool(good) and not bad
                n_private += 1
                ctx.instance("C11a", key + "|seeded-from-config.seed_sequence", "ok" if ok else "VIOLATION", where, seed=p.detail, good=str(sorted(set(good))), bad=str(bad))
                if not ok and reachable:
                    why = (f"it reads {', '.join('`' + b + '`' for b in bad)}, which is not the `seed_sequence` property the setter keeps current"
                           if bad else "it does not derive from config.seed_sequence")
                    ctx.violation("C11a", key + "|unseeded", fn.file, c.lineno,
                                  f"the generator of `{norm(c)[:60]}` is constructed from `{p.detail}`: {why}; two simulators configured with the "
                                  f"same seed (e.g. through `config.seed_sequence = s`) do not give the same samples", p.detail)
        for c in ast.walk(fn.node):
            if isinstance(c, ast.Call) and (dotted(c.func) or "").split(".")[-1] in ("default_rng", "Random", "RandomState"):
                n_ctor += 1
    ctx.require_floor("randomness draw sites resolved", n_draws, 24)
    ctx.require_floor("draws from privately constructed generators whose seed was traced", n_private, 1)
    ctx.count("generator constructions", n_ctor)


# ================================================================================================ (b)(c)


def _delayed_bindings(fn: FuncInfo) -> Dict[str, ast.AST]:
    """local name → the callable expression wrapped by dask.delayed(...)"""
    out = {}
    for n in walk_no_nested(fn.node):
        if isinstance(n, ast.Assign) and len(n.targets) == 1 and isinstance(n.targets[0], ast.Name) and isinstance(n.value, ast.Call):
            cn = dotted(n.value.func) or ""
            if cn.split(".")[-1] == "delayed" and n.value.args:
                out[n.targets[0].id] = n.value.args[0]
    return out


def clause_bc(ctx, idx, reg, res, pv, an) -> None:
    n_regions = 0
    callers = None
    for fn in list(idx.all_functions()):
        splits = [n for n in walk_no_nested(fn.node) if isinstance(n, ast.If) and isinstance(n.test, ast.Attribute) and n.test.attr == "use_dask"]
        if not splits:
            continue
        delayed = _delayed_bindings(fn)
        if not delayed:
            ctx.error(f"C11b: {fn.qualname} tests use_dask but no dask.delayed(...) binding was found (undecided)")
            continue
        for sp in splits:
            n_regions += 1
            dname, target = next(iter(delayed.items()))
            tname = norm(target)
            # calls in the dask arm through the delayed wrapper; calls of the same target in the other arm
            dask_calls = [c for b in sp.body for c in ast.walk(b) if isinstance(c, ast.Call) and isinstance(c.func, ast.Name) and c.func.id == dname]
            rest: List[ast.stmt] = list(sp.orelse)
            if not rest:
                body = fn.node.body
                # statements after the split (the dask arm returns)
                for i, s in enumerate(body):
                    if s is sp:
                        rest = body[i + 1:]
            seq_calls = [c for b in rest for c in ast.walk(b) if isinstance(c, ast.Call) and norm(c.func) == tname]
            key = f"{fn.qualname}|use_dask-split"
            if not dask_calls or not seq_calls:
                ctx.obligation("C11b", key, False)
                ctx.violation("C11b", key, fn.file, sp.lineno,
                              f"the dask arm and the sequential arm do not call the same sample generator `{tname}`", tname)
                continue

            def sig(c):
                return ([norm(a) for a in c.args], sorted((k.arg or "**", norm(k.value)) for k in c.keywords))

            def loop_of(c, stmts):
                for b in stmts:
                    for n in ast.walk(b):
                        if isinstance(n, ast.For) and any(x is c for x in ast.walk(n)):
                            return norm(n.target), norm(n.iter)
                return None

            same_args = sig(dask_calls[0]) == sig(seq_calls[0])
            same_loop = loop_of(dask_calls[0], sp.body) == loop_of(seq_calls[0], rest)
            ok = same_args and same_loop and loop_of(dask_calls[0], sp.body) is not None
            ctx.obligation("C11b", key, ok, f"{ctx.relpath(fn.file)}:{sp.lineno}", dask=str(sig(dask_calls[0])), sequential=str(sig(seq_calls[0])))
            if not ok:
                ctx.violation("C11b", key, fn.file, sp.lineno,
                              f"with dask the generator is called as {sig(dask_calls[0])} over {loop_of(dask_calls[0], sp.body)}, without dask as "
                              f"{sig(seq_calls[0])} over {loop_of(seq_calls[0], rest)}: a seeded run gives different samples depending on use_dask",
                              norm(dask_calls[0]))
            # per-shot seed derives from the configured seed sequence
            seed_args = [k.value for k in dask_calls[0].keywords if k.arg == "seed"] + list(dask_calls[0].args[:1])
            seed_ok = False
            if seed_args:
                names = {n.id for n in ast.walk(seed_args[0]) if isinstance(n, ast.Name)}
                loopinfo = loop_of(dask_calls[0], sp.body)
                derived_from_cfg = any(
                    isinstance(n, ast.Assign) and any(isinstance(t, ast.Name) and t.id in names for t in n.targets) and "seed_sequence" in norm(n.value)
                    for n in walk_no_nested(fn.node))
                uses_index = loopinfo is not None and loopinfo[0] in names
                seed_ok = derived_from_cfg and uses_index
            ctx.obligation("C11b", key + "|seed=config.seed_sequence+idx", seed_ok)
            if not seed_ok:
                ctx.violation("C11b", key + "|seed", fn.file, sp.lineno,
                              "the per-shot seed does not combine config.seed_sequence with the shot index: shots share a stream or ignore the seed",
                              norm(dask_calls[0]))
            # ---- (c) closure of the region -----------------------------------------------------------------------
            if callers is None:
                from .C13 import _callers_map
                callers = _callers_map(idx, res)
            region = _region_callables(idx, res, callers, fn, target)
            ctx.count(f"dask region of {fn.name}", sorted({r[0].qualname if isinstance(r[0], FuncInfo) else f"lambda@{r[1].qualname}:{r[0].lineno}" for r in region}))
            for item, owner in region:
                node = item.node if isinstance(item, FuncInfo) else item
                scope_fn = item if isinstance(item, FuncInfo) else owner
                for c in _draw_calls(node):
                    p = pv.of(scope_fn, c.func.value)
                    if p.kind in ("notrng", "unknown"):
                        continue
                    ikey = f"{fn.qualname}|region|{scope_fn.qualname}|{norm(c.func)}"
                    bad = p.kind in ("shared", "global-py", "global-np")
                    ctx.instance("C11c", ikey, "VIOLATION" if bad else "ok", f"{ctx.relpath(scope_fn.file)}:{c.lineno}", generator=repr(p))
                    if bad:
                        ctx.violation("C11c", ikey, scope_fn.file, c.lineno,
                                      f"`{norm(c)[:60]}` runs inside the dask.delayed region of {fn.name} but draws from {p.kind} generator "
                                      f"`{p.detail}`, which all shots share: the order in which dask schedules the shots changes the samples "
                                      f"(and sequential execution consumes it in shot order)", norm(c)[:90])
            clause_f(ctx, idx, res, callers, an, fn, target)
    ctx.require_floor("dask.delayed regions", n_regions, 2)


# ================================================================================================ (f)


def _callable_targets(idx, res, callers, owner: FuncInfo, e: ast.AST, d: int = 0):
    """What a callable-valued expression may denote: [(function, bound positional exprs, bound keyword exprs, owner of those exprs)]."""
    out = []
    if d > 6:
        return out
    if isinstance(e, ast.Call) and (dotted(e.func) or "").split(".")[-1] == "partial" and e.args:
        for (f, bp, bk, bo) in _callable_targets(idx, res, callers, owner, e.args[0], d + 1):
            # partial of a partial: inner bindings come first
            kws = dict(bk)
            kws.update({k.arg: (k.value, owner) for k in e.keywords if k.arg})
            out.append((f, list(bp) + [(a, owner) for a in e.args[1:]], kws, bo))
        return out
    if isinstance(e, ast.Name):
        bound = False
        for n in walk_no_nested(owner.node):
            if isinstance(n, ast.Assign) and any(isinstance(t_, ast.Name) and t_.id == e.id for t_ in n.targets):
                bound = True
                out.extend(_callable_targets(idx, res, callers, owner, n.value, d + 1))
        ld = res.local_defs(owner).get(e.id)
        if ld is not None:
            return out + [(ld, [], {}, owner)]
        if e.id in owner.all_params():
            bound = True
            for (caller, call) in callers.get(id(owner.node), []):
                actual = _actual(owner, call, e.id)
                if isinstance(actual, tuple):
                    for n in walk_no_nested(caller.node):
                        if isinstance(n, ast.Assign) and any(isinstance(t_, ast.Name) and t_.id == actual[1] for t_ in n.targets) \
                                and isinstance(n.value, ast.Call):
                            for kw in n.value.keywords:
                                if kw.arg == e.id:
                                    out.extend(_callable_targets(idx, res, callers, caller, kw.value, d + 1))
                elif actual is not None:
                    out.extend(_callable_targets(idx, res, callers, caller, actual, d + 1))
        if bound:
            return out
        # a free variable of a nested function: look it up in the enclosing functions
        if ".<locals>." in owner.qualname:
            for enc in Provenance(idx, res).scopes(owner)[1:]:
                got = _callable_targets(idx, res, callers, enc, e, d + 1)
                if got:
                    return got
    if isinstance(e, (ast.Name, ast.Attribute)):
        t = res.unwrap_callable(owner.module, e, owner)
        if t is not None:
            out.append((t, [], {}, owner))
    return out


def _param_index(f: FuncInfo, pos: Optional[int], name: Optional[str]) -> Optional[int]:
    params = f.all_params()
    if name is not None:
        return params.index(name) if name in params else None
    return pos if pos is not None and pos < len(params) else None


def clause_f(ctx: Context, idx, res, callers, an, fn: FuncInfo, target: ast.AST) -> None:
    """Shot-shared objects may not be written in place inside the region."""
    n_bind = 0

    def report(f: FuncInfo, pi: int, what: str, where_fn: FuncInfo, line: int, text: str) -> None:
        how = an.summary(f).write_how.get(pi, "")
        key = f"{fn.qualname}|shared|{f.qualname}|{f.all_params()[pi]}"
        ctx.violation("C11f", key, where_fn.file, line,
                      f"{what} is one object for all shots of the dask.delayed region of {fn.name}, and {f.name} writes its parameter "
                      f"`{f.all_params()[pi]}` in place ({how}): concurrently scheduled shots overwrite each other's data, so the samples of a "
                      f"seeded run depend on the thread interleaving (and differ from sequential execution)", text)

    def check_target(f: FuncInfo, bp, bk, call: Optional[ast.Call], call_owner: Optional[FuncInfo], shared_names: Set[str]) -> None:
        nonlocal n_bind
        writes = an.summary(f).writes
        for i, (a, o) in enumerate(bp):
            n_bind += 1
            pi = _param_index(f, i, None)
            ok = pi is None or pi not in writes
            ctx.instance("C11f", f"{fn.qualname}|bound|{f.qualname}|#{i}", "ok" if ok else "VIOLATION", f"{ctx.relpath(o.file)}:{a.lineno}")
            if not ok:
                report(f, pi, f"`{norm(a)[:50]}`, bound once by partial(...) in {o.name}", o, a.lineno, norm(a)[:90])
        for k, (a, o) in bk.items():
            n_bind += 1
            pi = _param_index(f, None, k)
            ok = pi is None or pi not in writes
            ctx.instance("C11f", f"{fn.qualname}|bound|{f.qualname}|{k}", "ok" if ok else "VIOLATION", f"{ctx.relpath(o.file)}:{a.lineno}")
            if not ok:
                report(f, pi, f"`{k}={norm(a)[:50]}`, bound once by partial(...) in {o.name}", o, a.lineno, f"{k}={norm(a)[:80]}")
        if call is not None and call_owner is not None:
            for j, a in enumerate(call.args):
                if isinstance(a, ast.Name) and a.id in shared_names:
                    n_bind += 1
                    pi = _param_index(f, len(bp) + j, None)
                    ok = pi is None or pi not in writes
                    ctx.instance("C11f", f"{fn.qualname}|free|{f.qualname}|{a.id}", "ok" if ok else "VIOLATION", f"{ctx.relpath(call_owner.file)}:{a.lineno}")
                    if not ok:
                        report(f, pi, f"the free variable `{a.id}` of the per-shot closure {call_owner.name}", call_owner, a.lineno, norm(call)[:90])
            for kw in call.keywords:
                if kw.arg and isinstance(kw.value, ast.Name) and kw.value.id in shared_names:
                    n_bind += 1
                    pi = _param_index(f, None, kw.arg)
                    ok = pi is None or pi not in writes
                    ctx.instance("C11f", f"{fn.qualname}|free|{f.qualname}|{kw.value.id}", "ok" if ok else "VIOLATION", f"{ctx.relpath(call_owner.file)}:{kw.value.lineno}")
                    if not ok:
                        report(f, pi, f"the free variable `{kw.value.id}` of the per-shot closure {call_owner.name}", call_owner, kw.value.lineno, norm(call)[:90])

    for (T, bp, bk, _o) in _callable_targets(idx, res, callers, fn, target):
        # the per-shot call passes only per-shot values (seed=seed + idx): bound arguments are the shared ones
        check_target(T, bp, bk, None, None, set())
        if ".<locals>." in T.qualname:
            local = set(T.all_params()) | {n.id for n in walk_no_nested(T.node) if isinstance(n, ast.Name) and isinstance(n.ctx, ast.Store)}
            shared = {n.id for n in walk_no_nested(T.node) if isinstance(n, ast.Name) and isinstance(n.ctx, ast.Load)} - local
            # direct in-place writes on a free variable (subscript / attribute stores, augmented assignment through them, mutator calls)
            MUTATORS = {"sort", "append", "extend", "insert", "pop", "remove", "clear", "update", "fill", "resize", "put", "itemset", "setdefault", "popitem", "reverse"}
            for n in walk_no_nested(T.node):
                tgts = []
                if isinstance(n, ast.Assign):
                    tgts = list(n.targets)
                elif isinstance(n, (ast.AugAssign, ast.AnnAssign)):
                    tgts = [n.target]
                elif isinstance(n, ast.Call) and isinstance(n.func, ast.Attribute) and n.func.attr in MUTATORS:
                    tgts = [ast.Subscript(value=n.func.value, slice=ast.Constant(value=0), ctx=ast.Store())]
                for t_ in tgts:
                    b = t_
                    through = False
                    while isinstance(b, (ast.Subscript, ast.Attribute)):
                        b = b.value
                        through = True
                    if through and isinstance(b, ast.Name) and b.id in shared:
                        ctx.violation("C11f", f"{fn.qualname}|free-write|{T.qualname}|{b.id}", T.file, n.lineno,
                                      f"the per-shot closure {T.name} writes `{norm(n)[:60]}` in place; `{b.id}` is a free variable shared by all "
                                      f"shots of the dask.delayed region, so concurrently scheduled shots overwrite each other's data", norm(n)[:90])
            for c in calls_in(T.node):
                for (f, bp2, bk2, _o2) in _callable_targets(idx, res, callers, T, c.func):
                    if f is T:
                        continue
                    check_target(f, bp2, bk2, c, T, shared)
    ctx.require_floor(f"shot-shared bindings checked in the region of {fn.name}", n_bind, 4)


def _region_callables(idx, res, callers, fn: FuncInfo, target: ast.AST, depth: int = 0) -> List[Tuple[object, FuncInfo]]:
    """Functions and lambdas that may run inside the delayed region: the target, everything it reaches, and the
    callables that flow into its callable-valued free variables / parameters from the callers (bounded depth)."""
    out: List[Tuple[object, FuncInfo]] = []
    seen: Set[int] = set()

    def add_func(f: FuncInfo) -> None:
        for g in res.reachable([f]):
            if id(g.node) not in seen:
                seen.add(id(g.node))
                out.append((g, g))
                # callable-valued parameters that are called inside g, traced back through g's callers
                trace_params(g, 0)

    def add_expr(owner: FuncInfo, e: ast.AST, d: int) -> None:
        if d > 5:
            return
        if isinstance(e, ast.Lambda):
            if id(e) not in seen:
                seen.add(id(e))
                out.append((e, owner))
            return
        if isinstance(e, ast.Call):
            cn = dotted(e.func) or ""
            if cn.split(".")[-1] == "partial":
                for a in list(e.args) + [k.value for k in e.keywords]:
                    add_expr(owner, a, d + 1)
                return
        if isinstance(e, (ast.Name, ast.Attribute)):
            if isinstance(e, ast.Name):
                # a local bound to partial(...)/lambda (every binding counts), or a parameter of the owner (trace to callers)
                bound = False
                for n in walk_no_nested(owner.node):
                    if isinstance(n, ast.Assign) and any(isinstance(t_, ast.Name) and t_.id == e.id for t_ in n.targets):
                        bound = True
                        add_expr(owner, n.value, d + 1)
                if e.id in owner.all_params():
                    bound = True
                    for (caller, call) in callers.get(id(owner.node), []):
                        actual = _actual(owner, call, e.id)
                        if isinstance(actual, tuple):
                            # **kwargs: look the name up in the dict(...) the caller built
                            for n in walk_no_nested(caller.node):
                                if isinstance(n, ast.Assign) and any(isinstance(t_, ast.Name) and t_.id == actual[1] for t_ in n.targets) \
                                        and isinstance(n.value, ast.Call):
                                    for kw in n.value.keywords:
                                        if kw.arg == e.id:
                                            add_expr(caller, kw.value, d + 1)
                        elif actual is not None:
                            add_expr(caller, actual, d + 1)
                if bound:
                    return
            t = res.unwrap_callable(owner.module, e, owner)
            if t is not None:
                add_func(t)
                return

    def trace_params(g: FuncInfo, d: int) -> None:
        called = {c.func.id for c in calls_in(g.node) if isinstance(c.func, ast.Name)}
        for sc in [g]:
            for p in sc.all_params():
                if p in called:
                    for (caller, call) in callers.get(id(sc.node), []):
                        actual = _actual(sc, call, p)
                        if actual is not None:
                            add_expr(caller, actual, d + 1)
        # free variables of a nested function that are called: parameters/locals of the enclosing function
        if ".<locals>." in g.qualname:
            for name in called:
                if name not in g.all_params():
                    for enc in Provenance(idx, res).scopes(g)[1:]:
                        add_expr(enc, ast.Name(id=name, ctx=ast.Load()), d + 1)

    add_expr(fn, target, 0)
    return out


def _actual(callee: FuncInfo, call: ast.Call, pname: str) -> Optional[ast.AST]:
    params = callee.params()
    for kw in call.keywords:
        if kw.arg == pname:
            return kw.value
    if pname in params:
        i = params.index(pname)
        off = 1 if (callee.cls is not None and params and params[0] in ("self", "cls")) else 0
        j = i - off
        if 0 <= j < len(call.args):
            return call.args[j]
    # **kwargs dict built with dict(name=...) in the caller
    for kw in call.keywords:
        if kw.arg is None and isinstance(kw.value, ast.Name):
            return ("kwargs", kw.value.id)  # type: ignore
    return None


# ================================================================================================ (d)


def clause_d(ctx: Context, idx) -> None:
    cxx.check_omp_loops(ctx, "C11d")
    n_loops = 0
    for fn in idx.all_functions():
        for loop in [n for n in ast.walk(fn.node) if isinstance(n, ast.For) and isinstance(n.iter, ast.Call)
                     and (dotted(n.iter.func) or "").split(".")[-1] == "prange"]:
            n_loops += 1
            ind = {n.id for n in ast.walk(loop.target) if isinstance(n, ast.Name)}
            local: Set[str] = set()
            for s in ast.walk(loop):
                if s is loop:
                    continue
                if isinstance(s, ast.Assign):
                    for t in s.targets:
                        for n in ast.walk(t):
                            if isinstance(n, ast.Name) and isinstance(n.ctx, ast.Store):
                                local.add(n.id)
                if isinstance(s, ast.For):
                    for n in ast.walk(s.target):
                        if isinstance(n, ast.Name):
                            local.add(n.id)
            # names assigned before the loop in the function are outer even if re-assigned inside
            outer_assigned: Set[str] = set(fn.all_params())
            for s in walk_no_nested(fn.node):
                if isinstance(s, ast.Assign) and s.lineno < loop.lineno:
                    for t in s.targets:
                        for n in ast.walk(t):
                            if isinstance(n, ast.Name) and isinstance(n.ctx, ast.Store):
                                outer_assigned.add(n.id)
            derived = set(ind)
            changed = True
            while changed:
                changed = False
                for s in ast.walk(loop):
                    if isinstance(s, ast.Assign) and len(s.targets) == 1 and isinstance(s.targets[0], ast.Name):
                        if s.targets[0].id not in derived and any(isinstance(n, ast.Name) and n.id in derived for n in ast.walk(s.value)):
                            derived.add(s.targets[0].id)
                            changed = True
            problems = []
            for s in ast.walk(loop):
                tgt = None
                if isinstance(s, ast.Assign):
                    for t in s.targets:
                        tgt = t
                        _check_prange_target(t, False, local, outer_assigned, derived, problems, s)
                elif isinstance(s, ast.AugAssign):
                    _check_prange_target(s.target, True, local, outer_assigned, derived, problems, s)
            key = f"{fn.qualname}|prange@{norm(loop.target)}"
            ctx.obligation("C11d", key, not problems, f"{ctx.relpath(fn.file)}:{loop.lineno}")
            for line, msg in problems[:3]:
                ctx.violation("C11d", key + "|" + msg[:50], fn.file, line, msg + " (data race between iterations: the result depends on the thread schedule)", "")
    ctx.require_floor("numba prange loops", n_loops, 4)


def _check_prange_target(t, aug, local, outer_assigned, derived, problems, stmt) -> None:
    if isinstance(t, ast.Name):
        if t.id in outer_assigned and t.id not in derived:
            if not aug and t.id in outer_assigned:
                # plain rebinding of a variable that lives outside the loop
                problems.append((stmt.lineno, f"`{t.id}` is defined before the parallel loop and rebound inside it"))
            # aug-assign on an outer scalar/array is a whole-variable reduction: accepted
        return
    if isinstance(t, ast.Subscript):
        base = t.value
        while isinstance(base, (ast.Subscript, ast.Attribute)):
            base = base.value
        if isinstance(base, ast.Name) and base.id in outer_assigned and base.id not in (local - outer_assigned):
            idx_names = {n.id for n in ast.walk(t.slice) if isinstance(n, ast.Name)}
            if not (idx_names & derived):
                problems.append((stmt.lineno, f"element store `{norm(t)}` into an array shared between iterations is not indexed by the induction variable"))
        return
    if isinstance(t, (ast.Tuple, ast.List)):
        for e in t.elts:
            _check_prange_target(e, aug, local, outer_assigned, derived, problems, stmt)


# ================================================================================================ (e)


def clause_e(ctx: Context, idx, res, an) -> None:
    ctx.require_floor("memoised callables", len(an.memo_funcs) + len(an.memo_names), 10)
    n = 0
    for w in an.writes:
        if any(o[0] == "memo" for o in w.origins):
            n += 1
            srcs = sorted(str(o[1]) for o in w.origins if o[0] == "memo")
            key = f"{w.fn.qualname}|{w.how.split(' ')[0]}|{w.target}"
            ctx.violation("C11e", key, w.fn.file, w.line,
                          f"in-place write ({w.how}) on `{w.target}`, the shared result of memoised {', '.join(srcs)}: later results depend on "
                          f"what ran earlier in the process", norm(w.node).split("\n")[0][:100])
    ctx.obligation("C11e", "package|no-write-on-memoised-results", n == 0, memoised=len(an.memo_funcs) + len(an.memo_names))


THREAD_COUNT_READS = {"get_num_threads", "cpu_count", "get_thread_count", "omp_get_max_threads", "omp_get_num_threads", "active_count"}
THREAD_COUNT_ATTRS = {"NUMBA_NUM_THREADS", "NUMBA_DEFAULT_NUM_THREADS"}


def clause_g(ctx: Context, idx) -> None:
    """A deterministic quantity must not be a function of the number of workers.  numba's `prange` reductions are scheduled by
    the runtime; what the Python kernels may not do is *read* the worker count and let it shape the computation (job partition,
    reduction tree, array sizes).  Every read of the worker count in piquasso's Python code is reported (none is expected)."""
    n_fn = 0
    hits = []
    for fn in idx.all_functions(include_nested=True):
        if not fn.module.name.startswith("piquasso."):
            continue
        n_fn += 1
        for n in walk_no_nested(fn.node):
            if isinstance(n, ast.Call) and (dotted(n.func) or "").split(".")[-1] in THREAD_COUNT_READS:
                hits.append((fn, n))
            elif isinstance(n, ast.Attribute) and n.attr in THREAD_COUNT_ATTRS:
                hits.append((fn, n))
            elif isinstance(n, ast.Subscript) and isinstance(n.slice, ast.Constant) and isinstance(n.slice.value, str) \
                    and n.slice.value in ("OMP_NUM_THREADS", "NUMBA_NUM_THREADS") and "environ" in norm(n.value):
                hits.append((fn, n))
    for fn, n in hits:
        key = f"{fn.qualname}|worker count read|{norm(n)[:40]}"
        ctx.violation("C11g", key, fn.file, n.lineno,
                      f"`{norm(n)[:60]}` reads the number of workers in {fn.name}: the partition of the work (and with it the grouping of the "
                      f"floating-point sums, or - if the reduction is wrong for some counts - the value itself) depends on the thread count",
                      norm(n)[:80])
    # the rule expects zero hits on the tree: a fixture must match on every run
    fixture = os.path.join(os.path.dirname(os.path.dirname(os.path.dirname(os.path.abspath(__file__)))), "stubs", "thread_count_fixture.py")
    tree = ast.parse(open(fixture).read())
    fx = sum(1 for n in ast.walk(tree) if (isinstance(n, ast.Call) and (dotted(n.func) or "").split(".")[-1] in THREAD_COUNT_READS)
             or (isinstance(n, ast.Attribute) and n.attr in THREAD_COUNT_ATTRS))
    if fx < 2:
        raise AnalysisError("C11g: the positive fixture stubs/thread_count_fixture.py is no longer matched")
    ctx.obligation("C11g", "package|no read of the worker count", not hits, functions=n_fn, fixture_matches=fx)
    ctx.require_floor("C11g python functions scanned for reads of the worker count", n_fn, 600)


def _memo_wrappers(tree: ast.AST):
    """(decorator function, wrapper function, key expression, wrapped-callable name) for hand-written caching decorators:
    def deco(f): def wrapper(*params): key = <expr>; if key not in memo: memo[key] = f(...); return memo[key]; return wrapper"""
    out = []
    for deco in ast.walk(tree):
        if not isinstance(deco, ast.FunctionDef) or len(deco.args.args) != 1:
            continue
        wrapped = deco.args.args[0].arg
        for w in deco.body:
            if not isinstance(w, ast.FunctionDef):
                continue
            stores = [s for s in ast.walk(w) if isinstance(s, ast.Assign) and len(s.targets) == 1 and isinstance(s.targets[0], ast.Subscript)
                      and isinstance(s.value, ast.Call) and isinstance(s.value.func, ast.Name) and s.value.func.id == wrapped]
            if not stores:
                continue
            key_node = stores[0].targets[0].slice
            key_expr = key_node
            if isinstance(key_node, ast.Name):
                defs = [a.value for a in ast.walk(w) if isinstance(a, ast.Assign) and len(a.targets) == 1 and isinstance(a.targets[0], ast.Name)
                        and a.targets[0].id == key_node.id]
                if len(defs) == 1:
                    key_expr = defs[0]
            out.append((deco, w, key_expr, wrapped))
    return out


def clause_h(ctx: Context, idx) -> None:
    """A hand-written cache makes a result depend on what ran before unless its key covers everything the cached function reads that can
    change: for a cached method, every attribute of `self` that the method reads and that some method other than `__init__` assigns must
    occur in the key (or the cache must be dropped where it is assigned)."""
    n = 0

    def check_module(mname: str, tree: ast.AST, path: str, class_lookup) -> List[Tuple[str, int, str, str]]:
        found = []
        for deco, w, key_expr, wrapped in _memo_wrappers(tree):
            dname = deco.name
            params = [a.arg for a in w.args.args]
            if not params:
                continue
            me = params[0]
            key_attrs = {x.attr for x in ast.walk(key_expr) if isinstance(x, ast.Attribute) and isinstance(x.value, ast.Name) and x.value.id == me}
            for cls_node, meth in class_lookup(dname):
                mself = meth.args.args[0].arg if meth.args.args else None
                reads = {x.attr for x in ast.walk(meth) if isinstance(x, ast.Attribute) and isinstance(x.value, ast.Name) and x.value.id == mself
                         and isinstance(x.ctx, ast.Load)}
                for attr in sorted(reads - key_attrs):
                    writers = class_writers(cls_node, attr)
                    if writers:
                        found.append((f"{mname}:{cls_node.name}.{meth.name}", w.lineno, attr, ", ".join(sorted(writers))))
        return found

    def class_writers(cls_node: ast.ClassDef, attr: str) -> Set[str]:
        out: Set[str] = set()
        # the class itself and, through the index, its bases
        nodes = [cls_node]
        for m in idx.modules.values():
            for c in m.classes.values():
                if c.node is cls_node:
                    nodes = [b.node for b in c.mro()]
        for cn in nodes:
            for f in cn.body:
                if isinstance(f, ast.FunctionDef) and f.name != "__init__" and f.args.args:
                    me = f.args.args[0].arg
                    for s in ast.walk(f):
                        if isinstance(s, (ast.Assign, ast.AugAssign)):
                            for t in (s.targets if isinstance(s, ast.Assign) else [s.target]):
                                base = t
                                while isinstance(base, ast.Subscript):
                                    base = base.value
                                if isinstance(base, ast.Attribute) and base.attr == attr and isinstance(base.value, ast.Name) and base.value.id == me:
                                    out.add(f.name)
                        # self.attr.update(...) / .pop / .clear / .append ...: the object the attribute holds is changed in place
                        if isinstance(s, ast.Call) and isinstance(s.func, ast.Attribute) and s.func.attr in ("update", "pop", "clear", "setdefault", "append", "extend", "popitem", "remove", "insert") \
                                and isinstance(s.func.value, ast.Attribute) and s.func.value.attr == attr and isinstance(s.func.value.value, ast.Name) \
                                and s.func.value.value.id == me:
                            out.add(f.name)
        return out

    total_wrappers = 0
    for mname, m in sorted(idx.modules.items()):
        if not mname.startswith("piquasso."):
            continue
        wrappers = _memo_wrappers(m.tree)
        total_wrappers += len(wrappers)
        if not wrappers:
            continue

        def lookup(dname, _m=m):
            for c in ast.walk(_m.tree):
                if isinstance(c, ast.ClassDef):
                    for f in c.body:
                        if isinstance(f, ast.FunctionDef) and any((dotted(d.func if isinstance(d, ast.Call) else d) or "").split(".")[-1] == dname for d in f.decorator_list):
                            yield c, f

        for where, line, attr, writers in check_module(mname, m.tree, m.path, lookup):
            n += 1
            key = f"{where}|cache key omits self.{attr}"
            ctx.violation("C11h", key, m.path, line,
                          f"the cached value of {where.split(':')[-1]} depends on `self.{attr}`, which {writers} re-assign(s), but the cache key does not "
                          f"contain it: after the attribute changes (e.g. outcome-dependent parameters resolved per branch) the stale value of an "
                          f"earlier call is returned", f"self.{attr}")
    # positive fixture
    fx = os.path.join(os.path.dirname(os.path.dirname(os.path.dirname(os.path.abspath(__file__)))), "stubs", "memo_key_fixture.py")
    ftree = ast.parse(open(fx).read())

    def flookup(dname):
        for c in ast.walk(ftree):
            if isinstance(c, ast.ClassDef):
                for f in c.body:
                    if isinstance(f, ast.FunctionDef) and any((dotted(d) or "").split(".")[-1] == dname for d in f.decorator_list):
                        yield c, f

    hits = check_module("fixture", ftree, fx, flookup)
    if not any(h[2] == "_params" for h in hits):
        raise AnalysisError("C11h: the positive fixture stubs/memo_key_fixture.py is no longer matched")
    # module-level form: `if key not in CACHE: CACHE[key] = compute(...)` on a dict bound at module level.  Every input of the stored value
    # (access paths rooted at the parameters of the enclosing function, locals read through their definitions) must be covered by the key.
    def module_caches(tree: ast.AST) -> List[Tuple[ast.FunctionDef, int, str, str]]:
        out = []
        globals_ = {t.id for s_ in getattr(tree, "body", []) if isinstance(s_, (ast.Assign, ast.AnnAssign))
                    for t in ([s_.target] if isinstance(s_, ast.AnnAssign) else s_.targets) if isinstance(t, ast.Name)
                    and isinstance(s_.value, (ast.Dict, ast.Call)) and (isinstance(s_.value, ast.Dict) or (dotted(s_.value.func) or "").split(".")[-1] in ("dict", "OrderedDict"))}
        if not globals_:
            return out
        for f in ast.walk(tree):
            if not isinstance(f, ast.FunctionDef):
                continue
            params = {a.arg for a in f.args.args + f.args.kwonlyargs}
            defs: Dict[str, List[ast.AST]] = {}
            for a in ast.walk(f):
                if isinstance(a, ast.Assign) and len(a.targets) == 1 and isinstance(a.targets[0], ast.Name):
                    defs.setdefault(a.targets[0].id, []).append(a.value)

            def paths(e: ast.AST, seen=None) -> Set[str]:
                seen = seen if seen is not None else set()
                out_: Set[str] = set()

                def chain_root(x):
                    while isinstance(x, (ast.Attribute, ast.Subscript, ast.Call)):
                        x = x.value if not isinstance(x, ast.Call) else x.func
                    return x

                def rec(x: ast.AST) -> None:
                    if isinstance(x, (ast.Attribute, ast.Subscript)):
                        r = chain_root(x)
                        if isinstance(r, ast.Name) and r.id in params:
                            # maximal chain of attributes / constant subscripts
                            y = x
                            while isinstance(y, ast.Subscript) and not isinstance(y.slice, ast.Constant):
                                y = y.value
                            out_.add(norm(y))
                            if isinstance(x, ast.Subscript) and not isinstance(x.slice, ast.Constant):
                                rec(x.slice)
                            return
                    if isinstance(x, ast.Name) and isinstance(x.ctx, ast.Load):
                        if x.id in params:
                            out_.add(x.id)
                        elif x.id in defs and x.id not in seen:
                            seen.add(x.id)
                            for d_ in defs[x.id]:
                                out_.update(paths(d_, seen))
                        return
                    for c_ in ast.iter_child_nodes(x):
                        rec(c_)
                rec(e)
                return out_

            # stores `G[K] = V` into a module-level dict that the same function also looks up under the same key (`K in G`, `K not in G`,
            # `G.get(K)`, `G[K]`): the cache idiom in all its spellings
            for a in ast.walk(f):
                if not (isinstance(a, ast.Assign) and len(a.targets) == 1 and isinstance(a.targets[0], ast.Subscript) and isinstance(a.targets[0].value, ast.Name)
                        and a.targets[0].value.id in globals_):
                    continue
                g = a.targets[0].value.id
                key_e = a.targets[0].slice
                kt = norm(key_e)
                looked_up = False
                for x in ast.walk(f):
                    if isinstance(x, ast.Compare) and len(x.ops) == 1 and isinstance(x.ops[0], (ast.In, ast.NotIn)) and isinstance(x.comparators[0], ast.Name) \
                            and x.comparators[0].id == g and norm(x.left) == kt:
                        looked_up = True
                    if isinstance(x, ast.Call) and isinstance(x.func, ast.Attribute) and x.func.attr == "get" and isinstance(x.func.value, ast.Name) \
                            and x.func.value.id == g and x.args and norm(x.args[0]) == kt:
                        looked_up = True
                    if isinstance(x, ast.Subscript) and isinstance(x.ctx, ast.Load) and isinstance(x.value, ast.Name) and x.value.id == g and norm(x.slice) == kt:
                        looked_up = True
                if not looked_up:
                    continue
                kp = paths(key_e)
                # strip call suffixes such as .tobytes() from key paths: the key covers the object the digest is taken of
                kp = {k_.split("(")[0].rsplit(".", 1)[0] if "(" in k_ else k_ for k_ in kp} | kp
                for v in sorted(paths(a.value)):
                    if not any(v.startswith(k_) or k_.startswith(v) for k_ in kp):
                        out.append((f, a.lineno, g, v))
        return out

    n_mod = 0
    for mname, m in sorted(idx.modules.items()):
        if not mname.startswith("piquasso."):
            continue
        for f, line, g, v in module_caches(m.tree):
            n_mod += 1
            key = f"{mname}:{f.name}|module cache {g} omits {v}"
            ctx.violation("C11h", key, m.path, line,
                          f"`{g}` is a module-level cache filled in {f.name} under a key that does not cover `{v}`, which the stored value is computed "
                          f"from: a later call with another `{v}` returns the value of an earlier one, so a seeded run depends on what ran before it in "
                          f"the same process", v)
    # identity-keyed form: `cached_array is current_array` as a validity test of a cache.  The arrays a state keeps (`_m`, `_C`, `_G`,
    # `_state_vector`, ...) are updated through connector.assign, which under the NumPy connector writes in place: the object stays the same
    # while its content changes, so identity is not a version stamp and the cached value goes stale after the next gate.
    assign_updated: Set[str] = set()
    for m in idx.modules.values():
        for a in ast.walk(m.tree):
            if isinstance(a, ast.Assign) and len(a.targets) == 1 and isinstance(a.targets[0], ast.Attribute) and isinstance(a.value, ast.Call) \
                    and isinstance(a.value.func, ast.Attribute) and a.value.func.attr == "assign" and a.value.args \
                    and isinstance(a.value.args[0], ast.Attribute) and a.value.args[0].attr == a.targets[0].attr:
                assign_updated.add(a.targets[0].attr)
    ctx.require_floor("C11h attributes updated through connector.assign", len(assign_updated), 4)

    def identity_keyed(tree: ast.AST) -> List[Tuple[ast.FunctionDef, ast.Compare, str]]:
        out = []
        for f in ast.walk(tree):
            if not isinstance(f, ast.FunctionDef):
                continue
            held = sorted({x.attr for x in ast.walk(f) if isinstance(x, ast.Attribute) and x.attr in assign_updated and isinstance(x.ctx, ast.Load)
                           and isinstance(x.value, ast.Name) and x.value.id == "self"})
            if not held:
                continue
            for c in ast.walk(f):
                if isinstance(c, ast.Compare) and len(c.ops) == 1 and isinstance(c.ops[0], (ast.Is, ast.IsNot)) \
                        and all(isinstance(o_, (ast.Name, ast.Attribute, ast.Subscript)) and not any(isinstance(y_, ast.Call) for y_ in ast.walk(o_))
                                for o_ in (c.left, c.comparators[0])):
                    # `type(a) is type(b)`, `x is None`, `cls is Base` are not array identities
                    if any(isinstance(o_, ast.Name) and o_.id[:1].isupper() for o_ in (c.left, c.comparators[0])):
                        continue
                    out.append((f, c, ", ".join(held)))
        return out

    for mname, m in sorted(idx.modules.items()):
        if not mname.startswith("piquasso."):
            continue
        for f, c, held in identity_keyed(m.tree):
            n_mod += 1
            key = f"{mname}:{f.name}|identity of in-place updated arrays as cache key"
            ctx.violation("C11h", key, m.path, c.lineno,
                          f"{f.name} decides by `{norm(c)[:60]}` whether something computed from self.{held} is still valid; these arrays are updated "
                          f"through connector.assign, which writes in place under the NumPy connector, so the same object holds new content and the "
                          f"cached value of an earlier call is returned after the state has changed", norm(c)[:100])
    fx2 = ast.parse("class S:\n    def calc(self):\n        key = (self._m, self._C)\n        if self._cache is not None and all(a is b for a, b in zip(self._cache[0], key)):\n"
                    "            return self._cache[1]\n        return 1\n    def other(self, o):\n        return self._m is None or type(self) is type(o)\n")
    if [(f.name) for f, _, _ in identity_keyed(fx2)] != ["calc"]:
        raise AnalysisError("C11h: the identity-key rule does not behave on its inline fixture")
    # a Generator object is shared by reference (Config.copy hands the same rng to simulators and states): it is replaced, never re-seeded
    # in place - an in-place re-seed changes the stream of every holder, so a seeded simulator depends on what was configured after it
    def reseeds(tree: ast.AST) -> List[ast.AST]:
        out = []
        for a in ast.walk(tree):
            if isinstance(a, (ast.Assign, ast.AugAssign)):
                for t in (a.targets if isinstance(a, ast.Assign) else [a.target]):
                    if isinstance(t, ast.Attribute) and t.attr == "state" and isinstance(t.value, ast.Attribute) and t.value.attr == "bit_generator":
                        out.append(a)
            if isinstance(a, ast.Call) and isinstance(a.func, ast.Attribute) and a.func.attr in ("__setstate__", "_legacy_seeding") \
                    and any(isinstance(x_, (ast.Attribute, ast.Name)) and "rng" in norm(x_) for x_ in [a.func.value]):
                out.append(a)
        return out
    fx3 = ast.parse("def f(self, rng):\n    self.rng.bit_generator.state = rng.bit_generator.state\ndef g(self, rng):\n    self.rng = rng\n")
    if [len(reseeds(f_)) for f_ in fx3.body] != [1, 0]:
        raise AnalysisError("C11h: the in-place re-seed rule does not behave on its inline fixture")
    for mname, m in sorted(idx.modules.items()):
        if not mname.startswith("piquasso."):
            continue
        for a in reseeds(m.tree):
            n_mod += 1
            ctx.violation("C11a", f"{mname}|generator re-seeded in place|{norm(a)[:50]}", m.path, a.lineno,
                          f"`{norm(a)[:80]}` re-seeds an existing Generator object in place; the object is shared by reference with the copies of the "
                          f"configuration held by simulators and states, so an already seeded simulator draws the stream of a seed that was set later",
                          norm(a)[:100])
    # the seed setter re-creates the numpy generator and re-seeds Python's global generator (which the Fock measurements still draw from,
    # known finding) together: every path that does the first does the second
    from .. import cfg as _cfg
    cfgc = idx.find_class("piquasso.api.config", "Config")
    setter = cfgc.methods.get("seed_sequence.setter")
    if setter is None:
        raise AnalysisError("anchor vanished: Config.seed_sequence setter")
    g_ = _cfg.build(setter.node)
    creates = [nd for nd in g_.nodes if nd.stmt is not None and isinstance(nd.stmt, ast.Assign)
               and any(isinstance(c_, ast.Call) and (dotted(c_.func) or "").split(".")[-1] == "default_rng" for c_ in ast.walk(nd.stmt))]
    seeds_global = lambda nd: nd.stmt is not None and any(isinstance(c_, ast.Call) and (dotted(c_.func) or "") == "random.seed" for c_ in _cfg.own_nodes(nd))  # noqa: E731
    if not creates or not any(seeds_global(nd) for nd in g_.nodes):
        raise AnalysisError("C11a: Config.seed_sequence setter no longer creates the generator and seeds `random` (undecided)")
    for nd in creates:
        escapes = g_.must_pass_before_exit(nd.id, seeds_global, exits=(_cfg.EXIT,))
        dominated = g_.dominates(seeds_global, nd.id)
        ok_ = not escapes or dominated
        keyp = f"{cfgc.qualname}.seed_sequence.setter|random.seed on every path that re-creates the generator"
        ctx.obligation("C11a", keyp, ok_, f"{ctx.relpath(setter.file)}:{nd.line}")
        if not ok_:
            n_mod += 1
            ctx.violation("C11a", keyp, setter.file, nd.line,
                          "a path through the seed setter re-creates the numpy generator without re-seeding Python's global generator, which the "
                          "Fock particle-number measurements draw from: two simulators configured with the same seed through the setter give "
                          "different samples", norm(nd.stmt)[:100])
    fhits = module_caches(ftree)
    if not any(h[3] == "instruction._params['mean_photon_number']" for h in fhits):
        raise AnalysisError("C11h: the module-level positive fixture in stubs/memo_key_fixture.py is no longer matched")
    ctx.obligation("C11h", "package|hand-written caches key on everything mutable they read", n == 0 and n_mod == 0, wrappers=total_wrappers,
                   fixture_matches=len(hits) + len(fhits))
