"""C12 — execution never modifies what the caller passed in, even on failure.

 (a) save/restore pairing on all exits (CFG with exception edges), restored value = captured value
 (b) copy-before-use of initial_state / config / nested-program instructions
 (c) no in-place write on a value aliased to a user parameter object (taint, E3)
 (d) no in-place write on a memoised result (taint, E3)
 (e) no native kernel writes through a buffer it shares with a numpy argument (E8a)
"""

from __future__ import annotations

import ast
from typing import Dict, List, Optional, Set, Tuple

from .. import cfg as cfgmod
from ..astutil import self_attr, names_in
from ..callgraph import get_resolver
from ..dataflow import Analysis
from ..index import ClassInfo, FuncInfo, get_index, dotted, norm, calls_in, walk_no_nested
from ..registry import get_registry
from ..report import Context, AnalysisError
from .. import cxx

LEVEL = "other"
SIM = "piquasso.api.simulator"

# Frozen table of acquire/release call pairs (confirmed by reading; DESIGN E2)
CALL_PAIRS = [("_resolve_params", "_unresolve_params")]

# Functions outside the scope of the mutation rules, one reason each
EXEMPT_WRITERS = {
    "piquasso.api.instruction:Instruction._resolve_params": "the designated temporary overwrite; paired with _unresolve_params and decided under C12a",
    "piquasso.api.instruction:Instruction._unresolve_params": "the designated restore; decided under C12a",
    "piquasso.core._mixins:WeightMixin.__mul__": "operator overload that scales the preparation's own coefficient at construction time (by design, DESIGN E3)",
    "piquasso.api.instruction:Instruction._apply_to_program_on_register": "registration API: appending to the program being built is its purpose",
    "piquasso.api.program:Program._apply_to_program_on_register": "registration API (appends copies to the enclosing program)",
    "piquasso.api.program:Program.load_blackbird": "construction API: extends the program it is called on, as documented",
    "piquasso.api.program:Program.loads_blackbird": "construction API: extends the program it is called on, as documented",
    "piquasso.api.program:Program.__init__": "constructor",
}
# user-owned arguments of the public execution / validation / export entry points
USER_PARAMS = {
    "piquasso.api.simulator:Simulator.execute": ("program", "initial_state"),
    "piquasso.api.simulator:Simulator.execute_instructions": ("instructions", "initial_state"),
    "piquasso.api.simulator:Simulator.validate": ("program",),
    "piquasso.api.simulator:Simulator._do_execute_instructions": ("instructions",),
    "piquasso.api.simulator:Simulator._validate_instructions": ("instructions",),
    "piquasso.api.utils:as_code": ("program", "simulator"),
    "piquasso.core._blackbird:export_instructions": ("instructions",),
}


def run(ctx: Context) -> None:
    idx = get_index(ctx.repo)
    reg = get_registry(idx)
    ctx.explanation = (
        "Ownership rules decided on the source: a CFG with exception edges for the two temporary overwrites of "
        "caller-owned instruction fields (restored on every exit, with the captured value), a copy-before-use rule "
        "for initial_state/config/nested instructions, a may-alias analysis with function summaries for in-place "
        "writes reaching user parameter objects or memoised results, and a buffer write-through rule for the C++ "
        "kernels. The property is structural; third-party code (blackbird, numba internals) is outside."
    )
    ctx.rule("C12a", "a caller-owned field overwritten during execution is restored on every path to a function exit or the next loop iteration, including exception edges, with the value captured before the overwrite")
    ctx.rule("C12b", "initial_state reaches evolution only through .copy(); config parameters are stored only as .copy(); nested programs apply mutators only to instruction.copy()")
    ctx.rule("C12c", "no in-place write on a value that may alias a user parameter object")
    ctx.rule("C12d", "no in-place write on the result object of a memoised function")
    ctx.rule("C12f", "branches built in a loop do not share one state object (the simulator evolves branch states in place)")
    ctx.rule("C12e", "no exported native kernel writes through a Matrix/Vector that shares its buffer with a numpy argument")
    clause_a(ctx, idx)
    clause_b(ctx, idx, reg)
    clause_b_copies(ctx, idx)
    clause_cd(ctx, idx, reg)
    clause_e(ctx)
    clause_f(ctx, idx)


# ================================================================================================ (a)


def _attr_store(n: ast.AST, obj: str, attrs: Set[str]) -> Optional[ast.Attribute]:
    if isinstance(n, ast.Attribute) and isinstance(n.ctx, ast.Store) and isinstance(n.value, ast.Name) and n.value.id == obj \
            and n.attr in attrs:
        return n
    return None


def _enclosing_loop_headers(g: cfgmod.CFG, node: cfgmod.Node, fn_node: ast.AST) -> List[int]:
    """Loop header node ids of loops whose body contains the statement."""
    out = []
    for n in g.nodes:
        if n.kind == "loop" and n.stmt is not None:
            for b in n.stmt.body:
                if any(x is node.stmt for x in ast.walk(b)):
                    out.append(n.id)
    return out


def clause_a(ctx: Context, idx) -> None:
    sim = idx.find_class(SIM, "Simulator")
    n_instances = 0
    # ---- pattern 1: v = o.f ... o.f = e ... o.f|o._f = v ----------------------------------------------------
    for fn in sim.methods.values():
        captures: Dict[Tuple[str, str], str] = {}
        for n in walk_no_nested(fn.node):
            if isinstance(n, ast.Assign) and len(n.targets) == 1 and isinstance(n.targets[0], ast.Name) \
                    and isinstance(n.value, ast.Attribute) and isinstance(n.value.value, ast.Name) and n.value.value.id != "self":
                captures[(n.value.value.id, n.value.attr.lstrip("_"))] = n.targets[0].id
        for (obj, attr), var in captures.items():
            attrs = {attr, "_" + attr}
            g = cfgmod.build(fn.node)
            restores, overwrites, capture_nodes = [], [], []
            for node in g.nodes:
                if node.stmt is None or node.kind not in ("stmt",):
                    continue
                s = node.stmt
                if isinstance(s, ast.Assign):
                    if len(s.targets) == 1 and isinstance(s.targets[0], ast.Name) and s.targets[0].id == var:
                        capture_nodes.append(node)
                    for t in s.targets:
                        if _attr_store(t, obj, attrs):
                            if isinstance(s.value, ast.Name) and s.value.id == var:
                                restores.append(node)
                            else:
                                overwrites.append(node)
            if not restores or not overwrites:
                continue
            n_instances += 1
            key = f"{fn.qualname}|{obj}.{attr}"
            problems = _check_pairing(g, fn, overwrites, restores)
            # captured exactly once, before the overwrites, and never rebound
            if len({id(c.stmt) for c in capture_nodes}) != 1:
                problems.append((capture_nodes[0].line if capture_nodes else fn.line,
                                 f"`{var}` is bound more than once: what is written back need not be the value captured before the overwrite", None))
            else:
                for ow in overwrites:
                    if not g.dominates(lambda nd: nd.stmt is capture_nodes[0].stmt, ow.id):
                        problems.append((ow.line, f"the overwrite `{ow.label()}` can run before `{var}` captured the original value", None))
            ctx.obligation("C12a", key, not problems, f"{ctx.relpath(fn.file)}:{fn.line}",
                           overwrites=[o.label() for o in overwrites][:4], restores=[r.label() for r in restores][:4])
            for line, msg, path in problems[:1]:
                ctx.violation("C12a", key, fn.file, line, msg, f"{obj}.{attr} = {var}", path=path)
    # ---- pattern 2: frozen acquire/release call pairs ----------------------------------------------------------
    for fn in list(idx.all_functions()):
        for acq, rel in CALL_PAIRS:
            has_acq = any(isinstance(c.func, ast.Attribute) and c.func.attr == acq for c in calls_in(fn.node, nested=False))
            if not has_acq:
                continue
            g = cfgmod.build(fn.node)

            def calls(node, name):
                return any(isinstance(c, ast.Call) and isinstance(c.func, ast.Attribute) and c.func.attr == name
                           for c in cfgmod.own_nodes(node))
            acquires = [n for n in g.nodes if n.stmt is not None and n.kind == "stmt" and calls(n, acq)]
            releases = [n for n in g.nodes if n.stmt is not None and n.kind == "stmt" and calls(n, rel)]
            n_instances += 1
            key = f"{fn.qualname}|{acq}/{rel}"
            if not releases:
                ctx.obligation("C12a", key, False)
                ctx.violation("C12a", key, fn.file, acquires[0].line, f"{acq}() is never paired with {rel}() in this function", f"{acq}(...)")
                continue
            problems = _check_pairing(g, fn, acquires, releases)
            ctx.obligation("C12a", key, not problems, f"{ctx.relpath(fn.file)}:{fn.line}")
            for line, msg, path in problems[:1]:
                ctx.violation("C12a", key, fn.file, line, msg, f"instruction.{rel}()", path=path)
    ctx.require_floor("save/restore instances on caller-owned objects", n_instances, 2)

    # ---- what _unresolve_params writes back is what the user passed ------------------------------------------------
    instr = idx.find_class("piquasso.api.instruction", "Instruction")
    unres = instr.methods.get("_unresolve_params")
    init = instr.methods.get("__init__")
    if unres is None or init is None:
        raise AnalysisError("anchor vanished: Instruction._unresolve_params/__init__")
    src_attr = None
    for c in calls_in(unres.node):
        if isinstance(c.func, ast.Attribute) and c.func.attr == "update" and self_attr(c.func.value) == "_params" and c.args:
            src_attr = self_attr(c.args[0])
    key = f"{unres.qualname}|restores-original-objects"
    if src_attr is None:
        raise AnalysisError("C12a: _unresolve_params has a shape the checker cannot read (no self._params.update(self.<attr>)) (undecided)")
    producer = None
    for n in ast.walk(init.node):
        if isinstance(n, ast.Assign) and any(self_attr(t) == src_attr for t in n.targets):
            producer = n.value
    bad = None
    if producer is None:
        raise AnalysisError(f"C12a: self.{src_attr} is not assigned in Instruction.__init__ (undecided)")
    exprs = _dict_value_exprs(idx, instr, producer)
    if exprs is None:
        raise AnalysisError(f"C12a: cannot read how self.{src_attr} is built (undecided)")
    for (val_expr, item_var, where) in exprs:
        if not (isinstance(val_expr, ast.Name) and val_expr.id == item_var):
            bad = (val_expr, where)
    ctx.obligation("C12a", key, bad is None, f"{ctx.relpath(unres.file)}:{unres.line}", restore_source=f"self.{src_attr}")
    if bad is not None:
        ctx.violation("C12a", key, unres.file, getattr(bad[0], "lineno", unres.line),
                      f"_unresolve_params writes self.{src_attr} back into the user's params, but that mapping holds "
                      f"`{norm(bad[0])}` instead of the object the user passed: after execution the instruction's parameter is a "
                      f"different object than before", norm(bad[0]))

    # ---- the temporary overwrite itself is atomic: no exception can leave _resolve_params after its first write ------------
    resolve = instr.methods.get("_resolve_params")
    if resolve is None:
        raise AnalysisError("anchor vanished: Instruction._resolve_params")
    gr = cfgmod.build(resolve.node)

    def writes_params(nd):
        for x in cfgmod.own_nodes(nd):
            if isinstance(x, ast.Call) and isinstance(x.func, ast.Attribute) and x.func.attr in ("update", "__setitem__", "setdefault", "pop") \
                    and self_attr(x.func.value) in ("_params", "params"):
                return True
            if isinstance(x, ast.Subscript) and isinstance(x.ctx, ast.Store) and self_attr(x.value) in ("_params", "params"):
                return True
        return False

    wnodes = [n for n in gr.nodes if n.stmt is not None and n.kind == "stmt" and writes_params(n)]
    key = f"{resolve.qualname}|overwrite-is-atomic"
    if not wnodes:
        raise AnalysisError("C12a: anchor vanished: the write to self._params in _resolve_params")
    leak = None
    for w in wnodes:
        starts = [m for (m, label) in gr.succ[w.id] if label != "exc"]
        r = gr.reach(starts)
        if cfgmod.RAISE in r:
            leak = (w, gr.path_to(cfgmod.RAISE))
    ctx.obligation("C12a", key, leak is None, f"{ctx.relpath(resolve.file)}:{resolve.line}")
    if leak is not None:
        ctx.violation("C12a", key, resolve.file, leak[0].line,
                      f"_resolve_params can raise after it has already written `{leak[0].label()}`: the caller never reaches "
                      f"_unresolve_params (the acquire failed), so the user's parameters stay partially resolved", leak[0].label(),
                      path=[leak[0].label()] + leak[1])

    # ---- the program stack is a context-manager pair ---------------------------------------------------------------------
    prog = idx.find_class("piquasso.api.program", "Program")
    en, ex = prog.methods.get("__enter__"), prog.methods.get("__exit__")
    if en is None or ex is None:
        raise AnalysisError("anchor vanished: Program.__enter__/__exit__")
    pushes = [c for c in calls_in(en.node) if isinstance(c.func, ast.Attribute) and c.func.attr == "append" and "program_stack" in norm(c.func.value)]
    gex = cfgmod.build(ex.node)
    miss = gex.must_pass_before_exit(cfgmod.ENTRY, lambda n: any(
        isinstance(c, ast.Call) and isinstance(c.func, ast.Attribute) and c.func.attr == "pop" and "program_stack" in norm(c.func.value)
        for c in cfgmod.own_nodes(n)), exits=(cfgmod.EXIT,))
    key = f"{prog.qualname}|program_stack push/pop"
    ok = bool(pushes) and not miss
    ctx.obligation("C12a", key, ok)
    if not ok:
        ctx.violation("C12a", key, prog.file, ex.line, "Program.__exit__ can return without popping the program it pushed on the stack",
                      "_context.program_stack.pop()")


def _dict_value_exprs(idx, cls: ClassInfo, producer: ast.AST, depth: int = 0):
    """Value expressions (with their item variable) of the dict an expression builds: DictComp / {**a, **b} / call."""
    if depth > 4:
        return None
    if isinstance(producer, ast.DictComp):
        gen = producer.generators[0]
        item_var = None
        if isinstance(gen.target, ast.Tuple) and len(gen.target.elts) == 2 and isinstance(gen.target.elts[1], ast.Name):
            item_var = gen.target.elts[1].id
        return [(producer.value, item_var, producer.lineno)]
    if isinstance(producer, ast.Dict):
        out = []
        for k, v in zip(producer.keys, producer.values):
            if k is None:
                sub = _dict_value_exprs(idx, cls, v, depth + 1)
                if sub is None:
                    return None
                out.extend(sub)
            else:
                return None
        return out
    if isinstance(producer, ast.Call):
        name = self_attr(producer.func) or (producer.func.attr if isinstance(producer.func, ast.Attribute) else None)
        meth = cls.find_method(name) if name else None
        if meth is None:
            return None
        local: Dict[str, ast.AST] = {}
        for n in walk_no_nested(meth.node):
            if isinstance(n, ast.Assign) and len(n.targets) == 1 and isinstance(n.targets[0], ast.Name):
                local[n.targets[0].id] = n.value
        out = []
        for r in walk_no_nested(meth.node):
            if isinstance(r, ast.Return) and r.value is not None:
                sub = _dict_value_exprs_local(idx, cls, r.value, local, depth + 1)
                if sub is None:
                    return None
                out.extend(sub)
        return out or None
    return None


def _dict_value_exprs_local(idx, cls, e, local, depth):
    if isinstance(e, ast.Name) and e.id in local:
        return _dict_value_exprs_local(idx, cls, local[e.id], local, depth + 1) if depth < 8 else None
    if isinstance(e, ast.Dict):
        out = []
        for k, v in zip(e.keys, e.values):
            if k is not None:
                return None
            sub = _dict_value_exprs_local(idx, cls, v, local, depth + 1)
            if sub is None:
                return None
            out.extend(sub)
        return out
    return _dict_value_exprs(idx, cls, e, depth)


def _check_pairing(g: cfgmod.CFG, fn: FuncInfo, acquires: List[cfgmod.Node], releases: List[cfgmod.Node]):
    """From each acquire's normal successors every path to EXIT / RAISE / the enclosing loop header passes a release."""
    problems = []
    rel_ids = {r.id for r in releases}
    for a in acquires:
        starts = [m for (m, label) in g.succ[a.id] if label != "exc"]
        headers = _enclosing_loop_headers(g, a, fn.node)
        r = g.reach(starts, blocked=lambda n: n.id in rel_ids, initial_facts=cfgmod.enclosing_guard_facts(g, a.stmt))
        for target, what in [(cfgmod.RAISE, "an exception leaves the function"), (cfgmod.EXIT, "the function returns")] + \
                [(h, "the next loop iteration starts") for h in headers]:
            if target in r and target not in starts or (target in starts and target in (cfgmod.EXIT, cfgmod.RAISE)):
                path = g.path_to(target)
                problems.append((a.line, f"after `{a.label()}` {what} without the restore `{releases[0].label()}`: "
                                         f"the caller's object stays modified", [a.label()] + path))
                break
    return problems


# ================================================================================================ (b)


def _uses_of(fn: FuncInfo, name: str) -> List[Tuple[ast.Name, ast.AST]]:
    """(Name node, parent) for every load of `name` in fn (not nested defs)."""
    out = []
    for parent in walk_no_nested(fn.node):
        for child in ast.iter_child_nodes(parent):
            if isinstance(child, ast.Name) and child.id == name and isinstance(child.ctx, ast.Load):
                out.append((child, parent))
    return out


def _classify_use(name_node: ast.Name, parent: ast.AST, grand: Dict[int, ast.AST]) -> str:
    if isinstance(parent, ast.Compare):
        return "test"
    if isinstance(parent, ast.Attribute) and parent.attr == "copy":
        gp = grand.get(id(parent))
        if isinstance(gp, ast.Call) and gp.func is parent:
            return "copy"
    if isinstance(parent, ast.Attribute):
        return f"attr:{parent.attr}"
    if isinstance(parent, ast.Call):
        fname = dotted(parent.func) or norm(parent.func)
        return f"arg:{fname}"
    if isinstance(parent, ast.keyword):
        gp = grand.get(id(parent))
        fname = (dotted(gp.func) or norm(gp.func)) if isinstance(gp, ast.Call) else "?"
        return f"kwarg:{fname}:{parent.arg}"
    if isinstance(parent, ast.IfExp):
        return "test" if name_node is parent.test else "value-of-conditional"
    if isinstance(parent, ast.UnaryOp):
        return "test"
    if isinstance(parent, ast.BoolOp):
        gp = grand.get(id(parent))
        return "test" if isinstance(gp, (ast.If, ast.While, ast.IfExp)) and getattr(gp, "test", None) is parent else "value-of-boolop"
    return f"other:{type(parent).__name__}"


def _parents(fn: FuncInfo) -> Dict[int, ast.AST]:
    out = {}
    for p in ast.walk(fn.node):
        for c in ast.iter_child_nodes(p):
            out[id(c)] = p
    return out


def clause_b(ctx: Context, idx, reg) -> None:
    sim = idx.find_class(SIM, "Simulator")
    ex = sim.methods["execute_instructions"]
    par = _parents(ex)
    n = 0
    for name_node, parent in _uses_of(ex, "initial_state"):
        kind = _classify_use(name_node, parent, par)
        n += 1
        ok = kind in ("test", "copy") or kind.startswith("arg:self._validate_initial_state") or kind == "attr:d"
        key = f"{ex.qualname}|initial_state|{kind}"
        ctx.instance("C12b", key, "ok" if ok else "VIOLATION", f"{ctx.relpath(ex.file)}:{name_node.lineno}")
        if not ok:
            ctx.violation("C12b", key, ex.file, name_node.lineno,
                          f"the caller's initial_state is used as `{kind}` without .copy(): evolution would run on (and modify) the caller's state",
                          norm(parent)[:80])
    ctx.require_floor("uses of initial_state in execute_instructions", n, 3)
    # config parameters of Simulator / State constructors
    state_base = idx.find_class("piquasso.api.state", "State")
    n_cfg = 0
    for base in (sim, state_base):
        for c in idx.subclasses(base, strict=False):
            init = c.methods.get("__init__")
            if init is None or "config" not in init.all_params():
                continue
            par = _parents(init)
            for name_node, parent in _uses_of(init, "config"):
                kind = _classify_use(name_node, parent, par)
                n_cfg += 1
                delegates = kind.startswith("kwarg:super().__init__") or kind.startswith("arg:super().__init__")
                ok = kind in ("test", "copy") or delegates
                key = f"{init.qualname}|config|{kind}"
                ctx.instance("C12b", key, "ok" if ok else "VIOLATION", f"{ctx.relpath(init.file)}:{name_node.lineno}")
                if not ok:
                    ctx.violation("C12b", key, init.file, name_node.lineno,
                                  f"the caller's Config is used as `{kind}` in {c.name}.__init__ without .copy(): later writes to the "
                                  f"simulator's/state's config (cutoff inference, seeds) would change the user's object", norm(parent)[:80])
    ctx.require_floor("uses of a config parameter in Simulator/State constructors", n_cfg, 8)
    # nested programs: the mutator is applied to a copy
    prog = idx.find_class("piquasso.api.program", "Program")
    ap = prog.methods.get("_apply_to_program_on_register")
    if ap is None:
        raise AnalysisError("anchor vanished: Program._apply_to_program_on_register")
    copies: Set[str] = set()
    loop_vars: Set[str] = set()
    for n_ in ast.walk(ap.node):
        if isinstance(n_, ast.For) and "self.instructions" in norm(n_.iter) and isinstance(n_.target, ast.Name):
            loop_vars.add(n_.target.id)
        if isinstance(n_, ast.Assign) and isinstance(n_.value, ast.Call) and isinstance(n_.value.func, ast.Attribute) \
                and n_.value.func.attr in ("copy",) and isinstance(n_.targets[0], ast.Name) and dotted(n_.value.func) != "copy.copy":
            # (copy.copy(x) is the shallow copy of the standard library: the params dict and the matrices in it stay shared)
            copies.add(n_.targets[0].id)
        if isinstance(n_, ast.Assign) and isinstance(n_.value, ast.Call) and dotted(n_.value.func) in ("copy.deepcopy", "deepcopy") \
                and isinstance(n_.targets[0], ast.Name):
            copies.add(n_.targets[0].id)
    bad = []
    applied = 0
    for c in calls_in(ap.node):
        if isinstance(c.func, ast.Attribute) and c.func.attr in ("_apply_to_program_on_register", "on_modes") \
                and not (isinstance(c.func.value, ast.Call) and dotted(c.func.value.func) == "super"):
            recv = c.func.value
            applied += 1
            is_copy = (isinstance(recv, ast.Name) and recv.id in copies) or (
                isinstance(recv, ast.Call) and isinstance(recv.func, ast.Attribute) and recv.func.attr == "copy" and dotted(recv.func) != "copy.copy")
            if not is_copy:
                bad.append(c)
    key = f"{ap.qualname}|mutator-applied-to-copy"
    if applied == 0:
        raise AnalysisError("C12b: anchor vanished: no registration call in Program._apply_to_program_on_register")
    ctx.obligation("C12b", key, not bad, f"{ctx.relpath(ap.file)}:{ap.line}")
    for c in bad:
        ctx.violation("C12b", key, ap.file, c.lineno,
                      "registering a program inside another applies on_modes to the inner program's own instruction objects or to a shallow "
                      "copy of them (their modes are overwritten / their parameter dictionaries stay shared; the inner program is not reusable)",
                      norm(c)[:80])


def clause_b_copies(ctx: Context, idx) -> None:
    """`.copy()` is what (b) relies on: every copy method of states, instructions/programs and Config must be deep."""
    state_base = idx.find_class("piquasso.api.state", "State")
    owners = [c for c in idx.subclasses(state_base, strict=False) if "copy" in c.methods]
    owners.append(idx.find_class("piquasso.core._mixins", "RegisterMixin"))
    owners.append(idx.find_class("piquasso.api.config", "Config"))
    n = 0
    for c in owners:
        m = c.methods.get("copy")
        if m is None:
            raise AnalysisError(f"anchor vanished: {c.qualname}.copy")
        n += 1
        key = f"{m.qualname}|deep"
        deep = any(dotted(x.func) in ("copy.deepcopy", "deepcopy") and x.args and isinstance(x.args[0], ast.Name) and x.args[0].id == "self"
                   for x in calls_in(m.node))
        problems = []
        if not deep:
            # a hand-written copy: every attribute taken from self must go through a copying operation
            for a in ast.walk(m.node):
                if isinstance(a, ast.Assign) and isinstance(a.targets[0], ast.Attribute) and not (
                        isinstance(a.targets[0].value, ast.Name) and a.targets[0].value.id == "self"):
                    v = a.value
                    takes_from_self = any(isinstance(x, ast.Attribute) and isinstance(x.value, ast.Name) and x.value.id == "self" for x in ast.walk(v))
                    copies = isinstance(v, ast.Call) and ((dotted(v.func) or "").split(".")[-1] in ("copy", "deepcopy", "array"))
                    if takes_from_self and not copies:
                        problems.append((a.lineno, f"`{norm(a)[:70]}` shares the attribute with the original"))
            built = [x for x in calls_in(m.node) if norm(x.func) in ("self.__class__", "type(self)", c.name)]
            if not built and not problems:
                problems.append((m.line, "neither copy.deepcopy(self) nor a freshly constructed object"))
            for kw in [k for x in built for k in x.keywords]:
                if kw.arg == "config" and not (isinstance(kw.value, ast.Call) and isinstance(kw.value.func, ast.Attribute) and kw.value.func.attr == "copy"):
                    # State.__init__ copies its config argument itself (checked above), so this is accepted
                    pass
        ctx.obligation("C12b", key, not problems, f"{ctx.relpath(m.file)}:{m.line}", deepcopy=deep)
        for line, msg in problems:
            ctx.violation("C12b", key, m.file, line,
                          f"{c.name}.copy() is not a deep copy: {msg}; execution on the copy of initial_state / a registered "
                          f"instruction / the user's Config then modifies the caller's object", norm(m.node).split("\n")[0])
    ctx.require_floor("copy methods examined", n, 4)


# ================================================================================================ (c)(d)


def _operator_overload(fn: FuncInfo) -> bool:
    return fn.name.startswith("__") and fn.name.endswith("__") and fn.name not in ("__init__", "__call__")


def clause_cd(ctx: Context, idx, reg) -> None:
    res = get_resolver(idx)
    for q in USER_PARAMS:
        mod, _, name = q.partition(":")
        idx.find_function(mod, name)  # anchors must exist
    an = Analysis(idx, res, {"user_params": USER_PARAMS, "user_attrs": ("instructions",)})
    funcs = [f for f in idx.all_functions()]
    an.run(funcs)
    ctx.count("functions analysed (taint)", len(an.units))
    ctx.require_floor("functions analysed (taint)", len(an.units), 800)
    ctx.require_floor("memoised callables", len(an.memo_funcs) + len(an.memo_names), 10)
    ctx.count("memoised callables (list)", sorted(list(an.memo_funcs.values()) + list(an.memo_names.values())))
    n_user_sources = sum(1 for k, v in an.class_attr_origins.items() if any(o[0] == "memo" for o in v.all()))
    ctx.count("class attributes holding memoised results", sorted(f"{k[0]}.{k[1]}" for k, v in an.class_attr_origins.items()
                                                                   if any(o[0] == "memo" for o in v.all())))
    n_writes = 0
    for w in an.writes:
        kinds = {o[0] for o in w.origins}
        if w.fn.qualname in EXEMPT_WRITERS or w.fn.qualname.split(".<locals>.")[0] in EXEMPT_WRITERS:
            ctx.instance("C12c", f"{w.fn.qualname}|exempt", "exempt", reason=EXEMPT_WRITERS.get(w.fn.qualname, ""))
            continue
        if _operator_overload(w.fn):
            ctx.instance("C12c", f"{w.fn.qualname}|operator-overload", "out-of-scope", f"{ctx.relpath(w.fn.file)}:{w.line}")
            continue
        for kind, rule, what in (("user", "C12c", "a user parameter object"), ("memo", "C12d", "the shared result of a memoised function")):
            if kind not in kinds:
                continue
            n_writes += 1
            srcs = sorted(str(o[1]) for o in w.origins if o[0] == kind)
            key = f"{w.fn.qualname}|{w.how.split(' ')[0]}|{w.target}"
            ctx.violation(rule, key, w.fn.file, w.line,
                          f"in-place write ({w.how}) on `{w.target}`, which may alias {what}: {', '.join(srcs)[:160]}",
                          norm(w.node).split("\n")[0][:100])
    # every write site analysed is an instance: count the in-place write constructs seen in the package
    total_sites = 0
    for u in an.units:
        for n in walk_no_nested(u.node):
            if isinstance(n, ast.AugAssign) or (isinstance(n, ast.Assign) and any(isinstance(t, ast.Subscript) for t in n.targets)):
                total_sites += 1
    ctx.require_floor("in-place write sites examined", total_sites, 300)
    ctx.instance("C12c", "package|in-place write sites examined", "info", count=total_sites, aliased_writes=n_writes)
    ctx.assume("types are not tracked: a subscript load is treated as a view unless its index is syntactically fancy; "
               "unknown (third-party) calls return fresh values")


# ================================================================================================ (e)


def clause_e(ctx: Context) -> None:
    cxx.check_buffer_write_through(ctx, "C12e")


def clause_f(ctx: Context, idx) -> None:
    """The simulator applies the next instruction to every branch's state *in place*.  Two branches that hold the same state object are
    therefore evolved twice.  A `Branch(state=E, ...)` that is built once per iteration of a loop (or comprehension) must get a state
    that belongs to that iteration: a call result (`.copy()`, a constructor, a projection), something assigned inside the loop body, or an
    expression that depends on the loop variable.  `None` is exempt."""
    n = 0
    for fn in idx.all_functions(include_nested=True):
        if not fn.module.name.startswith("piquasso."):
            continue
        loops = [l for l in walk_no_nested(fn.node) if isinstance(l, (ast.For, ast.ListComp, ast.GeneratorExp))]
        for b in walk_no_nested(fn.node):
            if not (isinstance(b, ast.Call) and (dotted(b.func) or "").split(".")[-1] == "Branch"):
                continue
            st = next((k.value for k in b.keywords if k.arg == "state"), b.args[0] if b.args else None)
            if st is None or (isinstance(st, ast.Constant) and st.value is None):
                continue
            # innermost enclosing loop
            encl = [l for l in loops if any(b is x for x in ast.walk(l))]
            if not encl:
                continue
            inner = min(encl, key=lambda l: sum(1 for _ in ast.walk(l)))
            if isinstance(inner, ast.For):
                targets = {x.id for x in ast.walk(inner.target) if isinstance(x, ast.Name)}
                body_assigned = {t.id for s_ in inner.body for a in ast.walk(s_) if isinstance(a, ast.Assign) for t in a.targets if isinstance(t, ast.Name)}
            else:
                targets = {x.id for g_ in inner.generators for x in ast.walk(g_.target) if isinstance(x, ast.Name)}
                body_assigned = set()
            n += 1
            names = {x.id for x in ast.walk(st) if isinstance(x, ast.Name)}
            fresh = isinstance(st, ast.Call) or bool(names & targets) or bool(names & body_assigned)
            key = f"{fn.qualname}|branch state per iteration|{norm(st)[:50]}"
            ctx.obligation("C12f", key, fresh, f"{ctx.relpath(fn.file)}:{b.lineno}")
            if not fresh:
                ctx.violation("C12f", key, fn.file, b.lineno,
                              f"`{norm(b)[:80]}` is built once per iteration of the enclosing loop, but its state `{norm(st)[:40]}` is the same object in "
                              f"every iteration: the simulator evolves branch states in place, so the next gate is applied to the shared state once per "
                              f"branch", norm(b)[:120])
    ctx.require_floor("C12f branches built inside loops with a state", n, 4)
