"""C13 — invalid programs are rejected up front; valid ones are never refused.

 (a) must-pass-through on the execution entry points (CFG dominance)
 (b) documented support is a subset of each dispatch table; allowed-measurement tuples are map keys
 (c) operand availability: parameters a step reads exist on every instruction class registered for it
 (d) affine list-length rule at the njit boundary (numba cannot type an empty reflected list)
 (e) shots=None discipline (shared with C03b)
 (f) the three mode predicates hold on every route that sets Instruction._modes
"""

from __future__ import annotations

import ast
from typing import Dict, List, Optional, Set, Tuple

from .. import cfg as cfgmod
from ..astutil import flatten_guard, guarded_statements, docstring_free_body, self_attr, names_in
from ..callgraph import get_resolver, is_njit, is_connector_expr
from ..index import ClassInfo, FuncInfo, get_index, dotted, norm, calls_in, walk_no_nested
from ..registry import get_registry
from ..report import Context, AnalysisError
from .. import shots as shotsmod

LEVEL = "other"
SIM = "piquasso.api.simulator"


def run(ctx: Context) -> None:
    idx = get_index(ctx.repo)
    reg = get_registry(idx)
    ctx.explanation = (
        "Path and table rules over the source: dominance of the validators on the CFG of the execution entry "
        "points, set inclusion of documented support in the dispatch tables, inclusion of the parameter keys a "
        "step reads in the keys its instruction classes define, an affine length domain for lists crossing "
        "the numba boundary, dominance of the shots-None test, and predicate coverage per mode-setting route. "
        "Decides these necessary clauses; it does not decide that every valid program runs on every outcome history."
    )
    ctx.rule("C13a", "every path to evolution passes the shots test, _validate_instructions (existence, modes, order) and, with an initial state, _validate_initial_state; instruction._validate and the shots-None refusal dominate each step call; Q and the modes setter validate before storing")
    ctx.rule("C13b", "every class documented under 'Supported ...' is a key of that simulator's _instruction_map; allowed-measurement tuples are keys")
    ctx.rule("C13c", "keys read unconditionally from params/_params/_get_all_params by a step exist for every class registered with it; **instruction.params binds the callee's keywords")
    ctx.rule("C13d", "no interpreted call passes an njit function a list that is empty for some cutoff >= 1")
    ctx.rule("C13e", "steps admitted with shots=None never use shots numerically without a dominating None test; other measurement steps are unreachable with shots=None")
    ctx.rule("C13g", "accumulator protocol for every cutoff >= 1: a constant index written to connector.accumulator(size=cutoff) is below the size, and the start of a connector.range does not exceed its limit (fixed-size tf.TensorArray, tf.range)")
    ctx.rule("C13f", "non-negative, < d and pairwise-distinct modes are established on every route to execution")
    ctx.count("simulators", len(reg.simulators))
    ctx.require_floor("simulator classes with _instruction_map", len(reg.simulators), 6)
    ctx.require_floor("concrete Instruction subclasses", len(reg.concrete_instructions()), 40)

    clause_a(ctx, idx)
    clause_b(ctx, idx, reg)
    clause_c(ctx, idx, reg)
    clause_d(ctx, idx, reg)
    shotsmod.check_shots_none(ctx, idx, reg, "C13e")
    clause_f(ctx, idx, reg)
    clause_g(ctx, idx)
    ctx.rule("C13h", "the number of modes inferred from a program is an aggregate over all modes of every instruction (never one element of a "
                     "mode tuple standing for its largest): valid programs that list their modes in any order are not refused")
    clause_h(ctx, idx)
    ctx.rule("C13i", "GaussianTransform is validated against both Bogoliubov conditions (P P^dagger - A A^dagger = I and P A^T = A P^T), either through "
                     "is_symplectic on the assembled [[P, A], [conj A, conj P]] or through both block identities (matrix-word algebra)")
    clause_i(ctx, idx)


# ================================================================================================ (a)


def _calls_self(node: cfgmod.Node, name: str) -> bool:
    return any(isinstance(c, ast.Call) and self_attr(c.func, ("self", "cls", "Simulator")) == name for c in cfgmod.own_nodes(node))


def _nodes_calling(g: cfgmod.CFG, name: str) -> List[cfgmod.Node]:
    return [n for n in g.nodes if n.stmt is not None and _calls_self(n, name)]


def _require_dominates(ctx, g, fn, what_name: str, target_nodes, rule="C13a", label=None):
    key = f"{fn.qualname}|{label or what_name}-dominates"
    if not target_nodes:
        raise AnalysisError(f"{rule}: anchor vanished: no target call in {fn.qualname}")
    bad = None
    for t in target_nodes:
        r = g.reach([cfgmod.ENTRY], blocked=lambda n: _calls_self(n, what_name))
        if t.id in r:
            bad = (t, g.path_to(t.id))
            break
    ctx.obligation(rule, key, bad is None, f"{ctx.relpath(fn.file)}:{fn.line}")
    if bad is not None:
        ctx.violation(rule, key, fn.file, bad[0].line,
                      f"a path reaches `{bad[0].label()}` without passing through self.{what_name}(...)",
                      f"self.{what_name}(...)", path=bad[1])


def clause_a(ctx: Context, idx) -> None:
    sim = idx.find_class(SIM, "Simulator")
    ex = sim.methods.get("execute_instructions")
    if ex is None:
        raise AnalysisError("anchor vanished: Simulator.execute_instructions")
    g = cfgmod.build(ex.node)
    targets = _nodes_calling(g, "_do_execute_instructions")
    _require_dominates(ctx, g, ex, "_validate_instructions", targets)

    # ---- the shots test --------------------------------------------------------------------------
    shots_param = "shots"
    if shots_param not in ex.all_params():
        raise AnalysisError("anchor vanished: parameter `shots` of execute_instructions")
    derived = {shots_param}
    changed = True
    while changed:
        changed = False
        for n in walk_no_nested(ex.node):
            if isinstance(n, ast.Assign) and len(n.targets) == 1 and isinstance(n.targets[0], ast.Name):
                if names_in(n.value) & derived and n.targets[0].id not in derived:
                    derived.add(n.targets[0].id)
                    changed = True
    facts = {"isinstance_int": False, "positive": False, "none_allowed": False}
    exprs: List[ast.AST] = []
    for n in walk_no_nested(ex.node):
        if isinstance(n, (ast.Assign, ast.If)):
            exprs.append(n.value if isinstance(n, ast.Assign) else n.test)
    for e in exprs:
        for n in ast.walk(e):
            if isinstance(n, ast.Call) and dotted(n.func) == "isinstance" and len(n.args) == 2 and norm(n.args[0]) == shots_param:
                t = n.args[1]
                names = {x.id for x in ast.walk(t) if isinstance(x, ast.Name)}
                if names and names <= {"int", "Integral", "numbers"}:
                    facts["isinstance_int"] = True
            if isinstance(n, ast.Compare) and len(n.ops) == 1:
                l, o, r = norm(n.left), n.ops[0], norm(n.comparators[0])
                if (l == shots_param and isinstance(o, ast.Gt) and r == "0") or (l == shots_param and isinstance(o, ast.GtE) and r == "1") \
                        or (r == shots_param and isinstance(o, ast.Lt) and l == "0") or (r == shots_param and isinstance(o, ast.LtE) and l == "1"):
                    facts["positive"] = True
                if l == shots_param and isinstance(o, (ast.Is, ast.IsNot)) and r == "None":
                    facts["none_allowed"] = True
    # the raise guarded by a shots-derived test must dominate evolution
    guard_nodes = []
    for n in g.nodes:
        if n.kind == "test" and isinstance(n.stmt, ast.If) and names_in(n.stmt.test) & derived \
                and any(isinstance(b, ast.Raise) for b in n.stmt.body):
            guard_nodes.append(n)
    key = f"{ex.qualname}|shots-test-dominates"
    ok = bool(guard_nodes) and all(
        t.id not in g.reach([cfgmod.ENTRY], blocked=lambda n: n in guard_nodes) for t in targets
    )
    ctx.obligation("C13a", key, ok and all(facts.values()), f"{ctx.relpath(ex.file)}:{ex.line}", facts=facts)
    if not ok:
        ctx.violation("C13a", key, ex.file, ex.line,
                      "evolution is reachable without passing a raise-guard on `shots`", "if not <shots is a positive int> and shots is not None: raise")
    else:
        for f, v in facts.items():
            if not v:
                msg = {"isinstance_int": "the shots test does not require an integer (isinstance(shots, int))",
                       "positive": "the shots test does not require shots > 0",
                       "none_allowed": "the shots test does not mention None (shots=None must stay admissible and nothing else non-integer)"}[f]
                ctx.violation("C13a", f"{ex.qualname}|shots-test|{f}", ex.file, guard_nodes[0].line, msg, norm(guard_nodes[0].stmt.test))
    # the guard must raise exactly when the derived predicate fails: polarity check on the recognised idiom
    for gn in guard_nodes:
        gs = flatten_guard(gn.stmt.test, True)
        for gexpr, pol in gs:
            if isinstance(gexpr, ast.Name) and gexpr.id in derived and gexpr.id != shots_param and pol:
                ctx.violation("C13a", f"{ex.qualname}|shots-test|polarity", ex.file, gn.line,
                              "the shots guard raises when the positivity predicate holds", norm(gn.stmt.test))

    # ---- initial state: every use other than the None test is dominated by _validate_initial_state --------
    if "initial_state" in ex.all_params():
        uses = []
        for n in g.nodes:
            if n.stmt is None or n.kind in ("test",):
                continue
            for x in cfgmod.own_nodes(n):
                if isinstance(x, ast.Name) and x.id == "initial_state" and isinstance(x.ctx, ast.Load):
                    if not _calls_self(n, "_validate_initial_state"):
                        uses.append(n)
                    break
        if not uses:
            raise AnalysisError("C13a: anchor vanished: no use of initial_state in execute_instructions")
        _require_dominates(ctx, g, ex, "_validate_initial_state", uses)

    # ---- the validator fans out --------------------------------------------------------------------------
    for owner, callees in (
        ("_validate_instructions", ["_validate_instruction_existence", "_validate_instruction_modes", "_validate_instruction_order"]),
        ("_validate_instruction_order", ["_validate_preparations_at_beginning", "_validate_measurements_at_end"]),
        ("validate", ["_validate_instructions"]),
    ):
        fn = sim.methods.get(owner)
        if fn is None:
            raise AnalysisError(f"anchor vanished: Simulator.{owner}")
        gg = cfgmod.build(fn.node)
        for cal in callees:
            key = f"{fn.qualname}|calls-{cal}-on-every-path"
            miss = gg.must_pass_before_exit(cfgmod.ENTRY, lambda n, cal=cal: _calls_self(n, cal), exits=(cfgmod.EXIT,))
            ctx.obligation("C13a", key, not miss, f"{ctx.relpath(fn.file)}:{fn.line}")
            if miss:
                ctx.violation("C13a", key, fn.file, fn.line, f"{owner} can return without calling {cal}", f"self.{cal}(...)", path=miss[0][1])
    # each leaf validator really raises (not an empty stub)
    for leaf in ("_validate_instruction_modes", "_validate_preparations_at_beginning", "_validate_measurements_at_end",
                 "_validate_initial_state", "_get_simulation_step"):
        fn = sim.methods.get(leaf)
        if fn is None:
            raise AnalysisError(f"anchor vanished: Simulator.{leaf}")
        has_raise = any(isinstance(n, ast.Raise) for n in ast.walk(fn.node))
        key = f"{fn.qualname}|raises"
        ctx.obligation("C13a", key, has_raise)
        if not has_raise:
            ctx.violation("C13a", key, fn.file, fn.line, f"{leaf} never raises: the rule it enforces is not checked", "raise ...")
    _check_leaf_predicates(ctx, sim)

    # ---- _apply_instruction_to_branches ----------------------------------------------------------------------
    ap = sim.methods.get("_apply_instruction_to_branches")
    if ap is None:
        raise AnalysisError("anchor vanished: Simulator._apply_instruction_to_branches")
    ga = cfgmod.build(ap.node)
    step_vars = set()
    for n in walk_no_nested(ap.node):
        if isinstance(n, ast.Assign) and isinstance(n.value, ast.Call) and self_attr(n.value.func) == "_get_simulation_step":
            for t in n.targets:
                if isinstance(t, ast.Name):
                    step_vars.add(t.id)
    step_calls = [n for n in ga.nodes if n.stmt is not None and any(
        isinstance(c, ast.Call) and isinstance(c.func, ast.Name) and c.func.id in step_vars for c in cfgmod.own_nodes(n))]
    if not step_calls:
        raise AnalysisError("C13a: anchor vanished: the simulation-step call in _apply_instruction_to_branches")
    # shots-None refusal
    none_guards = [n for n in ga.nodes if n.kind == "test" and isinstance(n.stmt, ast.If)
                   and any(isinstance(b, ast.Raise) for b in n.stmt.body)
                   and "shots is None" in norm(n.stmt.test) and "_measurement_classes_allowed_with_shots_none" in norm(n.stmt.test)]
    key = f"{ap.qualname}|shots-none-refusal-dominates-step"
    ok = bool(none_guards) and all(s.id not in ga.reach([cfgmod.ENTRY], blocked=lambda n: n in none_guards) for s in step_calls)
    if ok:
        t = none_guards[0].stmt.test
        gs = flatten_guard(t, True)
        want = {"isinstance(instruction, Measurement)": True, "shots is None": True}
        got = {norm(e): p for e, p in gs}
        ok = all(got.get(k) == v for k, v in want.items()) and any(
            (not p) and "isinstance(instruction" in norm(e) and "_measurement_classes_allowed_with_shots_none" in norm(e) for e, p in gs)
    ctx.obligation("C13a", key, ok, f"{ctx.relpath(ap.file)}:{ap.line}")
    if not ok:
        ctx.violation("C13a", key, ap.file, ap.line,
                      "a measurement step can be called with shots=None without the refusal for classes outside "
                      "_measurement_classes_allowed_with_shots_none", "if isinstance(instruction, Measurement) and shots is None and not isinstance(instruction, allowed): raise")
    # instruction._validate dominates the step when config.validate is on
    def is_validate_call(n):
        return any(isinstance(c, ast.Call) and isinstance(c.func, ast.Attribute) and c.func.attr == "_validate"
                   and isinstance(c.func.value, ast.Name) and c.func.value.id == "instruction" for c in cfgmod.own_nodes(n))

    def validate_off_edge(node, label):
        if node.kind == "test" and isinstance(node.stmt, ast.If) and norm(node.stmt.test).endswith("config.validate") and label == "false":
            return False
        return True

    key = f"{ap.qualname}|instruction-validate-dominates-step"
    r = _reach_with_edge_filter(ga, [cfgmod.ENTRY], is_validate_call, validate_off_edge)
    bad = [s for s in step_calls if s.id in r]
    ctx.obligation("C13a", key, not bad, f"{ctx.relpath(ap.file)}:{ap.line}")
    if bad:
        ctx.violation("C13a", key, ap.file, bad[0].line,
                      "with config.validate on, the simulation step can run before instruction._validate(connector)",
                      "instruction._validate(self._connector)")

    # ---- Q.__init__ and the modes setter -------------------------------------------------------------------------
    q = idx.find_class("piquasso.api.mode", "Q")
    qi = q.methods.get("__init__")
    if qi is None:
        raise AnalysisError("anchor vanished: Q.__init__")
    gq = cfgmod.build(qi.node)
    stores = [n for n in gq.nodes if n.stmt is not None and any(
        isinstance(x, ast.Attribute) and isinstance(x.ctx, ast.Store) and x.attr == "modes" for x in cfgmod.own_nodes(n))]
    if not stores:
        raise AnalysisError("anchor vanished: store to self.modes in Q.__init__")
    preds = _route_predicates(idx, qi)
    for p in ("nonneg", "distinct"):
        key = f"{qi.qualname}|{p}-before-store"
        guards = [n for n in gq.nodes if n.kind == "test" and isinstance(n.stmt, ast.If) and p in _test_predicates(idx, qi, n.stmt)]
        ok = bool(guards) and all(s.id not in gq.reach([cfgmod.ENTRY], blocked=lambda n: n in guards) for s in stores)
        ctx.obligation("C13a", key, ok, f"{ctx.relpath(qi.file)}:{qi.line}")
        if not ok:
            ctx.violation("C13a", key, qi.file, qi.line, f"Q(...) stores its modes without the `{p}` test on every path", f"{p} test before self.modes = ...")
    instr = idx.find_class("piquasso.api.instruction", "Instruction")
    setter = instr.methods.get("modes.setter")
    if setter is None:
        raise AnalysisError("anchor vanished: Instruction.modes setter")
    gs_ = cfgmod.build(setter.node)
    st = [n for n in gs_.nodes if n.stmt is not None and any(
        isinstance(x, ast.Attribute) and isinstance(x.ctx, ast.Store) and x.attr == "_modes" for x in cfgmod.own_nodes(n))]
    if not st:
        raise AnalysisError("anchor vanished: store to self._modes in the modes setter")
    _require_dominates(ctx, gs_, setter, "_validate_modes", st)
    vm = instr.methods.get("_validate_modes")
    if vm is None:
        raise AnalysisError("anchor vanished: Instruction._validate_modes")
    txt = norm(vm.node)
    ok = any(isinstance(n, ast.Raise) for n in ast.walk(vm.node)) and "NUMBER_OF_MODES" in txt and "len(" in txt
    ctx.obligation("C13a", f"{vm.qualname}|compares-count", ok)
    if not ok:
        ctx.violation("C13a", f"{vm.qualname}|compares-count", vm.file, vm.line,
                      "_validate_modes does not compare len(modes) with NUMBER_OF_MODES and raise", "len(modes) != self.NUMBER_OF_MODES")
    else:
        for n in ast.walk(vm.node):
            if isinstance(n, ast.Compare) and "NUMBER_OF_MODES" in norm(n) and "len(" in norm(n):
                if not isinstance(n.ops[0], ast.NotEq):
                    ctx.violation("C13a", f"{vm.qualname}|compares-count|op", vm.file, n.lineno,
                                  f"mode count is tested with `{norm(n)}`; the documented rule is exactly NUMBER_OF_MODES modes", norm(n))


def _reach_with_edge_filter(g: cfgmod.CFG, starts, blocked, edge_ok):
    seen = set(starts)
    stack = list(starts)
    while stack:
        nid = stack.pop()
        node = g.nodes[nid]
        for (m, label) in g.succ[nid]:
            if not edge_ok(node, label):
                continue
            if m not in (cfgmod.EXIT, cfgmod.RAISE) and blocked(g.nodes[m]):
                continue
            if m not in seen:
                seen.add(m)
                stack.append(m)
    return seen


def _check_leaf_predicates(ctx, sim) -> None:
    """The content of the leaf validators, as far as the property names it."""
    fn = sim.methods["_validate_instruction_modes"]
    preds = set()
    for n in ast.walk(fn.node):
        if isinstance(n, ast.If) and any(isinstance(b, ast.Raise) for b in ast.walk(n)):
            preds |= _compare_predicates(n.test)
    for p, msg in (("nonneg", "mode < 0"), ("lt_d", "mode >= d")):
        key = f"{fn.qualname}|tests-{p}"
        ctx.obligation("C13a", key, p in preds)
        if p not in preds:
            ctx.violation("C13a", key, fn.file, fn.line, f"_validate_instruction_modes does not reject `{msg}`", msg)
    # the loop must not skip instructions other than those without modes
    for n in ast.walk(fn.node):
        if isinstance(n, ast.Continue):
            pass
    fn = sim.methods["_validate_preparations_at_beginning"]
    # closed-world rule: the property refuses a preparation after *any other kind* of instruction, so the condition that
    # arms the refusal must be the complement of isinstance(., Preparation); testing other classes positively (Gate, ...)
    # lets the kinds that are not enumerated (measurements, channels, batch instructions) slip through
    tested = []
    for n in ast.walk(fn.node):
        if isinstance(n, ast.Call) and dotted(n.func) == "isinstance" and len(n.args) == 2:
            t = n.args[1]
            tested.extend(norm(e) for e in (t.elts if isinstance(t, ast.Tuple) else [t]))
    others = sorted({t for t in tested if t != "Preparation"})
    key = f"{fn.qualname}|refusal armed by the complement of Preparation"
    if "Preparation" not in tested:
        raise AnalysisError("C13a: _validate_preparations_at_beginning does not test isinstance(., Preparation) (shape unreadable, undecided)")
    ctx.obligation("C13a", key, not others, tested=sorted(set(tested)))
    if others:
        ctx.violation("C13a", key, fn.file, fn.line,
                      f"the preparations-first rule is armed by positive tests on {others}: an instruction that is neither a Preparation "
                      f"nor one of those classes (e.g. a mid-circuit Measurement) can precede a Preparation without being refused",
                      "not isinstance(previous_instruction, Preparation)")
    fn = sim.methods["_validate_measurements_at_end"]
    # structural (the loop variables may be called anything): an isinstance(., Measurement) test, a comparison of the position with
    # len(<instructions>) - 1, and an isinstance(., self._measurement_classes_allowed_mid_circuit) test
    lst = fn.params()[1] if len(fn.params()) > 1 else "instructions"
    has = {"isinstance(., Measurement)": False, "position != len(instructions) - 1": False, "_measurement_classes_allowed_mid_circuit": False}
    for n in ast.walk(fn.node):
        if isinstance(n, ast.Call) and dotted(n.func) == "isinstance" and len(n.args) == 2:
            if norm(n.args[1]).split(".")[-1] == "Measurement":
                has["isinstance(., Measurement)"] = True
            if norm(n.args[1]).endswith("_measurement_classes_allowed_mid_circuit"):
                has["_measurement_classes_allowed_mid_circuit"] = True
        if isinstance(n, ast.Compare) and any(norm(x) == f"len({lst}) - 1" for x in [n.left] + list(n.comparators)):
            has["position != len(instructions) - 1"] = True
    miss = [k for k, v in has.items() if not v]
    ctx.obligation("C13a", f"{fn.qualname}|tests-mid-circuit", not miss)
    if miss:
        ctx.violation("C13a", f"{fn.qualname}|tests-mid-circuit", fn.file, fn.line,
                      f"_validate_measurements_at_end no longer tests {miss}", "; ".join(miss))
    fn = sim.methods["_validate_initial_state"]
    ps_ = fn.params()
    st_p, d_p = (ps_[1], ps_[2]) if len(ps_) >= 3 else ("initial_state", "d")
    txt = norm(fn.node)
    need = [f"isinstance({st_p}, self._state_class)", f"{st_p}.d != {d_p}"]
    miss = [t for t in need if t not in txt]
    ctx.obligation("C13a", f"{fn.qualname}|tests-type-and-d", not miss)
    if miss:
        ctx.violation("C13a", f"{fn.qualname}|tests-type-and-d", fn.file, fn.line,
                      f"_validate_initial_state no longer tests {miss}", "; ".join(miss))
    fn = sim.methods["_get_simulation_step"]
    txt = norm(fn.node)
    ok = "type(instruction) is instruction_class" in txt or "type(instruction) == instruction_class" in txt or "self._instruction_map[type(instruction)]" in txt \
        or "self._instruction_map.get(type(instruction)" in txt
    ctx.obligation("C13a", f"{fn.qualname}|exact-class-lookup", ok)
    if not ok:
        ctx.violation("C13a", f"{fn.qualname}|exact-class-lookup", fn.file, fn.line,
                      "_get_simulation_step does not look the instruction up by its exact class (subclasses of supported "
                      "instructions would be dispatched to steps that were not written for them, or supported ones refused)",
                      "type(instruction) is instruction_class")


# ------------------------------------------------------------------------------------------------- predicates


def _compare_predicates(test: ast.AST) -> Set[str]:
    out = set()
    for n in ast.walk(test):
        if isinstance(n, ast.Compare) and len(n.ops) == 1:
            l, o, r = n.left, n.ops[0], n.comparators[0]
            if isinstance(o, ast.Lt) and isinstance(r, ast.Constant) and r.value == 0:
                out.add("nonneg")
            if isinstance(o, ast.Gt) and isinstance(l, ast.Constant) and l.value == 0:
                out.add("nonneg")
            if isinstance(o, ast.GtE) and isinstance(r, ast.Name) and r.id in ("d", "number_of_modes"):
                out.add("lt_d")
            if isinstance(o, ast.Gt) and norm(r) in ("d - 1",):
                out.add("lt_d")
            if isinstance(o, ast.LtE) and isinstance(l, ast.Name) and l.id == "d":
                out.add("lt_d")
            # len(x) != len(set(x))
            txt = norm(n)
            if "len(set(" in txt and "len(" in txt.replace("len(set(", "", 1) and isinstance(o, (ast.NotEq, ast.Eq, ast.Lt, ast.Gt)):
                out.add("distinct")
    return out


def _establishes_distinct(idx, owner: FuncInfo, call: ast.Call) -> bool:
    """A helper whose returned value is `len(x) == len(set(x))`."""
    f = call.func
    target = None
    if isinstance(f, ast.Attribute) and isinstance(f.value, ast.Name) and f.value.id in ("self", "cls") and owner.cls:
        target = owner.cls.find_method(f.attr)
    elif isinstance(f, ast.Attribute):
        r = idx.resolve_expr(owner.module, f)
        target = r if isinstance(r, FuncInfo) else None
    elif isinstance(f, ast.Name):
        r = idx.resolve_name(owner.module, f.id)
        target = r if isinstance(r, FuncInfo) else None
    if target is None:
        return False
    for n in ast.walk(target.node):
        if isinstance(n, ast.Return) and n.value is not None and "distinct" in _compare_predicates(n.value):
            return True
    return False


def _test_predicates(idx, owner: FuncInfo, if_node: ast.If) -> Set[str]:
    """Predicates an `if …: raise` establishes for the code after it."""
    if not any(isinstance(b, ast.Raise) for b in if_node.body):
        return set()
    out = _compare_predicates(if_node.test)
    for n in ast.walk(if_node.test):
        if isinstance(n, ast.Call) and _establishes_distinct(idx, owner, n):
            out.add("distinct")
    return out


def _route_predicates(idx, fn: FuncInfo) -> Set[str]:
    out: Set[str] = set()
    for n in ast.walk(fn.node):
        if isinstance(n, ast.If):
            out |= _test_predicates(idx, fn, n)
    return out


# ================================================================================================ (b)


def clause_b(ctx: Context, idx, reg) -> None:
    n_doc = 0
    for s in reg.simulators:
        keys = {e.instr for e in s.entries}
        for section, items in s.documented.items():
            for path, name in items:
                n_doc += 1
                mod, _, cls = path.rpartition(".")
                target = None
                if mod in idx.modules and cls in idx.modules[mod].classes:
                    target = idx.modules[mod].classes[cls]
                else:
                    r = idx.resolve_name(idx.module("piquasso"), name)
                    if isinstance(r, ClassInfo):
                        target = r
                key = f"{s.name}|documented-{section}|{name}"
                if target is None:
                    ctx.violation("C13b", key, s.cls.file, s.cls.node.lineno,
                                  f"{s.cls.name} documents support for `{path}`, which does not exist", path)
                    continue
                ok = target in keys
                ctx.instance("C13b", key, "ok" if ok else "VIOLATION", f"{ctx.relpath(s.cls.file)}:{s.cls.node.lineno}")
                if not ok:
                    ctx.violation("C13b", key, s.cls.file, s.cls.node.lineno,
                                  f"{s.cls.name} documents `{name}` under 'Supported {section}' but its _instruction_map has no "
                                  f"entry for it: a program within documented support is refused with InvalidSimulation",
                                  f":class:`~{path}`")
        for attr, lst in (("_measurement_classes_allowed_mid_circuit", s.allowed_mid_circuit),
                          ("_measurement_classes_allowed_with_shots_none", s.allowed_shots_none)):
            for c in lst:
                key = f"{s.name}|{attr}|{c.name}"
                ok = c in keys
                ctx.instance("C13b", key, "ok" if ok else "VIOLATION")
                if not ok:
                    ctx.violation("C13b", key, s.cls.file, s.cls.node.lineno,
                                  f"{c.name} is listed in {attr} but is not a key of the dispatch table", c.name)
    ctx.require_floor("documented-support entries", n_doc, 100)


# ================================================================================================ (c)


class ParamReads:
    """Keys read from the instruction's parameter dicts in a function, following the instruction object
    (and aliases of its params dict) through calls."""

    def __init__(self, idx, res):
        self.idx = idx
        self.res = res
        self.memo: Dict[Tuple[int, str], list] = {}

    def reads(self, fn: FuncInfo, ivar: str, depth: int = 0) -> list:
        """→ list of (key, kind in {'params','all'}, conditional, file, line, via)"""
        k = (id(fn.node), ivar)
        if k in self.memo:
            return self.memo[k]
        self.memo[k] = []
        out = []
        aliases: Dict[str, str] = {}  # local name → kind, for `p = instruction.params`

        def kind_of(e: ast.AST) -> Optional[str]:
            if isinstance(e, ast.Attribute) and isinstance(e.value, ast.Name) and e.value.id == ivar and e.attr in ("params", "_params"):
                return "params"
            if isinstance(e, ast.Call) and isinstance(e.func, ast.Attribute) and isinstance(e.func.value, ast.Name) \
                    and e.func.value.id == ivar and e.func.attr == "_get_all_params":
                return "all"
            if isinstance(e, ast.Name) and e.id in aliases:
                return aliases[e.id]
            return None

        for n in walk_no_nested(fn.node):
            if isinstance(n, ast.Assign) and len(n.targets) == 1 and isinstance(n.targets[0], ast.Name):
                kd = kind_of(n.value)
                if kd:
                    aliases[n.targets[0].id] = kd
        body = fn.node.body
        for s, guards in guarded_statements(body):
            conditional = any(self._mentions(g, ivar, aliases) for g, _ in guards)
            roots = list(cfgmod._walk_own(s))
            for n in roots:
                if isinstance(n, ast.Subscript) and isinstance(n.ctx, ast.Load):
                    kd = kind_of(n.value)
                    if kd and isinstance(n.slice, ast.Constant) and isinstance(n.slice.value, str):
                        cond = conditional or self._under_ifexp(s, n, ivar, aliases)
                        out.append((n.slice.value, kd, cond, fn.file, n.lineno, fn.qualname))
                if isinstance(n, ast.Call):
                    # ** expansion binds callee keywords
                    for kw in n.keywords:
                        if kw.arg is None and kind_of(kw.value):
                            for t in self.res.resolve_call(fn, n):
                                a = t.node.args
                                if a.kwarg is None:
                                    names = [x.arg for x in a.posonlyargs + a.args + a.kwonlyargs]
                                    out.append(("**", kind_of(kw.value), conditional, fn.file, n.lineno, (t.qualname, tuple(names))))
                    # the instruction object passed on
                    for t in self.res.resolve_call(fn, n):
                        if depth > 6:
                            continue
                        tparams = t.params()
                        off = 1 if (t.cls is not None and tparams and tparams[0] in ("self", "cls")
                                    and not any(d == "staticmethod" for d in t.decorators)) else 0
                        for i, a in enumerate(n.args):
                            if isinstance(a, ast.Name) and a.id == ivar and i + off < len(tparams):
                                for r in self.reads(t, tparams[i + off], depth + 1):
                                    out.append((r[0], r[1], r[2] or conditional, r[3], r[4], r[5]))
                        for kw in n.keywords:
                            if kw.arg and isinstance(kw.value, ast.Name) and kw.value.id == ivar and kw.arg in t.all_params():
                                for r in self.reads(t, kw.arg, depth + 1):
                                    out.append((r[0], r[1], r[2] or conditional, r[3], r[4], r[5]))
        self.memo[k] = out
        return out

    @staticmethod
    def _mentions(g: ast.AST, ivar: str, aliases) -> bool:
        for n in ast.walk(g):
            if isinstance(n, ast.Name) and (n.id == ivar or n.id in aliases):
                # `if instruction.modes:` style guards do not select parameter sets; only membership / isinstance / get
                return True
        return False

    @staticmethod
    def _under_ifexp(stmt, node, ivar, aliases) -> bool:
        for n in ast.walk(stmt):
            if isinstance(n, ast.IfExp) and any(x is node for x in ast.walk(n)) and ParamReads._mentions(n.test, ivar, aliases):
                return True
        return False


def _step_ivar(step: FuncInfo) -> Optional[str]:
    ps = step.params()
    return ps[1] if len(ps) >= 2 else None


def clause_c(ctx: Context, idx, reg) -> None:
    res = get_resolver(idx)
    pr = ParamReads(idx, res)
    n_pairs = 0
    n_reads = 0
    for s in reg.simulators:
        for e in s.entries:
            steps = [e.step] if e.step is not None else list(e.factory_args.values())
            if e.factory is not None:
                # the factory's inner step receives the same instruction
                for loc in res.local_defs(e.factory).values():
                    if len(loc.params()) >= 2:
                        steps.append(loc)
            info = reg.instruction(e.instr)
            have_params = set(info.all_param_keys())
            have_all = have_params | set(info.computed_keys)
            for step in steps:
                ivar = _step_ivar(step)
                if ivar is None:
                    continue
                n_pairs += 1
                for (key, kind, cond, file, line, via) in pr.reads(step, ivar):
                    if cond:
                        continue
                    n_reads += 1
                    if key == "**":
                        callee, names = via
                        missing = [k for k in (have_params if kind == "params" else have_all) if k not in names]
                        ikey = f"{s.name}|{e.instr.name}|{step.qualname}|**params->{callee}"
                        ctx.instance("C13c", ikey, "ok" if not missing else "VIOLATION", f"{ctx.relpath(file)}:{line}")
                        if missing:
                            ctx.violation("C13c", ikey, file, line,
                                          f"**params of {e.instr.name} passes {missing} which {callee} does not accept (TypeError on a valid program)",
                                          f"**instruction.params -> {callee}({', '.join(names)})")
                        continue
                    have = have_params if kind == "params" else have_all
                    ok = key in have
                    ikey = f"{s.name}|{e.instr.name}|{via}|{key}"
                    ctx.instance("C13c", ikey, "ok" if ok else "VIOLATION", f"{ctx.relpath(file)}:{line}")
                    if not ok:
                        src = "params" if kind == "params" else "_get_all_params()"
                        ctx.violation("C13c", ikey, file, line,
                                      f"{via} reads {src}['{key}'] but {e.instr.name} (registered for it in {s.cls.name}) defines only "
                                      f"{sorted(have)}: KeyError on a program within support", f"['{key}']")
    ctx.require_floor("(simulator, instruction, step) triples", n_pairs, 110)
    ctx.require_floor("unconditional parameter reads checked", n_reads, 60)
    # block methods exist for the classes registered with passive_linear / linear style steps
    for s in reg.simulators:
        for e in s.entries:
            if e.step is None:
                continue
            ivar = _step_ivar(e.step)
            if ivar is None:
                continue
            needed = set()
            for n in ast.walk(e.step.node):
                if isinstance(n, ast.Call) and isinstance(n.func, ast.Attribute) and isinstance(n.func.value, ast.Name) \
                        and n.func.value.id == ivar and n.func.attr.startswith("_get_") and n.func.attr.endswith("_block"):
                    needed.add(n.func.attr)
            for meth in sorted(needed):
                m = e.instr.find_method(meth)
                concrete = m is not None and not any(d.endswith("abstractmethod") for d in m.decorators)
                ikey = f"{s.name}|{e.instr.name}|{e.step.name}|{meth}"
                ctx.instance("C13c", ikey, "ok" if concrete else "VIOLATION")
                if not concrete:
                    ctx.violation("C13c", ikey, s.cls.file, e.line,
                                  f"{e.instr.name} is registered with step {e.step.name}, which calls instruction.{meth}(), but the class does not define it",
                                  f"{e.instr.name}: {e.step.name}")


# ================================================================================================ (d)


def _affine(node: ast.AST) -> Optional[Dict[str, int]]:
    """Affine form over names: {'': const, name: coef}."""
    if isinstance(node, ast.Constant) and isinstance(node.value, int):
        return {"": node.value}
    if isinstance(node, ast.Name):
        return {node.id: 1, "": 0}
    if isinstance(node, ast.BinOp) and isinstance(node.op, (ast.Add, ast.Sub)):
        a, b = _affine(node.left), _affine(node.right)
        if a is None or b is None:
            return None
        sign = 1 if isinstance(node.op, ast.Add) else -1
        out = dict(a)
        for k, v in b.items():
            out[k] = out.get(k, 0) + sign * v
        return out
    if isinstance(node, ast.BinOp) and isinstance(node.op, ast.Mult):
        a, b = _affine(node.left), _affine(node.right)
        if a is None or b is None:
            return None
        if set(a) <= {""}:
            return {k: a[""] * v for k, v in b.items()}
        if set(b) <= {""}:
            return {k: b[""] * v for k, v in a.items()}
        return None
    if isinstance(node, ast.UnaryOp) and isinstance(node.op, ast.USub):
        a = _affine(node.operand)
        return None if a is None else {k: -v for k, v in a.items()}
    if isinstance(node, ast.Call) and dotted(node.func) == "len" and len(node.args) == 1:
        return {f"len({norm(node.args[0])})": 1, "": 0}
    return None


def _list_lengths(fn: FuncInfo) -> Dict[str, Optional[Dict[str, int]]]:
    """For each local initialised as `[]`: its length as an affine form (None = unknown/≥1-unsafe)."""
    out: Dict[str, Optional[Dict[str, int]]] = {}
    body = fn.node.body
    for n in walk_no_nested(fn.node):
        if isinstance(n, ast.Assign) and len(n.targets) == 1 and isinstance(n.targets[0], ast.Name) \
                and isinstance(n.value, ast.List) and not n.value.elts:
            out[n.targets[0].id] = {"": 0}
    if not out:
        return out

    def visit(stmts, mult):
        for s in stmts:
            if isinstance(s, ast.For):
                it = s.iter
                m = None
                if isinstance(it, ast.Call) and dotted(it.func) in ("range", "nb.prange", "prange", "numba.prange"):
                    if len(it.args) == 1:
                        m = _affine(it.args[0])
                    elif len(it.args) == 2:
                        a, b = _affine(it.args[0]), _affine(it.args[1])
                        if a is not None and b is not None:
                            m = dict(b)
                            for k, v in a.items():
                                m[k] = m.get(k, 0) - v
                visit(s.body, ("loop", m, mult))
            elif isinstance(s, (ast.If, ast.While, ast.With, ast.Try)):
                for sub in (getattr(s, "body", []), getattr(s, "orelse", [])):
                    visit(sub, ("cond", None, mult))
            else:
                for c in ast.walk(s):
                    if isinstance(c, ast.Call) and isinstance(c.func, ast.Attribute) and c.func.attr in ("append", "extend", "insert") \
                            and isinstance(c.func.value, ast.Name) and c.func.value.id in out:
                        name = c.func.value.id
                        if mult is None:
                            out[name] = {"": 1} if out[name] == {"": 0} else None  # at least one element
                            if out[name] is None:
                                out[name] = {"": 1}
                        elif mult[0] == "loop" and mult[2] is None and mult[1] is not None and out[name] == {"": 0}:
                            out[name] = mult[1]
                        elif out[name] is not None and out[name].get("", 0) >= 1 and len(out[name]) == 1:
                            pass  # already non-empty
                        else:
                            out[name] = None if out[name] == {"": 0} or out[name] is None else out[name]
    visit(body, None)
    return out


def _min_value(aff: Dict[str, int]) -> Optional[int]:
    """Minimum over integer parameters >= 1 (None = unbounded below / not a plain parameter form)."""
    total = aff.get("", 0)
    for k, v in aff.items():
        if k == "":
            continue
        if k.startswith("len("):
            if v < 0:
                return None
            continue  # len >= 0
        if v < 0:
            return None
        total += v
    return total


def _callers_map(idx, res) -> Dict[int, List[Tuple[FuncInfo, ast.Call]]]:
    out: Dict[int, List[Tuple[FuncInfo, ast.Call]]] = {}
    for fn in list(idx.all_functions()):
        for sc in [fn] + list(res.local_defs(fn).values()):
            for call in [c for c in walk_no_nested(sc.node) if isinstance(c, ast.Call)]:
                for t in res.resolve_call(sc, call):
                    out.setdefault(id(t.node), []).append((sc, call))
    return out


def _generators_of(res, callers, sc: FuncInfo, name: str, depth: int = 0) -> List[Tuple[FuncInfo, FuncInfo, ast.Call]]:
    """Functions whose return value may be bound to `name` in `sc`: [(generator, where-bound, call)].
    Follows a local `name = g(...)` assignment, or, when `name` is a parameter, the actual arguments at the
    call sites of `sc` (bounded depth)."""
    out = []
    for n in walk_no_nested(sc.node):
        if isinstance(n, ast.Assign) and len(n.targets) == 1 and isinstance(n.targets[0], ast.Name) \
                and n.targets[0].id == name and isinstance(n.value, ast.Call):
            for g in res.resolve_call(sc, n.value):
                out.append((g, sc, n.value))
    if out or depth >= 3:
        return out
    params = sc.params()
    if name in params:
        i = params.index(name)
        off = 1 if (sc.cls is not None and params and params[0] in ("self", "cls")) else 0
        for (caller, call) in callers.get(id(sc.node), []):
            actual = None
            if i - off < len(call.args) and i - off >= 0:
                actual = call.args[i - off]
            for kw in call.keywords:
                if kw.arg == name:
                    actual = kw.value
            if isinstance(actual, ast.Name):
                out.extend(_generators_of(res, callers, caller, actual.id, depth + 1))
    return out


def clause_d(ctx: Context, idx, reg) -> None:
    res = get_resolver(idx)
    njit_funcs = {id(f.node): f for f in idx.all_functions() if is_njit(f)}
    ctx.require_floor("njit functions", len(njit_funcs), 40)
    callers = _callers_map(idx, res)
    n_sites = 0
    n_list_args = 0
    for fn in list(idx.all_functions()):
        scopes = [fn] + list(res.local_defs(fn).values())
        for sc in scopes:
            if is_njit(sc) or (sc is not fn and is_njit(fn)):
                continue
            for call in [c for c in walk_no_nested(sc.node) if isinstance(c, ast.Call)]:
                targets = [t for t in res.resolve_call(sc, call) if id(t.node) in njit_funcs]
                if not targets:
                    continue
                n_sites += 1
                for arg in list(call.args) + [k.value for k in call.keywords]:
                    if not isinstance(arg, ast.Name):
                        continue
                    seen_gen = set()
                    for (gfn, where, _origin) in _generators_of(res, callers, sc, arg.id):
                        if id(gfn.node) in seen_gen:
                            continue
                        seen_gen.add(id(gfn.node))
                        lens = _list_lengths(gfn)
                        if not lens:
                            continue
                        returned: List[str] = []
                        for r in walk_no_nested(gfn.node):
                            if isinstance(r, ast.Return) and r.value is not None:
                                elts = r.value.elts if isinstance(r.value, ast.Tuple) else [r.value]
                                for e in elts:
                                    if isinstance(e, ast.Name) and e.id in lens:
                                        returned.append(e.id)
                        empties = []
                        for name in returned:
                            n_list_args += 1
                            aff = lens[name]
                            if aff is None:
                                continue
                            mn = _min_value(aff)
                            if mn is None or mn <= 0:
                                empties.append((name, aff, mn))
                        if not returned:
                            continue
                        ikey = f"{sc.qualname}|{targets[0].qualname}|{arg.id}<-{gfn.name}"
                        guarded = bool(empties) and _len_guarded(sc, call, arg.id)
                        verdict = "ok" if not empties else ("guarded" if guarded else "VIOLATION")
                        ctx.instance("C13d", ikey, verdict, f"{ctx.relpath(sc.file)}:{call.lineno}",
                                     lists={n: (_fmt(lens[n]) if lens[n] is not None else "unknown") for n in returned},
                                     bound_in=where.qualname)
                        if empties and not guarded:
                            name, aff, mn = empties[0]
                            ctx.violation(
                                "C13d", ikey, sc.file, call.lineno,
                                f"`{arg.id}` carries {len(empties)} list(s) built in {gfn.name} (e.g. `{name}`) of length {_fmt(aff)}, which is 0 for "
                                f"an admissible cutoff >= 1; it is passed from interpreted code to the njit function "
                                f"{targets[0].name} without a dominating emptiness test, and numba cannot type an empty reflected "
                                f"list (ValueError on a valid program)",
                                norm(call)[:100])
    ctx.count("njit call sites from interpreted code", n_sites)
    ctx.require_floor("list-valued arguments crossing the njit boundary", n_list_args, 5)
    ctx.assume("integer parameters of list-generating functions (d, cutoff) range over all integers >= 1")


def _fmt(aff: Dict[str, int]) -> str:
    parts = []
    for k, v in aff.items():
        if k == "" or v == 0:
            continue
        parts.append(f"{'' if v == 1 else v}{'*' if v != 1 else ''}{k}")
    c = aff.get("", 0)
    if c or not parts:
        parts.append(str(c))
    return " + ".join(parts).replace("+ -", "- ")


def _len_guarded(sc: FuncInfo, call: ast.Call, argname: str) -> bool:
    """The njit call is dominated by an exiting test on len(<arg>…)."""
    g = cfgmod.build(sc.node)
    target = [n for n in g.nodes if n.stmt is not None and any(x is call for x in cfgmod.own_nodes(n))]
    if not target:
        return False

    def is_len_guard(n):
        if n.kind != "test" or not isinstance(n.stmt, ast.If):
            return False
        t = n.stmt.test
        return any(isinstance(c, ast.Call) and dotted(c.func) == "len" and c.args and argname in names_in(c.args[0]) for c in ast.walk(t))

    guards = [n for n in g.nodes if is_len_guard(n)]
    if not guards:
        return False
    # the call must be unreachable through the guard's branch on which the list is empty; accept when the
    # guard dominates the call and one of its branches leaves the function without reaching the call
    for gn in guards:
        if target[0].id in g.reach([cfgmod.ENTRY], blocked=lambda n: n is gn):
            continue
        for (m, label) in g.succ[gn.id]:
            if label in ("true", "false"):
                r = g.reach([m]) if m not in (cfgmod.EXIT, cfgmod.RAISE) else {}
                if m in (cfgmod.EXIT, cfgmod.RAISE) or target[0].id not in r:
                    return True
    return False


# ================================================================================================ (f)


def clause_f(ctx: Context, idx, reg) -> None:
    sim = idx.find_class(SIM, "Simulator")
    choke = sim.methods["_validate_instruction_modes"]
    choke_preds = set()
    for n in ast.walk(choke.node):
        if isinstance(n, ast.If):
            choke_preds |= _test_predicates(idx, choke, n)
    # routes: every function in the package that stores `.modes`/`._modes` on an instruction-like object
    instr = idx.find_class("piquasso.api.instruction", "Instruction")
    routes: Dict[str, Tuple[FuncInfo, Set[str], int]] = {}
    for fn in idx.all_functions():
        for n in walk_no_nested(fn.node):
            if isinstance(n, ast.Attribute) and isinstance(n.ctx, ast.Store) and n.attr in ("modes", "_modes"):
                if fn.cls is not None and fn.cls.name == "Q":
                    continue
                recv = n.value
                is_instr_recv = (isinstance(recv, ast.Name) and recv.id == "self" and fn.cls is not None and fn.cls.is_subclass_of(instr)) \
                    or (isinstance(recv, ast.Name) and "instruction" in recv.id.lower())
                if not is_instr_recv:
                    continue
                if fn.cls is not None and fn.cls.is_subclass_of(sim) and fn.name == "_do_execute_instructions":
                    continue  # the internal remap, decided under C12a
                routes[fn.qualname] = (fn, _route_predicates(idx, fn), n.lineno)
    # what each route adds: predicates established by callee validators on the way (setter → _validate_modes; Q(...))
    q = idx.find_class("piquasso.api.mode", "Q")
    q_preds = _route_predicates(idx, q.methods["__init__"])
    route_rows = {}
    for qn, (fn, preds, line) in sorted(routes.items()):
        via_q = any(isinstance(c, ast.Call) and idx.resolve_expr(fn.module, c.func) is q for c in calls_in(fn.node))
        eff = set(preds) | (q_preds if via_q else set())
        route_rows[qn] = sorted(eff)
        ctx.instance("C13f", f"route|{qn}", "info", f"{ctx.relpath(fn.file)}:{line}", establishes=sorted(eff))
    ctx.count("mode-setting routes", route_rows)
    ctx.require_floor("mode-setting routes", len(routes), 3)
    public_routes = {qn: r for qn, r in routes.items() if not r[0].name.startswith("_") or r[0].name in ("__init__",) or qn.endswith("modes.setter")}
    for p, text in (("nonneg", "non-negative"), ("lt_d", "smaller than d"), ("distinct", "pairwise distinct")):
        by_choke = p in choke_preds
        lacking = [qn for qn in public_routes if p not in route_rows[qn]]
        ok = by_choke or not lacking
        key = f"{choke.qualname}|{p}"
        ctx.obligation("C13f", key, ok, f"{ctx.relpath(choke.file)}:{choke.line}", choke_point=by_choke, routes_lacking=lacking)
        if not ok:
            ctx.violation(
                "C13f", key, choke.file, choke.line,
                f"modes are required to be {text}, but the choke point _validate_instruction_modes does not test it and these "
                f"public routes set modes without it: {lacking} (Q.__init__ tests it, so `Q(...) | instr` is covered; "
                f"`instr.on_modes(...)`, the setter and from_dict are not)",
                f"{p} not in {sorted(choke_preds)}")


# ================================================================================================ (g)
def _min_cutoff_at(fn: FuncInfo, target: ast.AST, var: str = "cutoff") -> int:
    """Smallest value of `var` (>= 1) with which `target` can be reached, from the guards that enclose or precede it:
    `if var == c: return/raise`, `if var < c: return/raise`, `if var <= c: ...`, and nesting under `if var > c:` / `>= c`."""
    lo = 1

    def cmp_of(test: ast.AST) -> Optional[Tuple[str, int]]:
        if isinstance(test, ast.Compare) and len(test.ops) == 1 and isinstance(test.left, ast.Name) and test.left.id == var \
                and isinstance(test.comparators[0], ast.Constant) and isinstance(test.comparators[0].value, int):
            return type(test.ops[0]).__name__, test.comparators[0].value
        return None

    def leaves(stmts: List[ast.stmt]) -> bool:
        return bool(stmts) and isinstance(stmts[-1], (ast.Return, ast.Raise))

    def contains(stmts: List[ast.stmt]) -> bool:
        return any(target is x for s in stmts for x in ast.walk(s))

    def walk(stmts: List[ast.stmt], lo: int) -> Optional[int]:
        for s in stmts:
            if any(target is x for x in ast.walk(s)):
                if isinstance(s, ast.If):
                    c = cmp_of(s.test)
                    if contains(s.body):
                        l2 = lo
                        if c:
                            op, k = c
                            l2 = max(lo, k + 1) if op == "Gt" else max(lo, k) if op == "GtE" else (max(lo, k) if op == "Eq" else lo)
                        return walk(s.body, l2)
                    if contains(s.orelse):
                        l2 = lo
                        if c:
                            op, k = c
                            l2 = max(lo, k + 1) if op == "LtE" else max(lo, k) if op == "Lt" else (k + 1 if op == "Eq" and k == lo else lo)
                        return walk(s.orelse, l2)
                    return lo
                for field in ("body", "orelse", "finalbody"):
                    sub = getattr(s, field, None)
                    if isinstance(sub, list) and sub and isinstance(sub[0], ast.stmt) and contains(sub):
                        return walk(sub, lo)
                return lo
            if isinstance(s, ast.If) and leaves(s.body) and not s.orelse:
                c = cmp_of(s.test)
                if c:
                    op, k = c
                    if op == "Eq" and k == lo:
                        lo = k + 1
                    elif op == "Lt":
                        lo = max(lo, k)
                    elif op == "LtE":
                        lo = max(lo, k + 1)
        return lo

    r = walk(list(fn.node.body), lo)
    return lo if r is None else r


def clause_g(ctx: Context, idx) -> None:
    """Accumulator protocol: `acc = connector.accumulator(size=cutoff)` may be a fixed-size array (tf.TensorArray) and
    `connector.range` may be tf.range, which refuses start > limit.  For every cutoff >= 1 that reaches them, a constant
    index written to the accumulator must be below its size and the start of a connector.range must not exceed its limit."""
    n_acc = n_writes = n_ranges = 0
    for fn in idx.all_functions():
        accs: Dict[str, ast.AST] = {}
        for n in walk_no_nested(fn.node):
            if isinstance(n, ast.Assign) and len(n.targets) == 1 and isinstance(n.targets[0], ast.Name) and isinstance(n.value, ast.Call) \
                    and (dotted(n.value.func) or "").endswith(".accumulator"):
                size = next((k.value for k in n.value.keywords if k.arg == "size"), n.value.args[1] if len(n.value.args) > 1 else None)
                if size is not None:
                    accs.setdefault(n.targets[0].id, size)
        if not accs:
            continue
        n_acc += len(accs)
        for n in walk_no_nested(fn.node):
            if isinstance(n, ast.Call) and (dotted(n.func) or "").endswith(".write_to_accumulator") and len(n.args) >= 2 \
                    and isinstance(n.args[0], ast.Name) and n.args[0].id in accs:
                size = accs[n.args[0].id]
                i = n.args[1]
                if isinstance(i, ast.Constant) and isinstance(i.value, int) and isinstance(size, ast.Name):
                    n_writes += 1
                    lo = _min_cutoff_at(fn, n, size.id)
                    ok = i.value < lo
                    key = f"{fn.qualname}|write index {i.value} into accumulator of size {size.id}"
                    ctx.obligation("C13g", key, ok, f"{ctx.relpath(fn.file)}:{n.lineno}", smallest_size_reaching_the_write=lo)
                    if not ok:
                        ctx.violation("C13g", key, fn.file, n.lineno,
                                      f"index {i.value} is written into an accumulator of size `{size.id}`, which can be {lo} here: a fixed-size "
                                      f"accumulator (tf.TensorArray) refuses the write, so a valid program fails at {size.id} = {lo}",
                                      norm(n)[:120])
            if isinstance(n, (ast.For,)) and isinstance(n.iter, ast.Call) and (dotted(n.iter.func) or "").endswith("connector.range") \
                    and len(n.iter.args) == 2 and isinstance(n.iter.args[0], ast.Constant) and isinstance(n.iter.args[0].value, int) \
                    and isinstance(n.iter.args[1], ast.Name):
                n_ranges += 1
                lo = _min_cutoff_at(fn, n, n.iter.args[1].id)
                a = n.iter.args[0].value
                ok = a <= lo
                key = f"{fn.qualname}|connector.range({a}, {n.iter.args[1].id})"
                ctx.obligation("C13g", key, ok, f"{ctx.relpath(fn.file)}:{n.lineno}", smallest_limit_reaching_the_loop=lo)
                if not ok:
                    ctx.violation("C13g", key, fn.file, n.lineno,
                                  f"`{norm(n.iter)}` is reached with {n.iter.args[1].id} = {lo} < {a}: tf.range (the TensorFlow connector's range) "
                                  f"refuses start > limit, so a valid program fails at {n.iter.args[1].id} = {lo}", norm(n.iter))
    ctx.require_floor("C13g accumulators / constant-index writes / connector.range loops", n_acc + n_writes + n_ranges, 6)


# ================================================================================================ (h), (i)


def clause_h(ctx: Context, idx) -> None:
    fn = idx.find_function("piquasso.api.simulator", "_infer_number_of_modes_from_instructions")
    aliases = set()
    changed = True

    def is_modes(e: ast.AST) -> bool:
        if isinstance(e, ast.Attribute) and e.attr == "modes":
            return True
        if isinstance(e, ast.Name) and e.id in aliases:
            return True
        if isinstance(e, ast.Call) and (dotted(e.func) or "") == "getattr" and len(e.args) >= 2 and isinstance(e.args[1], ast.Constant) and e.args[1].value == "modes":
            return True
        return False

    while changed:
        changed = False
        for a in ast.walk(fn.node):
            if isinstance(a, ast.Assign) and len(a.targets) == 1 and isinstance(a.targets[0], ast.Name) and a.targets[0].id not in aliases and is_modes(a.value):
                aliases.add(a.targets[0].id)
                changed = True
    singles = [x for x in ast.walk(fn.node) if isinstance(x, ast.Subscript) and is_modes(x.value) and not isinstance(x.slice, ast.Slice)]
    aggregates = [x for x in ast.walk(fn.node) if isinstance(x, ast.Call) and (dotted(x.func) or "").split(".")[-1] in ("max", "amax") and x.args
                  and any(is_modes(y) for y in ast.walk(x.args[0]))]
    if not singles and not aggregates:
        raise AnalysisError("C13h: _infer_number_of_modes_from_instructions no longer reads instruction.modes in a recognised way (undecided)")
    key = f"{fn.qualname}|largest mode over the whole tuple"
    ok = bool(aggregates) and not singles
    ctx.obligation("C13h", key, ok, f"{ctx.relpath(fn.file)}:{fn.line}")
    if not ok:
        x = (singles or [fn.node])[0]
        ctx.violation("C13h", key, fn.file, getattr(x, "lineno", fn.line),
                      f"`{norm(x)[:60]}` takes one element of an instruction's mode tuple for its largest mode: a program that lists its modes in "
                      "another order (Q(2, 0)) gets too small a number of modes and is refused with InvalidModes although it is valid",
                      norm(x)[:100])


def clause_i(ctx: Context, idx) -> None:
    from .. import moments as mo
    cls = idx.find_class("piquasso.instructions.gates", "GaussianTransform")
    fn = cls.methods.get("_validate")
    if fn is None:
        raise AnalysisError("anchor vanished: GaussianTransform._validate")
    env = {}
    for a in ast.walk(fn.node):
        if isinstance(a, ast.Assign) and len(a.targets) == 1 and isinstance(a.targets[0], ast.Name) and isinstance(a.value, ast.Subscript) \
                and isinstance(a.value.slice, ast.Constant) and a.value.slice.value in ("passive", "active"):
            env[a.targets[0].id] = mo.sym("Pb" if a.value.slice.value == "passive" else "Ab")
    if len(env) < 2:
        raise AnalysisError("C13i: GaussianTransform._validate no longer binds the passive and active blocks to locals (undecided)")
    P, A = mo.sym("Pb"), mo.sym("Ab")
    dag = lambda x: mo.transpose(mo.conj(x))  # noqa: E731
    key = f"{fn.qualname}|both Bogoliubov conditions"
    # form 1: is_symplectic(np.block([[P, A], [conj A, conj P]]), form_func=complex_symplectic_form)
    for c in ast.walk(fn.node):
        if isinstance(c, ast.Call) and (dotted(c.func) or "").split(".")[-1] == "is_symplectic" and c.args:
            b = c.args[0]
            form = next((norm(k.value) for k in c.keywords if k.arg == "form_func"), norm(c.args[1]) if len(c.args) > 1 else "")
            good = False
            if isinstance(b, ast.Call) and (dotted(b.func) or "").split(".")[-1] == "block" and b.args and isinstance(b.args[0], ast.List) and len(b.args[0].elts) == 2 \
                    and all(isinstance(r, ast.List) and len(r.elts) == 2 for r in b.args[0].elts):
                try:
                    rows = [[mo.WordEval(env).ev(x) for x in r.elts] for r in b.args[0].elts]
                    good = rows[0][0] == P and rows[0][1] == A and rows[1][0] == mo.conj(A) and rows[1][1] == mo.conj(P)
                except mo.Untranslatable:
                    good = False
            good = good and form.endswith("complex_symplectic_form")
            ctx.obligation("C13i", key, good, f"{ctx.relpath(fn.file)}:{c.lineno}", form="is_symplectic on the assembled matrix")
            if not good:
                ctx.violation("C13i", key, fn.file, c.lineno,
                              f"`{norm(c)[:90]}` does not test [[P, A], [conj A, conj P]] against the complex symplectic form: parameters that are not a "
                              "Bogoliubov transformation are accepted and evolved", norm(c)[:100])
            return
    # form 2: block identities L == R (np.allclose(L, R)); required: P P^dagger - A A^dagger - I = 0 and P A^T - A P^T = 0 (or their adjoints / transposes)
    want1 = mo.add(mo.add(mo.mul(P, dag(P)), mo.mul(A, dag(A)), -1), dict(mo.IDENT), -1)
    want2 = mo.add(mo.mul(P, mo.transpose(A)), mo.mul(A, mo.transpose(P)), -1)

    def variants(w):
        out = []
        for f_ in (lambda x: x, mo.conj, mo.transpose, dag):
            v = f_(w)
            out += [v, mo.scale(v, -1)]
        return out

    have1 = have2 = False
    n_cmp = 0
    for c in ast.walk(fn.node):
        if isinstance(c, ast.Call) and (dotted(c.func) or "").split(".")[-1] in ("allclose", "array_equal") and len(c.args) >= 2:
            n_cmp += 1
            try:
                w = mo.add(mo.WordEval(env).ev(c.args[0]), mo.WordEval(env).ev(c.args[1]), -1)
            except mo.Untranslatable:
                continue
            have1 = have1 or any(w == v for v in variants(want1))
            have2 = have2 or any(w == v for v in variants(want2))
    if n_cmp == 0:
        raise AnalysisError("C13i: GaussianTransform._validate tests symplecticity in a form the rule has no idiom for (undecided)")
    ok = have1 and have2
    ctx.obligation("C13i", key, ok, f"{ctx.relpath(fn.file)}:{fn.line}", form="block identities", first=have1, second=have2)
    if not ok:
        missing = "P A^T = A P^T" if have1 and not have2 else ("P P^dagger - A A^dagger = I" if have2 and not have1 else "both identities")
        ctx.violation("C13i", key, fn.file, fn.line,
                      f"GaussianTransform._validate tests the blocks directly but not {missing}: blocks that are not a Bogoliubov transformation "
                      "(e.g. P = cosh(r) I, A = sinh(r) R(theta) on two modes) are accepted and evolved on every simulator", missing)
