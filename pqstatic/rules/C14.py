"""C14 — Gaussian states are hbar-invariant and representation-consistent: the scaling clause (engine E5).

One typing obligation per observable / getter / setter of GaussianState: quadrature means have hbar-degree
1/2, covariances and correlations degree 1, setters store degree 0 into the ladder moments, dimensionless
observables have degree 0, and every `+`, comparison, exp/log/trig and dimensionless kernel on the way is
well-typed.  A derivation in this type system is a proof that the value is homogeneous of that degree in hbar.
Numerical equality of the four representations and commutation of reduction/rotation with them are not decided.
"""

from __future__ import annotations

import ast
from fractions import Fraction
from typing import Dict, List, Optional, Tuple

from ..callgraph import get_resolver
from ..degree import DegreeAnalysis, Interp, T, INT, ZERO, ONE, HALF, POLY, lfmt
from ..index import FuncInfo, get_index, norm, dotted
from ..report import Context, AnalysisError

LEVEL = "proof"
MOD = "piquasso._simulators.gaussian.state"

GETTERS = {
    "xxpp_mean_vector": HALF, "xpxp_mean_vector": HALF,
    "xxpp_covariance_matrix": ONE, "xpxp_covariance_matrix": ONE,
    "xxpp_correlation_matrix": ONE, "xpxp_correlation_matrix": ONE,
    "complex_displacement": ZERO, "complex_covariance": ZERO, "Q_matrix": ZERO,
}
DIMENSIONLESS = {
    # method → argument kinds
    "density_matrix": {}, "fock_probabilities": {},
    "get_particle_detection_probability": {"occupation_number": INT},
    "get_threshold_detection_probability": {"occupation_number": INT},
    "get_purity": {}, "get_parity_operator_expectation_value": {},
    "get_phaseshifter_expectation_value": {"angles": T.num(ZERO)},
    "mean_photon_number": {"modes": T("none")}, "variance_photon_number": {"modes": T("none")},
    "fidelity": {"state": "state"},
}
SETTERS = {"xpxp_mean_vector": HALF, "xxpp_mean_vector": HALF, "xpxp_covariance_matrix": ONE, "xxpp_covariance_matrix": ONE}
PRESERVING = {"rotated": {"phi": T.num(ZERO)}, "reduced": {"modes": INT}, "purify": {}}


def report_issues(ctx: Context, an: DegreeAnalysis, rule: str, seen: set) -> None:
    for i in an.issues:
        key = f"{i.fn.qualname}|{i.kind}|{norm(i.node)[:70]}"
        if key in seen:
            continue
        seen.add(key)
        ctx.violation(rule, key, i.fn.file, getattr(i.node, "lineno", i.fn.line), i.message, norm(i.node)[:100])


def run(ctx: Context) -> None:
    idx = get_index(ctx.repo)
    res = get_resolver(idx)
    ctx.explanation = (
        "Units-of-measure style type inference in the group (Q[d], +): each method of GaussianState is typed with "
        "config.hbar : 1 and the ladder moments _m, _C, _G : 0, following properties, setters and in-package helpers; "
        "every obligation is the degree the property states for that observable, and every ill-typed sum/comparison/"
        "transcendental argument is reported with both degrees. A discharged obligation proves homogeneity of that "
        "degree in hbar for all states and all hbar > 0; it does not prove numerical agreement of representations."
    )
    ctx.trusted_base = ["python ast", "degree seeds: config.hbar:1, _m/_C/_G:0, numeric literals:0", "typing rules of pqstatic/degree.py (DESIGN E5)",
                        "shape table: ladder moments are d-dimensional, quadrature matrices 2d x 2d"]
    ctx.rule("C14", "getter degrees: means 1/2, covariances/correlations 1, complex forms 0; setters store degree 0; dimensionless observables degree 0; all sums well-typed")
    an = DegreeAnalysis(idx, res)
    cls = idx.find_class(MOD, "GaussianState")
    state = T("state", cls=cls)
    seen: set = set()
    n = 0

    def check_return(name: str, fn: FuncInfo, args: Dict[str, T], want) -> None:
        nonlocal n
        n += 1
        n_before = len(an.issues)
        r = an.call_function(fn, {**args, "self": state})
        key = f"{cls.qualname}.{name}|degree {lfmt(want)}"
        where = f"{ctx.relpath(fn.file)}:{fn.line}"
        if r.kind == "unknown":
            ctx.obligation("C14", key, False, where, undecided=r.why)
            ctx.error(f"C14: cannot type {cls.name}.{name}: {r.why} (undecided)")
            return
        if r.kind == "kernel":
            got = ZERO
        elif r.kind == "poly":
            got = want
        elif r.kind in ("num", "int"):
            got = r.deg
        else:
            ctx.obligation("C14", key, False, where, undecided=r.kind)
            ctx.error(f"C14: {cls.name}.{name} returns a value of kind {r.kind} (undecided)")
            return
        new_issues = an.issues[n_before:]
        ok = got == want and not new_issues
        ctx.obligation("C14", key, ok, where, inferred=lfmt(got))
        if got != want:
            ctx.violation("C14", f"{cls.qualname}.{name}|degree", fn.file, fn.line,
                          f"{cls.name}.{name} scales like hbar^({lfmt(got)}); the property requires hbar^({lfmt(want)})"
                          + (" — it is not independent of hbar" if want == ZERO else ""), name)

    for name, want in GETTERS.items():
        fn = cls.methods.get(name)
        if fn is None:
            raise AnalysisError(f"anchor vanished: GaussianState.{name}")
        check_return(name, fn, {}, want)
    for name, argspec in DIMENSIONLESS.items():
        fn = cls.methods.get(name)
        if fn is None:
            raise AnalysisError(f"anchor vanished: GaussianState.{name}")
        args = {k: (state if v == "state" else v) for k, v in argspec.items()}
        check_return(name, fn, args, ZERO)
    # setters store degree 0
    for name, indeg in SETTERS.items():
        fn = cls.methods.get(name + ".setter")
        if fn is None:
            raise AnalysisError(f"anchor vanished: GaussianState.{name} setter")
        n += 1
        param = [p for p in fn.params() if p != "self"][0]
        n_stores = len(an.stores)
        n_issues = len(an.issues)
        an.call_function(fn, {param: T.num(indeg, (Fraction(0), Fraction(2))), "self": state})
        stores = [s for s in an.stores[n_stores:] if s[2] in ("_m", "_C", "_G")]
        # delegating setters are memoised: look the stored degrees up through the delegate as well
        if not stores:
            stores = [s for s in an.stores if s[2] in ("_m", "_C", "_G") and s[0].name in ("xpxp_mean_vector", "xpxp_covariance_matrix")
                      and s[0].name.split("_")[1] == name.split("_")[1]]
        key = f"{cls.qualname}.{name}.setter|stores degree 0"
        bad = [s for s in stores if not (s[3].kind == "poly" or (s[3].kind == "num" and s[3].deg == ZERO))]
        unk = [s for s in stores if s[3].kind == "unknown"]
        ok = bool(stores) and not bad and len(an.issues) == n_issues
        ctx.obligation("C14", key, ok, f"{ctx.relpath(fn.file)}:{fn.line}", stores=[f"{s[2]}:{lfmt(s[3].deg)}" for s in stores])
        if unk:
            ctx.error(f"C14: cannot type what {name}.setter stores: {unk[0][3].why} (undecided)")
        elif not stores:
            ctx.error(f"C14: {name}.setter stores nothing the checker recognises (undecided)")
        for s in bad:
            if s[3].kind == "num":
                ctx.violation("C14", f"{cls.qualname}.{name}.setter|{s[2]}", s[0].file, getattr(s[1], "lineno", fn.line),
                              f"the {name} setter stores a quantity of hbar-degree {lfmt(s[3].deg)} into the ladder moment {s[2]} (must be 0): "
                              f"getter(setter(x)) != x for hbar != 2", norm(s[1])[:90])
    # degree-preserving constructors
    for name, argspec in PRESERVING.items():
        fn = cls.methods.get(name)
        if fn is None:
            raise AnalysisError(f"anchor vanished: GaussianState.{name}")
        n += 1
        n_stores, n_issues = len(an.stores), len(an.issues)
        an.call_function(fn, {**argspec, "self": state})
        stores = [s for s in an.stores if s[0].qualname == fn.qualname]  # memoised calls recorded their stores earlier
        bad = [s for s in stores if s[2] in ("_m", "_C", "_G") and s[3].kind == "num" and s[3].deg != ZERO]
        unk = [s for s in stores if s[3].kind == "unknown"]
        key = f"{cls.qualname}.{name}|preserves degrees"
        ctx.obligation("C14", key, bool(stores) and not bad and not unk and len(an.issues) == n_issues,
                       f"{ctx.relpath(fn.file)}:{fn.line}", stores=[f"{s[2]}:{lfmt(s[3].deg) if s[3].kind == 'num' else s[3].kind}" for s in stores])
        if unk:
            ctx.error(f"C14: cannot type {name}: {unk[0][3].why} (undecided)")
        for s in bad:
            ctx.violation("C14", f"{cls.qualname}.{name}|{s[2]}", s[0].file, getattr(s[1], "lineno", fn.line),
                          f"{name} builds a state whose ladder moment {s[2]} has hbar-degree {lfmt(s[3].deg)}", norm(s[1])[:90])
    # get_xp_string_moment: first-order moments 1/2, second-order moments 1
    gx = cls.methods.get("get_xp_string_moment")
    if gx is None:
        raise AnalysisError("anchor vanished: GaussianState.get_xp_string_moment")
    n += 1
    it = Interp(an, gx, {"self": state, "string": INT})
    n_issues = len(an.issues)
    for s in gx.node.body:
        if isinstance(s, ast.Return):
            break
        it.stmt(s)
    # the two moment arrays are what the method hands to _string_moment, whatever the locals are called
    fo = so = None
    for c_ in ast.walk(gx.node):
        if isinstance(c_, ast.Call) and isinstance(c_.func, ast.Attribute) and c_.func.attr == "_string_moment" and len(c_.args) >= 2:
            fo, so = it.ev(c_.args[0]), it.ev(c_.args[1])
    ok = fo is not None and so is not None and fo.kind == "num" and so.kind == "num" and fo.deg == HALF and so.deg == ONE and len(an.issues) == n_issues
    ctx.obligation("C14", f"{cls.qualname}.get_xp_string_moment|first 1/2, second 1", ok, f"{ctx.relpath(gx.file)}:{gx.line}",
                   first=lfmt(fo.deg) if fo else None, second=lfmt(so.deg) if so else None)
    if fo is None or so is None or fo.kind == "unknown" or so.kind == "unknown":
        ctx.error("C14: cannot type get_xp_string_moment (undecided)")
    elif not ok and len(an.issues) == n_issues:
        ctx.violation("C14", f"{cls.qualname}.get_xp_string_moment|degrees", gx.file, gx.line,
                      f"string moments are built from first-order moments of degree {lfmt(fo.deg)} and second-order moments of degree "
                      f"{lfmt(so.deg)}; a length-n moment is homogeneous of degree n/2 only for 1/2 and 1", "second_order_moments")
    report_issues(ctx, an, "C14", seen)
    ctx.require_floor("typing obligations", n, 25)
    # tolerance-based zero tests: allclose(X, 0) / isclose(X, 0) has an absolute tolerance, so X must be dimensionless (hbar-degree 0); a
    # quantity of degree k is "zero" for small enough hbar although the state is not (and not for large hbar)
    n_zero = 0
    for mname_, fn_ in sorted(cls.methods.items()):
        sites_ = [c_ for c_ in ast.walk(fn_.node) if isinstance(c_, ast.Call) and (dotted(c_.func) or "").split(".")[-1] in ("allclose", "isclose")
                  and len(c_.args) >= 2 and isinstance(c_.args[1], ast.Constant) and c_.args[1].value in (0, 0.0)]
        if not sites_:
            continue
        it_ = Interp(an, fn_, {"self": state})
        n_iss = len(an.issues)
        try:
            for st_ in fn_.node.body:
                if any(any(y is c_ for y in ast.walk(st_)) for c_ in sites_):
                    break
                it_.stmt(st_)
        except Exception:  # noqa: BLE001 - statements before the test that the interpreter cannot execute leave locals untyped
            pass
        del an.issues[n_iss:]
        for c_ in sites_:
            t_ = it_.ev(c_.args[0])
            del an.issues[n_iss:]
            if t_.kind != "num":
                continue
            n_zero += 1
            key = f"{cls.qualname}.{mname_}|zero test of `{norm(c_.args[0])[:40]}`"
            ok_ = t_.deg == ZERO
            ctx.obligation("C14", key, ok_, f"{ctx.relpath(fn_.file)}:{c_.lineno}", degree=lfmt(t_.deg))
            if not ok_:
                ctx.violation("C14", key, fn_.file, c_.lineno,
                              f"`{norm(c_)[:70]}` compares a quantity of hbar-degree {lfmt(t_.deg)} with zero under an absolute tolerance: whether the "
                              f"state counts as (non-)displaced / zero depends on the value of hbar", norm(c_)[:100])
    ctx.require_floor("C14 tolerance-based zero tests typed", n_zero, 1)
    clause_c(ctx, idx, cls)
    clause_d(ctx, idx)
    ctx.assume("xxpp_to_xpxp_indices / xpxp_to_xxpp_indices are permutations (degree- and dimension-preserving)")
    ctx.assume("the hafnian / torontonian / Williamson kernels are functions of dimensionless inputs (their arguments are required to have degree 0)")


# ================================================================================================ (c)


def clause_c(ctx: Context, idx, cls) -> None:
    """A Gaussian state derived from another one (purification, post-measurement state, copies built by hand) carries
    that state's configuration: `hbar` lives in the Config, and the constructor falls back to a default Config (hbar = 2)
    when none is passed, so a derived state built without it reads and writes its moments with a different hbar."""
    ctx.rule("C14c", "every GaussianState constructed inside the library is given the config (and connector) of the state it is derived from; the constructor's default Config is never relied on")
    init = cls.methods.get("__init__")
    if init is None or "config" not in init.all_params():
        raise AnalysisError("anchor vanished: GaussianState.__init__(..., config=...)")
    n_sites = 0
    for m in idx.modules.values():
        if not m.name.startswith("piquasso."):
            continue
        for fn in list(m.functions.values()) + [x for c in m.classes.values() for x in c.methods.values()]:
            for c in ast.walk(fn.node):
                if not isinstance(c, ast.Call):
                    continue
                target = None
                if isinstance(c.func, ast.Name):
                    r = idx.resolve_name(m, c.func.id)
                    if r is cls:
                        target = cls
                elif isinstance(c.func, ast.Attribute) and c.func.attr == "__class__" and isinstance(c.func.value, ast.Name) and c.func.value.id == "self" \
                        and fn.cls is not None and (fn.cls is cls or fn.cls.is_subclass_of(cls)):
                    target = cls
                elif isinstance(c.func, ast.Call) and isinstance(c.func.func, ast.Name) and c.func.func.id == "type" and fn.cls is not None \
                        and (fn.cls is cls or fn.cls.is_subclass_of(cls)):
                    target = cls
                if target is None:
                    continue
                n_sites += 1
                params = [p_ for p_ in init.all_params() if p_ != "self"]
                bound = {}
                for p_, a_ in zip(params, c.args):
                    bound[p_] = a_
                for k_ in c.keywords:
                    if k_.arg:
                        bound[k_.arg] = k_.value
                key = f"{fn.qualname}|GaussianState(...)|config"
                cfg = bound.get("config")
                ok = cfg is not None and not (isinstance(cfg, ast.Constant) and cfg.value is None) and not (
                    isinstance(cfg, ast.Call) and (dotted(cfg.func) or "").split(".")[-1] == "Config")
                ctx.obligation("C14c", key, ok, f"{ctx.relpath(fn.file)}:{c.lineno}", config=norm(cfg) if cfg is not None else None)
                if not ok:
                    ctx.violation("C14c", key, fn.file, c.lineno,
                                  f"`{norm(c)[:80]}` constructs a GaussianState "
                                  + ("without a config" if cfg is None else f"with `{norm(cfg)}`")
                                  + ": it falls back to a fresh default Config (hbar = 2), so for a parent state with another hbar the derived "
                                  "state's moments are stored and read with the wrong normalisation", norm(c)[:100])
    ctx.require_floor("GaussianState constructions inside the library", n_sites, 2)


# ================================================================================================ (d)


def clause_d(ctx: Context, idx) -> None:
    """"The xpxp and xxpp representations describe the same state": ordering tags (pqstatic/basis.py)."""
    from ..basis import BasisTyping
    ctx.rule("C14d", "quadrature quantities keep a consistent ordering: the xxpp->xpxp / xpxp->xxpp index maps are applied to quantities of the source "
                     "ordering, sums and products combine quantities of one ordering, and getters/setters named for an ordering return/receive it")
    n_conv = n_comb = n_end = 0
    n_fn = 0
    for m in idx.modules.values():
        if not (m.name.startswith("piquasso._simulators.gaussian") or m.name in ("piquasso._math.decompositions", "piquasso._simulators.simulation_steps")):
            continue
        fns = list(m.functions.values())
        for c in m.classes.values():
            for nd in c.node.body:
                if isinstance(nd, (ast.FunctionDef, ast.AsyncFunctionDef)):
                    # property getters and setters share a name: every definition is analysed, not only the last one
                    fns.append(FuncInfo(nd.name, f"{c.qualname}.{nd.name}", m, nd, c))
        for fn in fns:
            n_fn += 1
            bt = BasisTyping(fn)
            bt.run()
            n_conv += bt.n_conversions
            n_comb += bt.n_combinations
            n_end += bt.n_endpoints
            for iss in bt.issues:
                key = f"{fn.qualname}|{iss.kind}|{norm(iss.node).split(chr(10))[0][:50]}"
                ctx.violation("C14d", key, fn.file, iss.node.lineno,
                              iss.message + ": the xpxp and the xxpp representation no longer describe the same state (entries of different "
                              "quadratures are added or compared)", norm(iss.node).split("\n")[0][:100])
    ctx.obligation("C14d", "gaussian package|orderings-consistent", not any(f.rule == "C14d" for f in ctx.findings),
                   functions=n_fn, conversions=n_conv, combinations=n_comb, endpoints=n_end)
    ctx.require_floor("applications of the ordering index maps checked", n_conv, 6)
    ctx.require_floor("ordering-named getter returns / setter stores checked", n_end, 8)
