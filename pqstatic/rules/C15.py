"""C15 — matrix decompositions reconstruct their input: the consumer-agreement clauses (E6 + E1).

 (a) the consumers of a Clements `Decomposition` agree: the 2x2 block that inverse_clements embeds for a BS entry
     (theta, phi) equals, for all angles, the product of the gate blocks instructions_from_decomposition emits for
     the same entry (blocks taken from gates.py); both traverse beamsplitters in list order, then phaseshifters,
     later operations acting after earlier ones; the phase factor of a PS entry is the Phaseshifter block
 (b) the weight vector is written by get_weights_from_decomposition and read by get_decomposition_from_weights
     with the same field order and stride
 (c) each Givens step of the Clements sweep nulls one element of the addressed pair for the angles `_get_angles`
     returns: symbolically for every non-zero pivot, and with the constants of the degenerate arm for a zero pivot
Takagi / Williamson / Euler on degenerate inputs and the graph embedding are numerical: not decided.
"""

from __future__ import annotations

import ast
from typing import Any, Dict, List, Optional, Tuple

import sympy as sp

from ..algebra import SymEval, Untranslatable, is_zero, residual_text, to_matrix
from ..gateblocks import InstructionListBuilder, passive_block
from ..index import FuncInfo, get_index, dotted, norm
from ..registry import get_registry
from ..report import Context, AnalysisError

LEVEL = "other"
MOD = "piquasso.decompositions.clements"


def run(ctx: Context) -> None:
    idx = get_index(ctx.repo)
    reg = get_registry(idx)
    m = idx.module(MOD)
    ctx.explanation = (
        "Sibling agreement decided from source: the embedded 2x2 beamsplitter block of the inverse transformation and "
        "the product of the gate blocks emitted for the same decomposition entry are translated to sympy (E6) and "
        "compared by normal form for all angles; the traversal order and composition side of both consumers, and the "
        "field layout of the weight vector on the writer and the reader side, are compared as tables. These are "
        "necessary for 'inverse, instruction list and weight round trip reproduce the unitary'; the numerical "
        "decompositions themselves are not decided."
    )
    ctx.rule("C15a", "embedded BS block == product of emitted gate blocks for all (theta, phi); same traversal order; PS factor == Phaseshifter block")
    ctx.rule("C15b", "weight vector layout: writer and reader agree on field order and stride")
    ctx.rule("C15c", "each Givens step of the Clements sweep nulls one matrix element for the angles _get_angles returns: for every non-zero pivot (general arm, proved symbolically) and for a vanishing pivot (the constants of the degenerate arm null the same element)")
    th, ph = sp.Symbol("theta", real=True), sp.Symbol("phi", real=True)

    # ---- the embedded block ------------------------------------------------------------------------------------
    emb = m.functions.get("_get_embedded_beamsplitter_matrix")
    if emb is None:
        raise AnalysisError("anchor vanished: _get_embedded_beamsplitter_matrix")
    op = emb.params()[0]

    def hook(ev: SymEval, c: ast.Call):
        return NotImplemented

    ev = SymEval(emb, {}, env={"np": "<np>"})
    ev.env["dtype"] = "<dtype>"
    block = None
    try:
        for s in emb.node.body:
            if isinstance(s, ast.Expr):
                continue
            if isinstance(s, ast.Assign) and len(s.targets) == 1 and isinstance(s.targets[0], ast.Tuple) and norm(s.value) == f"{op}.params":
                ev.bind(s.targets[0], [th, ph])
                continue
            if isinstance(s, ast.Assign) and norm(s.value) == f"{op}.modes":
                ev.bind(s.targets[0], [0, 1])
                continue
            if isinstance(s, ast.Assign):
                ev.stmt(s)
                continue
            if isinstance(s, ast.Return):
                # connector.embed_in_identity(matrix, index, d)
                if isinstance(s.value, ast.Call) and isinstance(s.value.func, ast.Attribute) and s.value.func.attr == "embed_in_identity":
                    block = to_matrix(ev.ev(s.value.args[0]))
                else:
                    block = to_matrix(ev.ev(s.value))
    except Untranslatable as e:
        ctx.error(str(e))
        return
    if block is None or block.shape != (2, 2):
        raise AnalysisError("C15a: cannot read the embedded beamsplitter block (undecided)")

    # ---- the emitted instructions ---------------------------------------------------------------------------------
    ifd = m.functions.get("instructions_from_decomposition")
    inv = m.functions.get("inverse_clements")
    if ifd is None or inv is None:
        raise AnalysisError("anchor vanished: instructions_from_decomposition / inverse_clements")
    loops = [s for s in ifd.node.body if isinstance(s, ast.For)]
    if len(loops) != 2:
        raise AnalysisError("C15a: instructions_from_decomposition no longer has one loop per operation kind (undecided)")
    order_instr = [norm(l.iter).split(".")[-1] for l in loops]
    bs_loop = next((l for l in loops if norm(l.iter).endswith("beamsplitters")), None)
    ps_loop = next((l for l in loops if norm(l.iter).endswith("phaseshifters")), None)
    if bs_loop is None or ps_loop is None:
        raise AnalysisError("C15a: loops over beamsplitters/phaseshifters not found (undecided)")
    v = norm(bs_loop.target)
    b = InstructionListBuilder(idx, reg, ifd, {"np": "<np>", f"{v}": None}, {f"{v}.modes[0]": 0, f"{v}.modes[1]": 1}, 2)
    # bs.params[0] → theta, bs.params[1] → phi
    class _Env(dict):
        pass
    try:
        b.env = {"np": "<np>"}
        b_steps = []
        for s in bs_loop.body:
            call = s.value.args[0] if isinstance(s, ast.Expr) and isinstance(s.value, ast.Call) and s.value.args else None
            if call is None:
                raise Untranslatable(f"E6: statement `{norm(s)[:50]}` in instructions_from_decomposition")
            # substitute bs.params[i] by symbols through a tiny rewriting of the AST
            call = _subst(call, {f"{v}.params[0]": "theta__", f"{v}.params[1]": "phi__"})
            b.env.update({"theta__": th, "phi__": ph})
            b.steps.append(b.instruction_matrix(call))
        emitted = b.product()
    except Untranslatable as e:
        ctx.error(str(e))
        return
    res = emitted - block
    ok = is_zero(res)
    ctx.obligation("C15a", f"{MOD}|embedded-block == emitted-gates", ok, f"{ctx.relpath(m.path)}:{emb.line}",
                   embedded=str(block), emitted=[s for s, _ in b.steps])
    if not ok:
        ctx.violation("C15a", f"{MOD}|embedded-block == emitted-gates", m.path, emb.line,
                      f"inverse_clements embeds {block} for a BS entry (theta, phi) but instructions_from_decomposition emits "
                      f"{[s for s, _ in b.steps]} = {sp.simplify(emitted)}; difference {residual_text(res)}: the instruction list and the "
                      f"inverse transformation of the same decomposition are different unitaries", str(block))
    # PS factor
    pv = norm(ps_loop.target)
    try:
        call = ps_loop.body[0].value.args[0]
        call = _subst(call, {f"{pv}.phi": "phi__", f"{pv}.mode": "mode__"})
        b2 = InstructionListBuilder(idx, reg, ifd, {"np": "<np>", "phi__": ph}, {"mode__": 0}, 1)
        b2.steps.append(b2.instruction_matrix(call))
        ps_block = b2.product()[0, 0]
    except (Untranslatable, AttributeError, IndexError) as e:
        ctx.error(f"C15a: cannot read the phaseshifter emission: {e}")
        return
    inv_factor = None
    for n in ast.walk(inv.node):
        if isinstance(n, ast.Call) and (dotted(n.func) or "").endswith("exp") and n.args:
            # exp(1j * <the local that collects the phaseshifter angles>): the local filled with `<phaseshifter>.phi`
            phase_locals = {a.targets[0].id for a in ast.walk(inv.node) if isinstance(a, ast.Assign) and len(a.targets) == 1
                            and isinstance(a.targets[0], ast.Name) and any(isinstance(x, ast.Attribute) and x.attr == "phi" for x in ast.walk(a.value))}
            used = [x.id for x in ast.walk(n.args[0]) if isinstance(x, ast.Name) and x.id in phase_locals]
            if not used:
                continue
            try:
                inv_factor = SymEval(inv, {}, env={"np": "<np>", used[0]: ph}).ev(n)
            except Untranslatable as e:
                ctx.error(str(e))
    if inv_factor is None:
        raise AnalysisError("C15a: cannot read the phase factor of inverse_clements (undecided)")
    ok = is_zero(ps_block - inv_factor)
    ctx.obligation("C15a", f"{MOD}|phase-factor == Phaseshifter block", ok, emitted=str(ps_block), inverse=str(inv_factor))
    if not ok:
        ctx.violation("C15a", f"{MOD}|phase-factor", m.path, inv.line,
                      f"inverse_clements multiplies by {inv_factor} for a PS entry, the emitted Phaseshifter block is {ps_block}", str(inv_factor))
    # traversal order and composition side
    inv_loops = [s for s in inv.node.body if isinstance(s, ast.For)]
    order_inv = [norm(l.iter).split(".")[-1] for l in inv_loops]
    ok_order = order_instr == ["beamsplitters", "phaseshifters"] and order_inv[:2] == ["beamsplitters", "phaseshifters"]
    # left multiplication: interferometer = X @ interferometer
    left_mult = []
    for n in ast.walk(inv.node):
        # X = M @ X (left multiplication of the accumulated matrix, whatever it is called)
        if isinstance(n, ast.Assign) and isinstance(n.value, ast.BinOp) and isinstance(n.value.op, ast.MatMult) and isinstance(n.targets[0], ast.Name) \
                and (norm(n.value.right) == n.targets[0].id or norm(n.value.left) == n.targets[0].id):
            left_mult.append(norm(n.value.right) == n.targets[0].id)
    # the phases must be applied after the beamsplitter loop
    phase_after = False
    bs_inv_loop = next((l for l in inv_loops if norm(l.iter).endswith("beamsplitters")), None)
    for n in inv.node.body:
        if isinstance(n, ast.Assign) and any(isinstance(c_, ast.Call) and (dotted(c_.func) or "").split(".")[-1] == "diag" for c_ in ast.walk(n.value)) \
                and bs_inv_loop is not None and n.lineno > bs_inv_loop.lineno:
            phase_after = True
    ok_side = bool(left_mult) and all(left_mult) and phase_after
    rev = any("reversed" in norm(l.iter) for l in loops + inv_loops)
    ctx.obligation("C15a", f"{MOD}|same-traversal-order", ok_order and ok_side and not rev,
                   instructions=order_instr, inverse=order_inv, left_multiplication=left_mult)
    if not (ok_order and ok_side and not rev):
        ctx.violation("C15a", f"{MOD}|same-traversal-order", m.path, inv.line,
                      f"instructions_from_decomposition traverses {order_instr} (appending = acting later) but inverse_clements traverses "
                      f"{order_inv} with left-multiplication flags {left_mult}, phases-after-beamsplitters={phase_after}, reversed={rev}: "
                      f"the two consumers compose the operations in different orders", "interferometer = M @ interferometer")

    clause_c(ctx, m, block, th, ph)
    clause_d(ctx, idx)

    # ---------------- (b) weight layout ----------------------------------------------------------------------------------------
    w = m.functions.get("get_weights_from_decomposition")
    r = m.functions.get("get_decomposition_from_weights")
    if w is None or r is None:
        raise AnalysisError("anchor vanished: get_weights_from_decomposition / get_decomposition_from_weights")
    wl = _writer_layout(w)
    rl = _reader_layout(r)
    ok = wl == rl and bool(wl)
    ctx.obligation("C15b", f"{MOD}|weights-layout", ok, f"{ctx.relpath(m.path)}:{w.line}", writer=wl, reader=rl)
    if not ok:
        ctx.violation("C15b", f"{MOD}|weights-layout", m.path, r.line,
                      f"get_weights_from_decomposition writes {wl} but get_decomposition_from_weights reads {rl}: the weight round trip "
                      f"permutes or drops angles", str(rl))


def _subst(node: ast.AST, mapping: Dict[str, str]) -> ast.AST:
    class T(ast.NodeTransformer):
        def generic_visit(self, n):
            try:
                txt = ast.unparse(n) if isinstance(n, ast.expr) else None
            except Exception:
                txt = None
            if txt in mapping:
                return ast.copy_location(ast.Name(id=mapping[txt], ctx=ast.Load()), n)
            return super().generic_visit(n)
    import copy
    return ast.fix_missing_locations(T().visit(copy.deepcopy(node)))


def _writer_layout(fn: FuncInfo) -> List[Tuple[str, List[Tuple[int, str]], int]]:
    """[(collection, [(offset, field)], stride)] in loop order."""
    out = []
    for loop in [s for s in fn.node.body if isinstance(s, ast.For)]:
        coll = norm(loop.iter).split(".")[-1]
        var = norm(loop.target)
        off = 0
        fields = []
        for s in loop.body:
            if isinstance(s, ast.Assign) and isinstance(s.value, ast.Call) and isinstance(s.value.func, ast.Attribute) and s.value.func.attr == "assign":
                a = s.value.args
                if len(a) == 3 and norm(a[1]) == "index":
                    fields.append((off, norm(a[2]).replace(var + ".", "")))
                elif len(a) == 3 and norm(a[1]).startswith("index +"):
                    fields.append((off + int(norm(a[1]).split("+")[1]), norm(a[2]).replace(var + ".", "")))
            elif isinstance(s, ast.AugAssign) and norm(s.target) == "index" and isinstance(s.op, ast.Add) and isinstance(s.value, ast.Constant):
                off += s.value.value
            elif isinstance(s, ast.Assign) and isinstance(s.targets[0], ast.Subscript) and norm(s.targets[0].value) == "weights":
                sl = norm(s.targets[0].slice)
                o = 0 if sl == "index" else int(sl.split("+")[1]) if sl.startswith("index +") else None
                if o is not None:
                    fields.append((off + o, norm(s.value).replace(var + ".", "")))
        out.append((coll, fields, off))
    return out


def _reader_layout(fn: FuncInfo) -> List[Tuple[str, List[Tuple[int, str]], int]]:
    out = []
    for loop in [s for s in fn.node.body if isinstance(s, ast.For)]:
        coll = norm(loop.iter).split(".")[-1]
        var = norm(loop.target)
        off = 0
        fields = []

        def offset_of(e: ast.AST) -> Optional[int]:
            if isinstance(e, ast.Subscript) and norm(e.value) == "weights":
                sl = norm(e.slice)
                if sl == "index":
                    return 0
                if sl.startswith("index +"):
                    return int(sl.split("+")[1])
            return None

        for s in loop.body:
            if isinstance(s, ast.Assign):
                tgt = norm(s.targets[0]).replace(var + ".", "")
                if isinstance(s.value, ast.Tuple):
                    for i, e in enumerate(s.value.elts):
                        o = offset_of(e)
                        if o is not None:
                            fields.append((off + o, f"{tgt}[{i}]"))
                else:
                    o = offset_of(s.value)
                    if o is not None:
                        fields.append((off + o, tgt))
            elif isinstance(s, ast.AugAssign) and norm(s.target) == "index" and isinstance(s.op, ast.Add) and isinstance(s.value, ast.Constant):
                off += s.value.value
        out.append((coll, sorted(fields), off))
    return out


# ================================================================================================ (c)


def _angles_arms(ga: FuncInfo):
    """(test-variable, degenerate constants (theta0, phi0) as sympy, general (theta, phi) as functions of r)."""
    params = ga.params()
    elim_p, other_p = params[0], params[1]
    degenerate = None
    general = None
    rho, fphi = sp.Symbol("rho", positive=True), sp.Symbol("varphi", real=True)
    for st in ga.node.body:
        if isinstance(st, ast.If) and isinstance(st.test, ast.Call) and (dotted(st.test.func) or "").split(".")[-1] == "isclose" \
                and norm(st.test.args[0]) == elim_p and len(st.body) == 1 and isinstance(st.body[0], ast.Return) \
                and isinstance(st.body[0].value, ast.Tuple) and len(st.body[0].value.elts) == 2:
            ev = SymEval(ga, {}, env={"np": "<np>"})
            degenerate = tuple(sp.sympify(ev.ev(x)) for x in st.body[0].value.elts)
    # general arm: straight-line assignments after the test, r = other / elim  with  other = rho * exp(i varphi) * elim
    a = sp.Symbol("a", complex=True, nonzero=True)
    env = {"np": "<np>", elim_p: a, other_p: rho * sp.exp(sp.I * fphi) * a}
    ev = SymEval(ga, {}, env=env)
    n_angle = [0]

    class _Angles(ast.NodeTransformer):
        """np.angle(z) wherever it is written: angle(rho * exp(i varphi)) = varphi for rho > 0 (principal value; varphi in (-pi, pi])"""

        def visit_Call(self, c):
            self.generic_visit(c)
            if (dotted(c.func) or "").split(".")[-1] == "angle" and len(c.args) == 1:
                inner = sp.simplify(ev.ev(c.args[0]))
                ratio = sp.simplify(inner / sp.exp(sp.I * fphi))
                if ratio.is_positive:
                    val = fphi
                elif sp.simplify(inner * sp.exp(sp.I * fphi)).is_positive:
                    val = -fphi
                else:
                    raise AnalysisError(f"C15c: cannot read the argument of np.angle in _get_angles: {inner} (undecided)")
                n_angle[0] += 1
                nm = f"angle__{n_angle[0]}"
                ev.env[nm] = val
                return ast.copy_location(ast.Name(nm, ast.Load()), c)
            return c

    import copy as _copy
    for st in ga.node.body:
        if isinstance(st, ast.Assign) and isinstance(st.value, ast.Attribute) and st.value.attr == "np":
            continue
        if isinstance(st, ast.Assign) and len(st.targets) == 1 and isinstance(st.targets[0], ast.Name):
            v = _Angles().visit(_copy.deepcopy(st.value))
            ev.env[st.targets[0].id] = sp.simplify(ev.ev(v))
        elif isinstance(st, ast.Return) and isinstance(st.value, ast.Tuple) and len(st.value.elts) == 2:
            general = tuple(sp.simplify(ev.ev(_Angles().visit(_copy.deepcopy(x)))) for x in st.value.elts)
    if degenerate is None or general is None:
        raise AnalysisError("C15c: _get_angles no longer has the shape `if isclose(pivot, 0): return c1, c2 ... return theta, phi` (undecided)")
    return degenerate, general, rho, fphi, a


def _givens_sites(m, ga_name: str):
    """For each sweep function: (function, position of the pivot in the 2-vector, position of the other element, their signs,
    'left' (matrix @ U, elements taken from a column) or 'right' (U @ conj(matrix).T, elements taken from a row))."""
    out = []
    for fn in m.functions.values():
        calls = [c for c in ast.walk(fn.node) if isinstance(c, ast.Call) and isinstance(c.func, ast.Name) and c.func.id == ga_name]
        if not calls:
            continue
        call = calls[0]
        loop = next((l for l in ast.walk(fn.node) if isinstance(l, ast.For) and any(x is call for x in ast.walk(l))), None)
        if loop is None or len(call.args) < 2:
            raise AnalysisError(f"C15c: call of {ga_name} in {fn.name} is not inside the sweep loop (undecided)")
        binds = {}
        for st in loop.body:
            if isinstance(st, ast.Assign) and len(st.targets) == 1 and isinstance(st.targets[0], ast.Name):
                binds[st.targets[0].id] = st.value

        def element(arg):
            # the element may be named first or written in place
            v = binds[arg.id] if isinstance(arg, ast.Name) and arg.id in binds else arg
            sign = 1
            if isinstance(v, ast.UnaryOp) and isinstance(v.op, ast.USub):
                sign, v = -1, v.operand
            if not (isinstance(v, ast.Subscript) and isinstance(v.slice, ast.Tuple) and len(v.slice.elts) == 2):
                raise AnalysisError(f"C15c: `{norm(v)}` in {fn.name} is not a matrix element (undecided)")
            # `<pair>[0]` / `<pair>[1]` where <pair> is the local bound to the 2-tuple of addressed modes (whatever it is called)
            pair_names = {k for k, b_ in binds.items() if isinstance(b_, ast.Tuple) and len(b_.elts) == 2}
            for axis, x in (("row", v.slice.elts[0]), ("col", v.slice.elts[1])):
                if isinstance(x, ast.Subscript) and isinstance(x.value, ast.Name) and x.value.id in pair_names \
                        and isinstance(x.slice, ast.Constant) and x.slice.value in (0, 1):
                    return sign, int(x.slice.value), axis
            raise AnalysisError(f"C15c: `{norm(v)}` in {fn.name} is not indexed by modes[0]/modes[1] (undecided)")

        s_e, p_e, ax_e = element(call.args[0])
        s_o, p_o, ax_o = element(call.args[1])
        if ax_e != ax_o or p_e == p_o:
            raise AnalysisError(f"C15c: pivot and partner in {fn.name} are not the two elements of one row/column (undecided)")
        side = None
        for st in loop.body:
            if isinstance(st, ast.Assign) and isinstance(st.value, ast.BinOp) and isinstance(st.value.op, ast.MatMult) and norm(st.targets[0]) == "U":
                l, r = st.value.left, st.value.right
                if norm(r) == "U":
                    side = ("left", l)
                elif norm(l) == "U":
                    side = ("right", r)
        if side is None:
            raise AnalysisError(f"C15c: no `U = M @ U` / `U = U @ M` update in {fn.name} (undecided)")
        # how the applied matrix is derived from the embedded block: plain, or conj(...).T
        mexpr = binds.get(norm(side[1]), side[1])
        txt = norm(mexpr)
        dag = ("conj" in txt) and (txt.endswith(".T") or "transpose" in txt)
        if not dag and "_get_embedded_beamsplitter_matrix" not in txt:
            raise AnalysisError(f"C15c: the matrix applied in {fn.name} is `{txt[:50]}`, not the embedded beamsplitter (or its adjoint) (undecided)")
        if (side[0] == "left") != (ax_e == "row"):
            raise AnalysisError(f"C15c: {fn.name} multiplies from the {side[0]} but takes the two elements from one {ax_e} (undecided)")
        out.append((fn, call, (s_e, p_e), (s_o, p_o), side[0], dag))
    return out


def clause_c(ctx: Context, m, block: sp.Matrix, th, ph) -> None:
    ga = m.functions.get("_get_angles")
    if ga is None:
        raise AnalysisError("anchor vanished: _get_angles")
    (th0, ph0), (thg, phg), rho, fphi, a = _angles_arms(ga)
    sites = _givens_sites(m, ga.name)
    ctx.require_floor("Givens sweep functions", len(sites), 2)
    b = sp.Symbol("b", complex=True, nonzero=True)
    for fn, call, (s_e, p_e), (s_o, p_o), side, dag in sites:
        M = block
        if dag:
            M = M.applyfunc(sp.conjugate).T
        def apply(vec, theta, phi):
            Ms = M.subs({th: theta, ph: phi}, simultaneous=True)
            v = sp.Matrix(vec)
            return (Ms * v) if side == "left" else (v.T * Ms).T
        # general arm: U-elements are sign * variable; other = rho e^{i varphi} * pivot
        vec = [None, None]
        vec[p_e] = s_e * a
        vec[p_o] = s_o * rho * sp.exp(sp.I * fphi) * a
        out = apply(vec, thg, phg)
        zero = [k for k in (0, 1) if is_zero(sp.simplify(out[k] / a))]
        key = f"{fn.qualname}|givens|general-arm-nulls-one-element"
        ok = len(zero) == 1
        ctx.obligation("C15c", key, ok, f"{ctx.relpath(m.path)}:{call.lineno}", nulled=zero, angles=str((thg, phg)))
        if not ok:
            ctx.violation("C15c", key, m.path, call.lineno,
                          f"with the angles {ga.name} returns for a non-zero pivot, {fn.name} nulls {'no' if not zero else 'both'} element(s) of the "
                          f"addressed pair: result {[sp.simplify(x) for x in out]}; the sweep does not triangularise the unitary", norm(call)[:80])
            continue
        k = zero[0]
        # degenerate arm: pivot = 0, partner arbitrary
        vec0 = [None, None]
        vec0[p_e] = sp.Integer(0)
        vec0[p_o] = s_o * b
        out0 = apply(vec0, th0, ph0)
        ok0 = is_zero(sp.simplify(out0[k]))
        key0 = f"{fn.qualname}|givens|degenerate-arm-nulls-the-same-element"
        ctx.obligation("C15c", key0, ok0, f"{ctx.relpath(m.path)}:{ga.line}", constants=str((th0, ph0)))
        if not ok0:
            ctx.violation("C15c", key0, m.path, ga.line,
                          f"for a vanishing pivot {ga.name} returns (theta, phi) = ({th0}, {ph0}), which leaves {sp.simplify(out0[k])} in the element that "
                          f"the step nulls for every non-zero pivot (there the angles tend to theta = pi/2): unitaries with a zero in the pivot "
                          f"position (permutations, block-diagonal matrices) are not triangularised and the decomposition does not reproduce them",
                          f"return {th0}, {ph0}")


# ================================================================================================ (d) Williamson: S D S^T = M
def clause_d(ctx: Context, idx) -> None:
    """`williamson` returns (S, D).  With the contracts of the library calls it uses - sqrtm(M) = R symmetric with R R = M, the second
    result of a real Schur decomposition is orthogonal, a block-diagonal matrix of 2x2 identity / rot90(identity) blocks with its columns
    permuted is orthogonal, matrices built by np.diag(f(np.diag(X))) are diagonal functions of one vector - the product S D S^T is reduced
    in a free word algebra (O^T O = I, diagonal exponents add, R R = M) and must be the single word M.  Nothing is executed."""
    from fractions import Fraction
    ctx.rule("C15d", "the factors williamson returns recompose the input: S D S^T reduces to M under the contracts of sqrtm / schur / the "
                     "orthogonal basis change and the arithmetic of diagonal matrices (free word algebra); the matrix handed to schur is "
                     "R^-1 Omega R^-1")
    try:
        fn = idx.find_function("piquasso._math.decompositions", "williamson")
    except Exception:
        raise AnalysisError("anchor vanished: piquasso._math.decompositions.williamson")
    params = fn.params()
    M = params[0]
    defs: Dict[str, ast.AST] = {}
    unpack: Dict[str, Tuple[ast.AST, int]] = {}
    ret = None
    for s in ast.walk(fn.node):
        if isinstance(s, ast.Assign) and len(s.targets) == 1:
            t = s.targets[0]
            if isinstance(t, ast.Name):
                if t.id in defs:
                    defs[t.id] = None  # type: ignore  # multiply defined: not read through
                else:
                    defs[t.id] = s.value
            elif isinstance(t, ast.Tuple) and all(isinstance(x, ast.Name) for x in t.elts):
                for k, x in enumerate(t.elts):
                    unpack[x.id] = (s.value, k)
        if isinstance(s, ast.Return) and s.value is not None:
            ret = s

    class Undecided(Exception):
        pass

    # a word is a list of atoms; atom = ("R", e) | ("O", name, transposed) | ("D", base, Fraction exponent) | ("M",) | ("W", text, transposed)
    def last(e):
        return e.func.attr if isinstance(e.func, ast.Attribute) else (dotted(e.func) or "").split(".")[-1]

    def helper_is_orthogonal(call: ast.Call) -> bool:
        """block_diag(*[identity if c else rotation for ...]) with identity = np.identity(2), rotation = np.rot90(identity)"""
        name = (dotted(call.func) or "").split(".")[-1]
        try:
            h = idx.find_function("piquasso._math.decompositions", name)
        except Exception:
            return False
        hdefs = {s.targets[0].id: s.value for s in ast.walk(h.node) if isinstance(s, ast.Assign) and len(s.targets) == 1 and isinstance(s.targets[0], ast.Name)}

        def ortho2(e, depth=0) -> bool:
            if isinstance(e, ast.Name) and e.id in hdefs and depth < 4:
                return ortho2(hdefs[e.id], depth + 1)
            if isinstance(e, ast.Call):
                nm = last(e)
                if nm in ("identity", "eye"):
                    return True
                if nm == "rot90" and e.args:
                    return ortho2(e.args[0], depth + 1)      # a rotated permutation matrix is a permutation matrix
            if isinstance(e, ast.IfExp):
                return ortho2(e.body, depth) and ortho2(e.orelse, depth)
            return False
        for r in ast.walk(h.node):
            if isinstance(r, ast.Return) and isinstance(r.value, ast.Call) and last(r.value) == "block_diag" and len(r.value.args) == 1 \
                    and isinstance(r.value.args[0], ast.Starred):
                inner = r.value.args[0].value
                if isinstance(inner, (ast.ListComp, ast.GeneratorExp)):
                    return ortho2(inner.elt)
        return False

    def diag_of(e: ast.AST):
        """np.diag(f(np.diag(X))) -> (text of X, exponent) for f in {identity, sqrt, 1 / .}"""
        if not (isinstance(e, ast.Call) and last(e) == "diag" and len(e.args) == 1):
            return None

        def inner(x):
            if isinstance(x, ast.Call) and last(x) == "diag" and len(x.args) == 1:
                return norm(resolve_name(x.args[0])), Fraction(1)
            if isinstance(x, ast.Call) and last(x) == "sqrt" and len(x.args) == 1:
                r = inner(x.args[0])
                return None if r is None else (r[0], r[1] / 2)
            if isinstance(x, ast.BinOp) and isinstance(x.op, ast.Div) and isinstance(x.left, ast.Constant) and x.left.value in (1, 1.0):
                r = inner(x.right)
                return None if r is None else (r[0], -r[1])
            if isinstance(x, ast.BinOp) and isinstance(x.op, ast.Pow) and isinstance(x.right, ast.UnaryOp) and isinstance(x.right.op, ast.USub) \
                    and isinstance(x.right.operand, ast.Constant):
                r = inner(x.left)
                return None if r is None else (r[0], -r[1] * Fraction(x.right.operand.value).limit_denominator(64))
            if isinstance(x, ast.Call) and last(x) == "reciprocal" and len(x.args) == 1:
                r = inner(x.args[0])
                return None if r is None else (r[0], -r[1])
            if isinstance(x, ast.Name) and defs.get(x.id) is not None:
                return inner(defs[x.id])
            return None
        return inner(e.args[0])

    def resolve_name(e: ast.AST) -> ast.AST:
        seen = 0
        while isinstance(e, ast.Name) and defs.get(e.id) is not None and seen < 6:
            e = defs[e.id]
            seen += 1
        return e

    def word(e: ast.AST, depth: int = 0):
        if depth > 12:
            raise Undecided("definition chain too long")
        if isinstance(e, ast.Name):
            if e.id == M:
                return [("M",)]
            if e.id in unpack:
                src, k = unpack[e.id]
                if isinstance(src, ast.Call) and last(src) == "schur":
                    if k == 1:
                        return [("O", "schur", False)]
                    return [("W", "T", False)]
            d_ = defs.get(e.id)
            if d_ is not None:
                return word(d_, depth + 1)
            if e.id == "omega" or "symplectic_form" in e.id:
                return [("W", "Omega", False)]
            raise Undecided(f"free name `{e.id}`")
        if isinstance(e, ast.Attribute) and e.attr == "real":
            return word(e.value, depth + 1)
        if isinstance(e, ast.Attribute) and e.attr == "T":
            return transpose(word(e.value, depth + 1))
        if isinstance(e, ast.BinOp) and isinstance(e.op, ast.MatMult):
            return word(e.left, depth + 1) + word(e.right, depth + 1)
        if isinstance(e, ast.Call):
            nm = last(e)
            if nm == "sqrtm" and len(e.args) == 1 and isinstance(e.args[0], ast.Name) and e.args[0].id == M:
                return [("R", 1)]
            if nm == "inv" and len(e.args) == 1:
                return invert(word(e.args[0], depth + 1))
            if nm in ("transpose",) and (len(e.args) == 1 or (isinstance(e.func, ast.Attribute) and not e.args)):
                return transpose(word(e.args[0] if e.args else e.func.value, depth + 1))
            if nm == "astype" and isinstance(e.func, ast.Attribute):
                return word(e.func.value, depth + 1)
            if nm.endswith("symplectic_form"):
                return [("W", "Omega", False)]
            dg = diag_of(e)
            if dg is not None:
                return [("D", dg[0], dg[1])]
        if isinstance(e, ast.Subscript) and isinstance(e.slice, ast.Tuple) and len(e.slice.elts) == 2 and isinstance(e.slice.elts[0], ast.Slice) \
                and e.slice.elts[0].lower is None and e.slice.elts[0].upper is None and isinstance(e.value, ast.Call) \
                and helper_is_orthogonal(e.value):
            perm = resolve_name(e.slice.elts[1])
            if isinstance(perm, ast.Call) and (dotted(perm.func) or "").split(".")[-1].endswith("_indices"):
                return [("O", "basis", False)]
        if isinstance(e, ast.Call) and helper_is_orthogonal(e):
            return [("O", "basis0", False)]
        raise Undecided(f"`{norm(e)[:60]}`")

    def transpose(w):
        out = []
        for a in reversed(w):
            if a[0] in ("R", "D", "M"):
                out.append(a)            # symmetric
            elif a[0] == "O":
                out.append(("O", a[1], not a[2]))
            else:
                out.append(("W", a[1], not a[2]))
        return out

    def invert(w):
        out = []
        for a in reversed(w):
            if a[0] == "R":
                out.append(("R", -a[1]))
            elif a[0] == "D":
                out.append(("D", a[1], -a[2]))
            elif a[0] == "O":
                out.append(("O", a[1], not a[2]))
            else:
                raise Undecided("inverse of an opaque factor")
        return out

    def reduce(w):
        w = list(w)
        changed = True
        while changed:
            changed = False
            for i in range(len(w) - 1):
                a, b = w[i], w[i + 1]
                if a[0] == "O" and b[0] == "O" and a[1] == b[1] and a[2] != b[2]:
                    del w[i:i + 2]
                    changed = True
                    break
                if a[0] == "D" and b[0] == "D" and a[1] == b[1]:
                    e = a[2] + b[2]
                    w[i:i + 2] = [("D", a[1], e)] if e != 0 else []
                    changed = True
                    break
                if a[0] == "R" and b[0] == "R":
                    e = a[1] + b[1]
                    w[i:i + 2] = [("R", e)] if e != 0 else []
                    changed = True
                    break
            w = [("M",) if x == ("R", 2) else x for x in w]
        return w

    def fmt(w):
        def one(a):
            if a[0] == "M":
                return "M"
            if a[0] == "R":
                return "M^(%s)" % Fraction(a[1], 2)
            if a[0] == "D":
                return f"diag({a[1]})^({a[2]})"
            return a[1] + ("^T" if a[2] else "")
        return " ".join(one(a) for a in w) or "I"

    where = f"{ctx.relpath(fn.file)}:{(ret or fn.node).lineno}"
    key = "williamson|S D S^T == M"
    if ret is None or not (isinstance(ret.value, ast.Tuple) and len(ret.value.elts) == 2):
        ctx.error("C15d: williamson does not return a pair (undecided)")
        return
    try:
        S = word(ret.value.elts[0])
        D = word(ret.value.elts[1])
        got = reduce(S + D + transpose(S))
    except Undecided as e:
        ctx.error(f"C15d: {e} in williamson is outside the word fragment (undecided)")
        return
    ok = got == [("M",)]
    ctx.obligation("C15d", key, ok, where, S=fmt(S), D=fmt(D), product=fmt(got))
    if not ok:
        ctx.violation("C15d", key, fn.file, ret.lineno,
                      f"with S = {fmt(S)} and D = {fmt(D)} the product S D S^T reduces to `{fmt(got)}`, not to the input M (contracts used: "
                      f"sqrtm(M)^2 = M, the Schur basis and the rotated / permuted basis change are orthogonal, diagonal exponents add)",
                      construct=f"S = {fmt(S)}; D = {fmt(D)}")
    diag_ok = len(D) == 1 and D[0][0] == "D"
    ctx.obligation("C15d", "williamson|D is a diagonal matrix", diag_ok, where)
    if not diag_ok:
        ctx.violation("C15d", "williamson|D is a diagonal matrix", fn.file, ret.lineno, f"the second result `{fmt(D)}` is not built as np.diag(f(np.diag(X)))",
                      construct=fmt(D))
    # the matrix that is block-diagonalised
    for c in ast.walk(fn.node):
        if isinstance(c, ast.Call) and last(c) == "schur" and c.args:
            try:
                arg = reduce(word(c.args[0]))
            except Undecided:
                continue   # another spelling: not compared
            good = arg == [("R", -1), ("W", "Omega", False), ("R", -1)]
            ctx.obligation("C15d", "williamson|schur argument == R^-1 Omega R^-1", good, f"{ctx.relpath(fn.file)}:{c.lineno}", argument=fmt(arg))
            if not good:
                ctx.violation("C15d", "williamson|schur argument == R^-1 Omega R^-1", fn.file, c.lineno,
                              f"the matrix handed to the Schur decomposition is `{fmt(arg)}`; S = M^(1/2) K D^(-1/2) is symplectic only when K "
                              f"block-diagonalises M^(-1/2) Omega M^(-1/2)", construct=fmt(arg))
    ctx.require_floor("C15d obligations (Williamson recomposition)", 2, 2)
